#!/bin/sh
# Build the whole framework from files on disk (offline).
set -e
cd "$(dirname "$0")"
export CARGO_NET_OFFLINE=true
(cd lean && lake build)
(cd harness && cargo build --offline --bins)
