#!/bin/sh
# Build the framework for every claimed check from files on disk (offline).
set -e
cd "$(dirname "$0")"
export CARGO_NET_OFFLINE=true
TARGETS=$(python3 -c "
import json
claimed=open('checks/CLAIMED').read().split()
lean=set(); bins=set()
for c in claimed:
    s=json.load(open('checks/%s.json'%c))
    lean.update(s['proof_modules'])
    for d in s.get('drivers',[]): lean.add(d['exe'])
    for st in s['streams']: bins.add(st['bin'])
print(' '.join(sorted(lean))+'|'+' '.join('--bin '+b for b in sorted(bins)))")
LEAN_T=${TARGETS%%|*}
BIN_T=${TARGETS##*|}
(cd lean && lake build $LEAN_T)
(cd harness && cargo build --offline $BIN_T)
