#!/bin/sh
# Build the whole framework from files on disk (offline).
set -e
cd "$(dirname "$0")"
export CARGO_NET_OFFLINE=true
DRIVERS=$(python3 -c "
import json,glob
ex=set()
for f in glob.glob('checks/C*.json'):
    for d in json.load(open(f)).get('drivers',[]): ex.add(d['exe'])
print(' '.join(sorted(ex)))")
(cd lean && lake build DropshotModel DropshotProofs $DRIVERS)
(cd harness && cargo build --offline --bins)
