//! Shared by the C09 and C10 harnesses (included with `#[path]`): the fixed list
//! of parameter shapes (mirrored by `lean/Driver/ExtractCommon.lean`), the
//! canonical value printer, the echo server with one endpoint per extractor,
//! request construction with full control over framing, and the `sv` line
//! format.

#![allow(dead_code)]

use dropshot::endpoint;
use dropshot::ApiDescription;
use dropshot::HttpError;
use dropshot::HttpResponseOk;
use dropshot::MultipartBody;
use dropshot::Path;
use dropshot::Query;
use dropshot::RawRequest;
use dropshot::RequestContext;
use dropshot::StreamingBody;
use dropshot::TypedBody;
use dropshot::UntypedBody;
use dsharness::server::*;
use dsharness::util::*;
use futures::TryStreamExt;
use http_body_util::BodyExt;
use schemars::JsonSchema;
use serde::Deserialize;
use serde::Serialize;
use std::io::Write;
use std::net::SocketAddr;
use std::net::TcpStream;
use std::sync::atomic::AtomicUsize;
use std::sync::atomic::Ordering;
use std::sync::Arc;
use std::time::Duration;

// ------------------------------------------------------------------ shapes

#[derive(Deserialize, Serialize, JsonSchema, Debug, Clone, PartialEq)]
pub enum Color {
    Red,
    Green,
    #[serde(rename = "dark-blue")]
    DarkBlue,
}
pub const COLORS: &[&str] = &["Red", "Green", "dark-blue"];

/// 0
#[derive(Deserialize, Serialize, JsonSchema, Debug)]
pub struct U4 {
    pub a: u8,
    pub b: u16,
    pub c: u32,
    pub d: u64,
}
/// 1
#[derive(Deserialize, Serialize, JsonSchema, Debug)]
pub struct I4 {
    pub a: i8,
    pub b: i16,
    pub c: i32,
    pub d: i64,
}
/// 2
#[derive(Deserialize, Serialize, JsonSchema, Debug)]
pub struct T3 {
    pub s: String,
    pub b: bool,
    pub c: char,
}
/// 3
#[derive(Deserialize, Serialize, JsonSchema, Debug)]
pub struct O3 {
    pub o: Option<u32>,
    pub p: Option<String>,
    pub q: Option<bool>,
}
/// 4
#[derive(Deserialize, Serialize, JsonSchema, Debug)]
pub struct E1 {
    pub e: Color,
}
/// 5
#[derive(Deserialize, Serialize, JsonSchema, Debug)]
pub struct W1 {
    pub path: Vec<String>,
}
/// 6
#[derive(Deserialize, Serialize, JsonSchema, Debug)]
pub struct R2 {
    #[serde(rename = "type")]
    pub ty: String,
    #[serde(rename = "x-y")]
    pub xy: i32,
}
/// 7
#[derive(Deserialize, Serialize, JsonSchema, Debug)]
pub struct M2 {
    pub id: u32,
    pub rest: Vec<String>,
}
/// 8
#[derive(Deserialize, Serialize, JsonSchema, Debug)]
pub struct OE3 {
    pub oe: Option<Color>,
    pub oi: Option<i64>,
    pub name: String,
}
/// 9
#[derive(Deserialize, Serialize, JsonSchema, Debug)]
pub struct S1 {
    pub s: String,
}
#[derive(Deserialize, Serialize, JsonSchema, Debug)]
pub struct Inner {
    pub z: u8,
}
/// 10
#[derive(Deserialize, Serialize, JsonSchema, Debug)]
pub struct N1 {
    pub n: Inner,
}
/// 11
#[derive(Deserialize, Serialize, JsonSchema, Debug)]
pub struct V1 {
    pub v: Vec<u16>,
}
/// 12  path of `/path/{id}/{name}/{flag}`
#[derive(Deserialize, Serialize, JsonSchema, Debug)]
pub struct P3 {
    pub id: i64,
    pub name: String,
    pub flag: bool,
}
/// 13  query of `/query`
#[derive(Deserialize, Serialize, JsonSchema, Debug)]
pub struct Q6 {
    pub n: u64,
    pub s: String,
    pub b: Option<bool>,
    pub e: Option<Color>,
    pub i: Option<i8>,
    pub c: Option<char>,
}
/// 14  JSON body of `/json`
#[derive(Deserialize, Serialize, JsonSchema, Debug)]
pub struct B6 {
    pub id: u32,
    pub name: String,
    pub flag: bool,
    pub opt: Option<i64>,
    pub kind: Color,
    pub tags: Vec<String>,
}
/// 15  url-encoded body of `/form`
#[derive(Deserialize, Serialize, JsonSchema, Debug)]
pub struct F3 {
    pub id: u32,
    pub name: String,
    pub flag: Option<bool>,
}
/// 16  small JSON body of `/j2`
#[derive(Deserialize, Serialize, JsonSchema, Debug)]
pub struct J4 {
    pub id: u32,
    pub s: String,
    pub o: Option<bool>,
    pub e: Color,
}
/// 17 / 18 / 19: path, query and body of `/all/{nonce}`
#[derive(Deserialize, Serialize, JsonSchema, Debug)]
pub struct PN {
    pub nonce: String,
}
#[derive(Deserialize, Serialize, JsonSchema, Debug)]
pub struct QN {
    pub q: String,
    pub k: Option<u32>,
}
#[derive(Deserialize, Serialize, JsonSchema, Debug)]
pub struct BN {
    pub nonce: String,
    pub seq: u64,
}

/// 20  path of `/scal/{u}/{i}/{b}/{c}/{e}`: one variable of each scalar kind
#[derive(Deserialize, Serialize, JsonSchema, Debug)]
pub struct SC5 {
    pub u: u16,
    pub i: i32,
    pub b: bool,
    pub c: char,
    pub e: Color,
}
/// 22  path struct with a `#[serde(flatten)]`-ed part whose members are read
/// from a string (`from_map`'s `deserialize_any` buffers them as strings)
#[derive(Deserialize, Serialize, JsonSchema, Debug)]
pub struct FL {
    pub id: u32,
    #[serde(flatten)]
    pub inner: FLInner,
}
#[derive(Deserialize, Serialize, JsonSchema, Debug)]
pub struct FLInner {
    pub name: String,
    pub tag: Option<String>,
    pub kind: Color,
    pub c: char,
}
/// 23  a flattened part with numeric / boolean members (serde cannot fill
/// them from a buffered string: always refused when supplied)
#[derive(Deserialize, Serialize, JsonSchema, Debug)]
pub struct FN {
    pub s: String,
    #[serde(flatten)]
    pub inner: FNInner,
}
#[derive(Deserialize, Serialize, JsonSchema, Debug)]
pub struct FNInner {
    pub n: u16,
    pub f: Option<bool>,
}
/// 21  first-page scan parameters of the paginated `/page`
#[derive(Deserialize, Serialize, JsonSchema, Debug)]
pub struct ScanP {
    pub min: Option<u32>,
    pub kind: Option<Color>,
    pub flag: Option<bool>,
}
#[derive(Deserialize, Serialize, JsonSchema, Debug)]
pub struct PageSel {
    pub last: u32,
}

// ------------------------------------------------------------------ canon

fn hexs(s: &str) -> String {
    hex(s.as_bytes())
}

/// Canonical one-token rendering of a JSON value: objects key-sorted (byte
/// order), strings hex-encoded, integers in decimal.
pub fn canon(v: &serde_json::Value) -> String {
    use serde_json::Value::*;
    match v {
        Null => "z".to_string(),
        Bool(true) => "t".to_string(),
        Bool(false) => "f".to_string(),
        Number(n) => format!("n{}", n),
        String(s) => format!("s{}", hexs(s)),
        Array(a) => format!("[{}]", a.iter().map(canon).collect::<Vec<_>>().join(";")),
        Object(o) => {
            let mut kv: Vec<(&std::string::String, &serde_json::Value)> = o.iter().collect();
            kv.sort_by(|a, b| a.0.as_bytes().cmp(b.0.as_bytes()));
            format!(
                "{{{}}}",
                kv.iter().map(|(k, v)| format!("{}:{}", hexs(k), canon(v))).collect::<Vec<_>>().join(",")
            )
        }
    }
}

pub fn canon_of<T: Serialize>(t: &T) -> String {
    canon(&serde_json::to_value(t).expect("serializes"))
}

/// Error message → small enum shared with the Lean `DeErr`.
pub fn classify(msg: &str) -> &'static str {
    if msg.starts_with("missing field") {
        "missing"
    } else if msg.starts_with("unknown variant") {
        "variant"
    } else if msg.starts_with("duplicate field") {
        "duplicate"
    } else if msg.starts_with("unable to parse")
        || msg.contains("invalid digit")
        || msg.contains("number too")
        || msg.contains("cannot parse")
        || msg.contains("provided string was not")
        || msg.contains("expected a character")
        || msg.contains("too many characters")
    {
        "parse"
    } else {
        "shape"
    }
}

// ------------------------------------------------------------------ server

pub const EPS: &[&str] =
    &["p3", "wild", "q6", "json", "form", "j2", "raw", "stream", "rawreq", "mp", "all", "scal", "page", "bigjson", "bigform", "tls", "formopt", "bigraw", "bigstream"];

pub fn ep_index(ep: &str) -> usize {
    EPS.iter().position(|e| *e == ep).expect("known endpoint")
}

pub struct SrvCtx {
    pub entered: Vec<AtomicUsize>,
}

impl SrvCtx {
    pub fn new() -> Arc<SrvCtx> {
        Arc::new(SrvCtx { entered: (0..EPS.len()).map(|_| AtomicUsize::new(0)).collect() })
    }
    pub fn count(&self, ep: &str) -> usize {
        self.entered[ep_index(ep)].load(Ordering::SeqCst)
    }
    pub fn total(&self) -> usize {
        self.entered.iter().map(|a| a.load(Ordering::SeqCst)).sum()
    }
}

type Rq = RequestContext<Arc<SrvCtx>>;

/// What every handler answers: the canonical form of what it was given, and
/// what its `RequestContext` says about the request.
#[derive(Serialize, Deserialize, JsonSchema, Debug, Clone, Default)]
pub struct Echo {
    pub v: String,
    pub m: String,
    pub u: String,
    pub h: String,
    pub p: u16,
}

fn enter(rq: &Rq, ep: &str) {
    rq.context().entered[ep_index(ep)].fetch_add(1, Ordering::SeqCst);
}

fn echo(rq: &Rq, v: String) -> Result<HttpResponseOk<Echo>, HttpError> {
    let h = match rq.request.headers().get("x-nonce") {
        Some(v) => hex(v.as_bytes()),
        None => "-".to_string(),
    };
    Ok(HttpResponseOk(Echo {
        v,
        m: rq.request.method().as_str().to_string(),
        u: hex(rq.request.uri().to_string().as_bytes()),
        h,
        p: rq.request.remote_addr().port(),
    }))
}

#[endpoint { method = GET, path = "/path/{id}/{name}/{flag}" }]
async fn ep_p3(rq: Rq, p: Path<P3>) -> Result<HttpResponseOk<Echo>, HttpError> {
    enter(&rq, "p3");
    echo(&rq, canon_of(&p.into_inner()))
}

#[endpoint { method = GET, path = "/wild/{id}/{rest:.*}", unpublished = true }]
async fn ep_wild(rq: Rq, p: Path<M2>) -> Result<HttpResponseOk<Echo>, HttpError> {
    enter(&rq, "wild");
    echo(&rq, canon_of(&p.into_inner()))
}

#[endpoint { method = GET, path = "/query" }]
async fn ep_q6(rq: Rq, q: Query<Q6>) -> Result<HttpResponseOk<Echo>, HttpError> {
    enter(&rq, "q6");
    echo(&rq, canon_of(&q.into_inner()))
}

#[endpoint { method = POST, path = "/json" }]
async fn ep_json(rq: Rq, b: TypedBody<B6>) -> Result<HttpResponseOk<Echo>, HttpError> {
    enter(&rq, "json");
    echo(&rq, canon_of(&b.into_inner()))
}

#[endpoint { method = POST, path = "/form", content_type = "application/x-www-form-urlencoded" }]
async fn ep_form(rq: Rq, b: TypedBody<F3>) -> Result<HttpResponseOk<Echo>, HttpError> {
    enter(&rq, "form");
    echo(&rq, canon_of(&b.into_inner()))
}

/// url-encoded body whose fields are all optional: an empty body is a value of the type
#[endpoint { method = POST, path = "/formopt", content_type = "application/x-www-form-urlencoded" }]
async fn ep_formopt(rq: Rq, b: TypedBody<O3>) -> Result<HttpResponseOk<Echo>, HttpError> {
    enter(&rq, "formopt");
    echo(&rq, canon_of(&b.into_inner()))
}

#[endpoint { method = POST, path = "/j2" }]
async fn ep_j2(rq: Rq, b: TypedBody<J4>) -> Result<HttpResponseOk<Echo>, HttpError> {
    enter(&rq, "j2");
    echo(&rq, canon_of(&b.into_inner()))
}

#[endpoint { method = PUT, path = "/raw" }]
async fn ep_raw(rq: Rq, b: UntypedBody) -> Result<HttpResponseOk<Echo>, HttpError> {
    enter(&rq, "raw");
    echo(&rq, format!("s{}", hex(b.as_bytes())))
}

#[endpoint { method = PUT, path = "/stream" }]
async fn ep_stream(rq: Rq, b: StreamingBody) -> Result<HttpResponseOk<Echo>, HttpError> {
    enter(&rq, "stream");
    let chunks: Vec<bytes::Bytes> = b.into_stream().try_collect().await?;
    let mut all = Vec::new();
    for c in chunks {
        all.extend_from_slice(&c);
    }
    echo(&rq, format!("s{}", hex(&all)))
}

// the same two with a large limit: bodies of many frames, small and large ones mixed
#[endpoint { method = PUT, path = "/bigraw", request_body_max_bytes = BIG_BODY_CAP }]
async fn ep_bigraw(rq: Rq, b: UntypedBody) -> Result<HttpResponseOk<Echo>, HttpError> {
    enter(&rq, "bigraw");
    echo(&rq, format!("s{}", hex(b.as_bytes())))
}

#[endpoint { method = PUT, path = "/bigstream", request_body_max_bytes = BIG_BODY_CAP }]
async fn ep_bigstream(rq: Rq, b: StreamingBody) -> Result<HttpResponseOk<Echo>, HttpError> {
    enter(&rq, "bigstream");
    let chunks: Vec<bytes::Bytes> = b.into_stream().try_collect().await?;
    let mut all = Vec::new();
    for c in chunks {
        all.extend_from_slice(&c);
    }
    echo(&rq, format!("s{}", hex(&all)))
}

#[endpoint { method = POST, path = "/rawreq" }]
async fn ep_rawreq(rq: Rq, r: RawRequest) -> Result<HttpResponseOk<Echo>, HttpError> {
    enter(&rq, "rawreq");
    let body = r.into_inner().into_body();
    let all = body
        .collect()
        .await
        .map_err(|e| HttpError::for_bad_request(None, format!("rawreq body: {}", e)))?
        .to_bytes();
    echo(&rq, format!("s{}", hex(&all)))
}

#[endpoint { method = POST, path = "/multipart" }]
async fn ep_mp(rq: Rq, mut m: MultipartBody) -> Result<HttpResponseOk<Echo>, HttpError> {
    enter(&rq, "mp");
    let mut fields = Vec::new();
    loop {
        match m.content.next_field().await {
            Ok(Some(f)) => {
                let name = f.name().unwrap_or("").to_string();
                let data = f
                    .bytes()
                    .await
                    .map_err(|e| HttpError::for_bad_request(None, format!("multipart read: {}", e)))?;
                fields.push(mp_field_canon(&name, &data));
            }
            Ok(None) => break,
            Err(e) => {
                return Err(HttpError::for_bad_request(None, format!("multipart read: {}", e)));
            }
        }
    }
    echo(&rq, format!("[{}]", fields.join(";")))
}

pub fn mp_field_canon(name: &str, data: &[u8]) -> String {
    format!("{}={}", hexs(name), hex(data))
}

#[endpoint { method = POST, path = "/all/{nonce}" }]
async fn ep_all(rq: Rq, p: Path<PN>, q: Query<QN>, b: TypedBody<BN>) -> Result<HttpResponseOk<Echo>, HttpError> {
    enter(&rq, "all");
    let v = format!(
        "{{{}:{},{}:{},{}:{}}}",
        hexs("b"),
        canon_of(&b.into_inner()),
        hexs("p"),
        canon_of(&p.into_inner()),
        hexs("q"),
        canon_of(&q.into_inner())
    );
    echo(&rq, v)
}

#[endpoint { method = GET, path = "/scal/{u}/{i}/{b}/{c}/{e}" }]
async fn ep_scal(rq: Rq, p: Path<SC5>) -> Result<HttpResponseOk<Echo>, HttpError> {
    enter(&rq, "scal");
    echo(&rq, canon_of(&p.into_inner()))
}

/// Paginated: the first-page scan parameters go through `from_map`.
#[endpoint { method = GET, path = "/page" }]
async fn ep_page(
    rq: Rq,
    q: Query<dropshot::PaginationParams<ScanP, PageSel>>,
) -> Result<HttpResponseOk<dropshot::ResultsPage<Echo>>, HttpError> {
    enter(&rq, "page");
    let v = match &q.into_inner().page {
        dropshot::WhichPage::First(s) => canon_of(s),
        dropshot::WhichPage::Next(sel) => format!("next{}", sel.last),
    };
    let e = echo(&rq, v)?.0;
    Ok(HttpResponseOk(dropshot::ResultsPage { next_page: None, items: vec![e] }))
}

pub const BIG_BODY_CAP: usize = 262144;

#[endpoint { method = POST, path = "/bigjson", request_body_max_bytes = BIG_BODY_CAP }]
async fn ep_bigjson(rq: Rq, b: TypedBody<J4>) -> Result<HttpResponseOk<Echo>, HttpError> {
    enter(&rq, "bigjson");
    echo(&rq, canon_of(&b.into_inner()))
}

#[endpoint {
    method = POST,
    path = "/bigform",
    content_type = "application/x-www-form-urlencoded",
    request_body_max_bytes = BIG_BODY_CAP,
}]
async fn ep_bigform(rq: Rq, b: TypedBody<F3>) -> Result<HttpResponseOk<Echo>, HttpError> {
    enter(&rq, "bigform");
    echo(&rq, canon_of(&b.into_inner()))
}

/// For the TLS stream: what the handler's context says the peer is, with the nonce.
#[endpoint { method = GET, path = "/tls/{nonce}" }]
async fn ep_tls(rq: Rq, p: Path<PN>) -> Result<HttpResponseOk<Echo>, HttpError> {
    enter(&rq, "tls");
    let v = format!("s{}", hex(format!("{}|{}", rq.request.remote_addr(), p.into_inner().nonce).as_bytes()));
    echo(&rq, v)
}

pub fn make_api() -> ApiDescription<Arc<SrvCtx>> {
    let mut api = ApiDescription::new();
    api.register(ep_p3).unwrap();
    api.register(ep_wild).unwrap();
    api.register(ep_q6).unwrap();
    api.register(ep_json).unwrap();
    api.register(ep_form).unwrap();
    api.register(ep_formopt).unwrap();
    api.register(ep_j2).unwrap();
    api.register(ep_raw).unwrap();
    api.register(ep_stream).unwrap();
    api.register(ep_rawreq).unwrap();
    api.register(ep_mp).unwrap();
    api.register(ep_all).unwrap();
    api.register(ep_scal).unwrap();
    api.register(ep_page).unwrap();
    api.register(ep_bigjson).unwrap();
    api.register(ep_bigform).unwrap();
    api.register(ep_tls).unwrap();
    api.register(ep_bigraw).unwrap();
    api.register(ep_bigstream).unwrap();
    api
}

pub const BODY_CAP: usize = 4096;

// ------------------------------------------------------------------ requests

#[derive(Clone, Debug)]
pub enum Framing {
    /// `Content-Length`
    Cl,
    /// chunked: sizes (0 is read as 1; the rest goes into one more chunk),
    /// per-chunk extensions, last-chunk extension, trailer fields
    Ch { splits: Vec<usize>, exts: Vec<Vec<u8>>, last_ext: Vec<u8>, trailers: Vec<(Vec<u8>, Vec<u8>)> },
    /// no body headers at all (GET)
    None,
    /// `Transfer-Encoding: chunked` followed by these bytes as they are: a framing the
    /// chunked coding does not allow (the payload of such a request is the raw bytes)
    BadCh,
}

/// Mirrors `Extract.chunk` in the Lean model.
pub fn chunk_encode(
    body: &[u8],
    splits: &[usize],
    exts: &[Vec<u8>],
    last_ext: &[u8],
    trailers: &[(Vec<u8>, Vec<u8>)],
) -> Vec<u8> {
    let mut v = Vec::new();
    let mut pos = 0;
    let mut i = 0;
    while pos < body.len() {
        let sz = if i < splits.len() { splits[i].max(1).min(body.len() - pos) } else { body.len() - pos };
        v.extend_from_slice(format!("{:x}", sz).as_bytes());
        if let Some(e) = exts.get(i) {
            v.extend_from_slice(e);
        }
        v.extend_from_slice(b"\r\n");
        v.extend_from_slice(&body[pos..pos + sz]);
        v.extend_from_slice(b"\r\n");
        pos += sz;
        i += 1;
    }
    v.push(b'0');
    v.extend_from_slice(last_ext);
    v.extend_from_slice(b"\r\n");
    for (n, val) in trailers {
        v.extend_from_slice(n);
        v.extend_from_slice(b": ");
        v.extend_from_slice(val);
        v.extend_from_slice(b"\r\n");
    }
    v.extend_from_slice(b"\r\n");
    v
}

#[derive(Clone, Debug)]
pub struct Req {
    pub ep: &'static str,
    pub method: &'static str,
    pub target: Vec<u8>,
    pub ct: Option<Vec<u8>>,
    pub framing: Framing,
    pub payload: Vec<u8>,
    pub meta: String,
    pub sent_canon: String,
    pub nonce: String,
}

impl Req {
    /// The body bytes as they go on the wire.
    pub fn wire_body(&self) -> Vec<u8> {
        match &self.framing {
            Framing::Cl | Framing::None | Framing::BadCh => self.payload.clone(),
            Framing::Ch { splits, exts, last_ext, trailers } => {
                chunk_encode(&self.payload, splits, exts, last_ext, trailers)
            }
        }
    }
    pub fn wire(&self) -> Vec<u8> {
        let mut v = Vec::new();
        v.extend_from_slice(self.method.as_bytes());
        v.push(b' ');
        v.extend_from_slice(&self.target);
        v.extend_from_slice(b" HTTP/1.1\r\nhost: localhost\r\n");
        v.extend_from_slice(format!("x-nonce: {}\r\n", self.nonce).as_bytes());
        if let Some(ct) = &self.ct {
            v.extend_from_slice(b"content-type: ");
            v.extend_from_slice(ct);
            v.extend_from_slice(b"\r\n");
        }
        match &self.framing {
            Framing::Cl => v.extend_from_slice(format!("content-length: {}\r\n", self.payload.len()).as_bytes()),
            Framing::Ch { .. } | Framing::BadCh => v.extend_from_slice(b"transfer-encoding: chunked\r\n"),
            Framing::None => {}
        }
        v.extend_from_slice(b"\r\n");
        v.extend_from_slice(&self.wire_body());
        v
    }
    fn framing_field(&self) -> String {
        match &self.framing {
            Framing::Cl => "cl".to_string(),
            Framing::None => "nb".to_string(),
            Framing::BadCh => "bc".to_string(),
            Framing::Ch { splits, exts, last_ext, trailers } => {
                let s = if splits.is_empty() {
                    "_".to_string()
                } else {
                    splits.iter().map(|x| x.to_string()).collect::<Vec<_>>().join(",")
                };
                let e = if exts.is_empty() {
                    "_".to_string()
                } else {
                    exts.iter().map(|x| hex(x)).collect::<Vec<_>>().join(",")
                };
                let t = if trailers.is_empty() {
                    "_".to_string()
                } else {
                    trailers.iter().map(|(n, v)| format!("{}={}", hex(n), hex(v))).collect::<Vec<_>>().join(",")
                };
                format!("ch:{}:{}:{}:{}", s, e, hex(last_ext), t)
            }
        }
    }
    /// The input half of an `sv`-format line.
    pub fn line_input(&self, stream: &str, id: u64) -> String {
        format!(
            "{} {} {} {} {} {} {} {} {} {} {}",
            stream,
            id,
            self.ep,
            self.method,
            hex(&self.target),
            match &self.ct {
                Some(c) => hex(c),
                None => "none".to_string(),
            },
            self.framing_field(),
            hex(&self.wire_body()),
            if self.meta.is_empty() { "_" } else { &self.meta },
            if self.sent_canon.is_empty() { "-" } else { &self.sent_canon },
            self.nonce
        )
    }
}

/// What came back, in line form.
#[derive(Clone, Debug, Default)]
pub struct Got {
    pub status: u16,
    pub echo: Echo,
    pub errbody_ok: String,
    pub raw: Option<RawResponse>,
}

pub fn digest(resp: Option<RawResponse>) -> Got {
    let mut g = Got::default();
    g.errbody_ok = "na".to_string();
    g.echo.v = "-".into();
    g.echo.m = "-".into();
    g.echo.u = "-".into();
    g.echo.h = "-".into();
    let Some(r) = resp else {
        return g; // status 0 = no response
    };
    g.status = if r.well_formed { r.status } else { 1 };
    if r.status == 200 {
        if let Ok(e) = serde_json::from_slice::<Echo>(&r.body) {
            g.echo = e;
        } else if let Ok(v) = serde_json::from_slice::<serde_json::Value>(&r.body) {
            // the paginated endpoint wraps its echo in a `ResultsPage`
            if let Some(first) = v.get("items").and_then(|i| i.get(0)) {
                if let Ok(e) = serde_json::from_value::<Echo>(first.clone()) {
                    g.echo = e;
                }
            }
        }
    } else if r.status >= 400 {
        let ok = match serde_json::from_slice::<serde_json::Value>(&r.body) {
            Ok(serde_json::Value::Object(o)) => {
                matches!(o.get("message"), Some(serde_json::Value::String(_)))
                    && matches!(o.get("request_id"), Some(serde_json::Value::String(_)))
                    && r.header("x-request-id").is_some()
                    && o.get("request_id").and_then(|v| v.as_str()) == r.header("x-request-id")
            }
            _ => false,
        };
        g.errbody_ok = if ok { "1" } else { "0" }.to_string();
    }
    g.raw = Some(r);
    g
}

/// Address of the plain-HTTP server of this run (set by `main`), for `mp_transient`.
pub static PLAIN_ADDR: std::sync::OnceLock<SocketAddr> = std::sync::OnceLock::new();
/// Handler entries caused by `mp_transient`'s own resends (for the entry counts of `ct` lines).
pub static K10_RESENDS: std::sync::atomic::AtomicUsize = std::sync::atomic::AtomicUsize::new(0);

/// Known finding K10 (multer 3.1.0, `Multipart::poll_next_field`): when the first of
/// its two `poll_stream` calls finds the body stream pending and the second receives the
/// whole body together with the end of the stream, it answers `IncompleteStream` without
/// looking at the buffer again.  A schedule, not an input: the same request sent again is
/// served.  When a multipart request is refused with exactly that message and the same
/// request, sent twice more on its own connection, is delivered (the same value both
/// times), the echoed value becomes `T:<value delivered on resend>`; a refusal that
/// repeats is left as it is.  Returns the digest of the last resend.
pub fn mp_transient(rq: &Req, g: &mut Got) -> Option<Got> {
    if rq.ep != "mp" || g.status != 400 {
        return None;
    }
    let msg = g.raw.as_ref().map(|r| String::from_utf8_lossy(&r.body).to_string()).unwrap_or_default();
    if !msg.contains("incomplete multipart stream") {
        return None;
    }
    let addr = PLAIN_ADDR.get()?;
    let mut last = None;
    let mut vals = Vec::new();
    for _ in 0..2 {
        let a = single(*addr, rq);
        K10_RESENDS.fetch_add(1, std::sync::atomic::Ordering::SeqCst);
        let g2 = digest(a.resp);
        if g2.status != 200 {
            return None;
        }
        vals.push(g2.echo.v.clone());
        last = Some(g2);
    }
    if vals[0] != vals[1] {
        return None;
    }
    eprintln!("K10: transient multipart refusal ({} bytes), delivered on resend", rq.payload.len());
    g.echo.v = format!("T:{}", vals[0]);
    last
}

impl Got {
    /// The output half: `port` is the client's own port on the connection that
    /// carried the answer (an observation, compared with the echoed peer port).
    pub fn line_output(&self, port: u16, delta: &str, followup: &str) -> String {
        format!(
            "{} {} {} {} {} {} {} {} {} {}",
            self.status,
            if self.echo.v.is_empty() { "-" } else { &self.echo.v },
            if self.echo.m.is_empty() { "-" } else { &self.echo.m },
            if self.echo.u.is_empty() { "-" } else { &self.echo.u },
            if self.echo.h.is_empty() { "-" } else { &self.echo.h },
            port,
            self.echo.p,
            delta,
            self.errbody_ok,
            followup
        )
    }
}

pub fn connect_long(addr: SocketAddr) -> std::io::Result<TcpStream> {
    let s = TcpStream::connect_timeout(&addr, Duration::from_secs(20))?;
    s.set_read_timeout(Some(Duration::from_secs(60)))?;
    s.set_write_timeout(Some(Duration::from_secs(60)))?;
    s.set_nodelay(true)?;
    Ok(s)
}

/// One answered (or abandoned) request: the client port of the connection that
/// carried the answer, the answer, and how many times the request had to be
/// sent again because the server closed the connection before answering it.
pub struct Answer {
    pub port: u16,
    pub resp: Option<RawResponse>,
    pub resent: u32,
}

/// A pipelining client: sends `reqs` in batches of `depth` back to back on one
/// connection and reads the answers in order.  If the server closes the
/// connection before answering a request (it may at any time: hyper does so
/// after a request whose chunked body carried trailer fields, and after a body
/// it could not drain), the unanswered requests are sent again on a fresh
/// connection, as any HTTP client has to.  A request is given up after three
/// connections died on it.
pub fn run_conn(addr: SocketAddr, reqs: &[Req], depth: usize) -> Vec<Answer> {
    let mut answers: Vec<Answer> = reqs.iter().map(|_| Answer { port: 0, resp: None, resent: 0 }).collect();
    let mut next = 0usize; // first unanswered request
    let mut conn: Option<(TcpStream, RespReader, u16)> = None;
    while next < reqs.len() {
        if conn.is_none() {
            match connect_long(addr) {
                Ok(s) => {
                    let port = s.local_addr().map(|a| a.port()).unwrap_or(0);
                    let rr = RespReader::new(s.try_clone().expect("clone socket"));
                    conn = Some((s, rr, port));
                }
                Err(_) => {
                    answers[next].resent += 1;
                    if answers[next].resent > 3 {
                        next += 1;
                    }
                    continue;
                }
            }
        }
        let (s, rr, port) = conn.as_mut().unwrap();
        let hi = (next + depth.max(1)).min(reqs.len());
        let mut all = Vec::new();
        for r in &reqs[next..hi] {
            all.extend_from_slice(&r.wire());
        }
        let wrote = s.write_all(&all).is_ok();
        let mut dead = !wrote;
        let mut k = next;
        while !dead && k < hi {
            match rr.read_response(false) {
                Some(r) => {
                    answers[k].port = *port;
                    answers[k].resp = Some(r);
                    k += 1;
                }
                None => dead = true,
            }
        }
        if dead {
            conn = None;
            if k < reqs.len() {
                answers[k].resent += 1;
                if answers[k].resent > 3 {
                    k += 1; // give up on this one
                }
            }
        }
        next = k;
    }
    answers
}

/// One request on its own connection.
/// One request on its own connection, its body written in pieces (cut at these offsets into
/// the body as it goes on the wire) with a pause between the pieces: the server sees the
/// body arrive as several reads of the given sizes.
pub fn single_in_pieces(addr: SocketAddr, rq: &Req, cuts: &[usize], pause: Duration) -> Answer {
    let mut a = Answer { port: 0, resp: None, resent: 0 };
    let wire = rq.wire();
    let head = wire.len() - rq.wire_body().len();
    let Ok(mut s) = connect_long(addr) else { return a };
    a.port = s.local_addr().map(|x| x.port()).unwrap_or(0);
    let _ = s.set_nodelay(true);
    let mut at = 0usize;
    for c in cuts.iter().map(|c| head + *c).chain(std::iter::once(wire.len())) {
        let c = c.min(wire.len());
        if c > at {
            if s.write_all(&wire[at..c]).is_err() {
                return a;
            }
            let _ = s.flush();
            at = c;
            if at < wire.len() {
                std::thread::sleep(pause);
            }
        }
    }
    let mut rr = RespReader::new(s);
    a.resp = rr.read_response(false);
    a
}

pub fn single(addr: SocketAddr, rq: &Req) -> Answer {
    run_conn(addr, std::slice::from_ref(rq), 1).pop().unwrap()
}

// ------------------------------------------------------------------ HTTP/2

/// The same requests over HTTP/2 (prior knowledge, plain port).  A body framed with
/// content-length (`Framing::Cl`) is sent as one sized body; a body that the HTTP/1.1
/// streams send chunked is sent as a stream of DATA frames with NO content-length (the
/// chunk splits become frame boundaries): HTTP/2 delimits a body by END_STREAM alone.
pub fn h2_batch(rt: &tokio::runtime::Runtime, addr: std::net::SocketAddr, reqs: &[Req]) -> Vec<Answer> {
    use http_body_util::BodyExt;
    use hyper_util::rt::{TokioExecutor, TokioIo};
    type Bx = http_body_util::combinators::BoxBody<bytes::Bytes, std::convert::Infallible>;
    rt.block_on(async {
        let mut answers: Vec<Answer> = reqs.iter().map(|_| Answer { port: 0, resp: None, resent: 0 }).collect();
        let Ok(tcp) = tokio::net::TcpStream::connect(addr).await else { return answers };
        let port = tcp.local_addr().map(|a| a.port()).unwrap_or(0);
        let Ok((mut sender, conn)) =
            hyper::client::conn::http2::handshake::<_, _, Bx>(TokioExecutor::new(), TokioIo::new(tcp)).await
        else {
            return answers;
        };
        let conn_task = tokio::spawn(conn);
        let mut futs = Vec::new();
        for rq in reqs {
            let uri = format!("http://localhost{}", String::from_utf8_lossy(&rq.target));
            let mut b = http::Request::builder().method(rq.method).uri(uri).header("x-nonce", rq.nonce.as_str());
            if let Some(ct) = &rq.ct {
                b = b.header("content-type", ct.as_slice());
            }
            let body: Bx = match &rq.framing {
                Framing::None | Framing::BadCh => http_body_util::Empty::<bytes::Bytes>::new().boxed(),
                Framing::Cl => http_body_util::Full::new(bytes::Bytes::from(rq.payload.clone())).boxed(),
                Framing::Ch { splits, .. } => {
                    let mut frames: Vec<Result<hyper::body::Frame<bytes::Bytes>, std::convert::Infallible>> = Vec::new();
                    let mut rest: &[u8] = &rq.payload;
                    for n in splits {
                        let k = (*n).min(rest.len());
                        if k > 0 {
                            frames.push(Ok(hyper::body::Frame::data(bytes::Bytes::copy_from_slice(&rest[..k]))));
                        }
                        rest = &rest[k..];
                    }
                    if !rest.is_empty() {
                        frames.push(Ok(hyper::body::Frame::data(bytes::Bytes::copy_from_slice(rest))));
                    }
                    http_body_util::StreamBody::new(futures::stream::iter(frames)).boxed()
                }
            };
            let Ok(req) = b.body(body) else {
                futs.push(None);
                continue;
            };
            if sender.ready().await.is_err() {
                futs.push(None);
                continue;
            }
            futs.push(Some(sender.send_request(req)));
        }
        for (i, f) in futs.into_iter().enumerate() {
            let Some(f) = f else { continue };
            answers[i].port = port;
            if let Ok(Ok(rsp)) = tokio::time::timeout(std::time::Duration::from_secs(20), f).await {
                let mut raw = RawResponse::default();
                raw.status = rsp.status().as_u16();
                for (n, v) in rsp.headers() {
                    raw.headers.push((n.as_str().to_string(), String::from_utf8_lossy(v.as_bytes()).to_string()));
                }
                if let Ok(Ok(body)) = tokio::time::timeout(std::time::Duration::from_secs(20), rsp.into_body().collect()).await {
                    raw.body = body.to_bytes().to_vec();
                    raw.well_formed = true;
                }
                answers[i].resp = Some(raw);
            }
        }
        drop(sender);
        conn_task.abort();
        answers
    })
}

/// Can an HTTP/2 client express this request (a URI as target, a legal content-type value,
/// no chunk extensions or trailers)?
pub fn h2_expressible(rq: &Req) -> bool {
    let ok_target = std::str::from_utf8(&rq.target)
        .ok()
        .map(|t| format!("http://localhost{}", t).parse::<http::Uri>().is_ok())
        .unwrap_or(false);
    // RFC 9113 section 8.2.1: a field value must not start or end with whitespace (an HTTP/1.1
    // parser strips it; an HTTP/2 peer must not send it)
    let ok_ct = rq
        .ct
        .as_ref()
        .map(|c| {
            http::HeaderValue::from_bytes(c).is_ok()
                && !matches!(c.first(), Some(b' ') | Some(b'\t'))
                && !matches!(c.last(), Some(b' ') | Some(b'\t'))
        })
        .unwrap_or(true);
    let plain_chunks = match &rq.framing {
        Framing::Ch { exts, last_ext, trailers, .. } => exts.iter().all(|e| e.is_empty()) && last_ext.is_empty() && trailers.is_empty(),
        // HTTP/2 has no chunked coding to get wrong
        Framing::BadCh => false,
        _ => true,
    };
    ok_target && ok_ct && plain_chunks
}

/// The handler of an HTTP/2 request sees the absolute URI: strip scheme and authority from
/// the echoed one so that it compares with the request target.
pub fn h2_normalise_echo(g: &mut Got) {
    let prefix = hex(b"http://localhost");
    if g.echo.u.starts_with(&prefix) {
        g.echo.u = g.echo.u[prefix.len()..].to_string();
    }
}

// ------------------------------------------------------------------ generators

pub const UNRESERVED: &[u8] = b"ABCDEFGHIJKLMNOPQRSTUVWXYZabcdefghijklmnopqrstuvwxyz0123456789-._~";

/// Interesting text: ASCII, reserved characters, controls, multi-byte UTF-8.
pub fn gen_text(rng: &mut Rng, min_len: usize, max_len: usize) -> String {
    const POOL: &[&str] = &[
        "a", "b", "Z", "0", "9", " ", "  ", "/", "?", "#", "&", "=", "+", "%", "%41", "%zz", ";", ":", "@", "\"", "'",
        "\\", "<", ">", "{", "}", "|", "^", "`", "[", "]", "\t", "\n", "\r", "\u{0}", "\u{1}", "\u{7f}", ".", "..",
        "-", "_", "~", "*", "!", "$", ",", "(", ")", "é", "ß", "Ω", "ж", "中", "文", "\u{ffff}", "😀", "\u{10ffff}",
        "\u{fffd}", "\u{80}", "\u{7ff}", "\u{800}", "٣", "true", "null", "%2F", "%00",
    ];
    let n = rng.range(min_len as u64, max_len as u64) as usize;
    let mut s = String::new();
    for _ in 0..n {
        s.push_str(rng.pick_s(POOL));
    }
    s
}

/// Percent-encode `bytes` as a client may: unreserved (and, with `lax`, some
/// sub-delimiters) raw, the rest `%XX` with a random case per hex digit;
/// `plus_space`: a space may be written `+`.
pub fn enc_component(rng: &mut Rng, bytes: &[u8], lax_raw: &[u8], plus_space: bool) -> Vec<u8> {
    let mut v = Vec::new();
    for &b in bytes {
        let raw_ok = UNRESERVED.contains(&b) || lax_raw.contains(&b);
        if raw_ok && !rng.chance(1, 8) {
            v.push(b);
        } else if b == b' ' && plus_space && rng.chance(1, 2) {
            v.push(b'+');
        } else {
            let hi = b >> 4;
            let lo = b & 15;
            v.push(b'%');
            for d in [hi, lo] {
                let c = if d < 10 {
                    b'0' + d
                } else if rng.chance(1, 2) {
                    b'A' + d - 10
                } else {
                    b'a' + d - 10
                };
                v.push(c);
            }
        }
    }
    v
}

/// Sub-delimiters that `http::Uri` accepts raw in a path segment / query value.
pub const PATH_LAX: &[u8] = b"!$&'()*+,;=:@";
pub const QUERY_VAL_LAX: &[u8] = b"!$'()*,;:@/?=";
pub const QUERY_KEY_LAX: &[u8] = b"!$'()*,;:@/?";

pub fn gen_framing(rng: &mut Rng, len: usize) -> Framing {
    match rng.below(6) {
        0 | 1 => Framing::Cl,
        _ => {
            let mode = rng.below(5);
            let mut splits = Vec::new();
            match mode {
                0 => {
                    for _ in 0..len {
                        splits.push(1);
                    }
                }
                1 => {}
                2 => {
                    let mut left = len;
                    while left > 0 {
                        let k = rng.range(0, 4.min(left as u64)) as usize;
                        splits.push(k);
                        left -= k.max(1);
                    }
                }
                _ => {
                    let n = rng.range(0, 6);
                    for _ in 0..n {
                        splits.push(rng.range(0, (len as u64).max(1)) as usize);
                    }
                }
            }
            let ext_pool: &[&[u8]] =
                &[b"", b"", b";x", b";x=y", b";name=\"quoted value\"", b";a;b=c;d=\"e\"", b";\xc3\xa9=1", b";=", b";;"];
            let mut exts = Vec::new();
            if rng.chance(1, 2) {
                let n = rng.range(0, 5);
                for _ in 0..n {
                    exts.push(rng.pick(ext_pool).to_vec());
                }
            }
            let last_ext = if rng.chance(1, 3) { rng.pick(ext_pool).to_vec() } else { vec![] };
            let mut trailers = Vec::new();
            if rng.chance(1, 3) {
                let n = rng.range(1, 3);
                for i in 0..n {
                    trailers.push((format!("x-trailer-{}", i).into_bytes(), gen_header_text(rng)));
                }
            }
            Framing::Ch { splits, exts, last_ext, trailers }
        }
    }
}

fn gen_header_text(rng: &mut Rng) -> Vec<u8> {
    const POOL: &[&str] = &["a", "1", "b c", "x=y", ";", "\"q\"", "-", "checksum", ":"];
    let n = rng.range(0, 3);
    let mut s = String::new();
    for _ in 0..n {
        s.push_str(rng.pick_s(POOL));
    }
    s.trim().as_bytes().to_vec()
}

pub fn rand_case(rng: &mut Rng, s: &str) -> String {
    s.chars().map(|c| if rng.chance(1, 2) { c.to_ascii_uppercase() } else { c.to_ascii_lowercase() }).collect()
}

/// A multipart body for `fields` with delimiter `boundary`.
pub fn multipart_body(boundary: &[u8], fields: &[(String, Vec<u8>)]) -> Vec<u8> {
    let mut v = Vec::new();
    for (n, d) in fields {
        v.extend_from_slice(b"--");
        v.extend_from_slice(boundary);
        v.extend_from_slice(b"\r\nContent-Disposition: form-data; name=\"");
        v.extend_from_slice(n.as_bytes());
        v.extend_from_slice(b"\"\r\n\r\n");
        v.extend_from_slice(d);
        v.extend_from_slice(b"\r\n");
    }
    v.extend_from_slice(b"--");
    v.extend_from_slice(boundary);
    v.extend_from_slice(b"--\r\n");
    v
}

pub const TOKEN_EXTRA: &[u8] = b"!#$%&'*+-.^_`|~";
pub fn is_token(b: u8) -> bool {
    b.is_ascii_alphanumeric() || TOKEN_EXTRA.contains(&b)
}

/// RFC 2046 boundary.
pub fn gen_boundary(rng: &mut Rng) -> Vec<u8> {
    const BCHARS: &[u8] = b"0123456789ABCDEFGHIJKLMNOPQRSTUVWXYZabcdefghijklmnopqrstuvwxyz'()+_,-./:=? ";
    const TOKENISH: &[u8] = b"0123456789ABCXYZabcxyz'+_-.";
    let hi = if rng.chance(1, 8) { 70 } else { 24 };
    let n = rng.range(1, hi) as usize;
    let pool = if rng.chance(1, 2) { TOKENISH } else { BCHARS };
    let mut v: Vec<u8> = (0..n).map(|_| *rng.pick(pool)).collect();
    if *v.last().unwrap() == b' ' {
        *v.last_mut().unwrap() = b'x';
    }
    v
}

/// A legal spelling of `multipart/form-data` with the given boundary
/// (mirrors `Extract.spellContentType`).
pub fn spell_multipart_ct(rng: &mut Rng, boundary: &[u8]) -> Vec<u8> {
    let mut v = rand_case(rng, "multipart/form-data").into_bytes();
    let others: &[&[u8]] =
        &[b"charset=utf-8", b"charset=UTF-8", b"x=y", b"a=\"b c; d\"", b"name=\"q\"", b"Charset=\"utf-8\"", b"t=1"];
    let spaces = |rng: &mut Rng, v: &mut Vec<u8>, always_one: bool| {
        let n = if always_one { 1 } else { rng.below(4) };
        for _ in 0..n {
            v.push(b' ');
        }
    };
    let put_other = |rng: &mut Rng, v: &mut Vec<u8>| {
        v.push(b';');
        let exactly_one = rng.chance(1, 2);
        spaces(rng, v, exactly_one);
        let o = *rng.pick(others);
        v.extend_from_slice(o);
        if o.ends_with(b"\"") {
            for _ in 0..rng.below(3) {
                v.push(b' ');
            }
        }
    };
    for _ in 0..rng.below(3) {
        put_other(rng, &mut v);
    }
    v.push(b';');
    spaces(rng, &mut v, false);
    v.extend_from_slice(rand_case(rng, "boundary").as_bytes());
    v.push(b'=');
    let tokenable = boundary.iter().all(|b| is_token(*b));
    if tokenable && rng.chance(1, 2) {
        v.extend_from_slice(boundary);
    } else {
        v.push(b'"');
        v.extend_from_slice(boundary);
        v.push(b'"');
        for _ in 0..rng.below(3) {
            v.push(b' ');
        }
    }
    for _ in 0..rng.below(3) {
        put_other(rng, &mut v);
    }
    v
}

// ------------------------------------------------------------------ long / non-ASCII ill-typed values

/// Ill-typed values (never a number, boolean, single character or variant
/// name) for the error paths: lengths around powers of two, and multi-byte
/// UTF-8 characters placed so that they straddle every byte offset from 56 to
/// 72 and the offsets around 128, 256 and 1024.  `(label, value)`; the label
/// tells how the value was made.
pub fn long_values() -> Vec<(String, String)> {
    let mut v: Vec<(String, String)> = Vec::new();
    let chars: [(usize, char); 3] = [(2, 'é'), (3, '中'), (4, '😀')];
    let mut offsets: Vec<usize> = (56..=72).collect();
    for c in [128usize, 256, 1024] {
        for d in 0..5 {
            offsets.push(c - 2 + d);
        }
    }
    for o in offsets {
        for (w, ch) in chars {
            for k in 1..w {
                // the character starts at byte o-k and ends at o-k+w: offset o is inside it
                let start = o - k;
                let mut s = "a".repeat(start);
                s.push(ch);
                s.push_str("tail-xyz");
                v.push((format!("straddle{}w{}k{}", o, w, k), s));
            }
        }
    }
    for len in [32usize, 63, 64, 65, 127, 128, 255, 256, 1024, 4096] {
        v.push((format!("ascii{}", len), "x".repeat(len)));
        for (w, ch) in chars {
            // exactly `len` bytes: ASCII padding in front so that the rest is whole characters
            let n = len / w;
            let pad = len - n * w;
            let mut s = "p".repeat(pad);
            for _ in 0..n {
                s.push(ch);
            }
            v.push((format!("fill{}w{}", len, w), s));
            // ASCII then one character ending exactly at `len`, and one starting at `len - 1`
            let mut s = "a".repeat(len - 1);
            s.push(ch);
            v.push((format!("edge{}w{}", len, w), s));
        }
    }
    v
}

/// 65536-byte values: only ASCII and one multi-byte fill (they do not fit a
/// request target at all: `http::Uri` stops at 65534 bytes).
pub fn huge_values() -> Vec<(String, String)> {
    let mut s = "p".repeat(65536 % 3);
    for _ in 0..(65536 / 3) {
        s.push('中');
    }
    vec![("ascii65536".to_string(), "x".repeat(65536)), ("fill65536w3".to_string(), s)]
}
