//! C12 correspondence harness: typed success responses.
//!
//! Streams (one case per line, `<stream> <id> <input…> => <impl…>`):
//!   hv  `http::HeaderValue::from_str` / `HeaderName::try_from` validity
//!   hm  `http::HeaderMap` append / insert / remove / extend vs the Lean multimap
//!   tr  `HttpResponse::to_result()` in-process: kinds x body types x declared
//!       header structs x explicit header maps
//!   rd  redirect constructors x location strings (+ explicit headers)
//!   lw  live server sample over the wire

use dropshot::endpoint;
use dropshot::http_response_found;
use dropshot::http_response_see_other;
use dropshot::http_response_temporary_redirect;
use dropshot::ApiDescription;
use dropshot::HttpCodedResponse;
use dropshot::HttpError;
use dropshot::HttpResponse;
use dropshot::HttpResponseAccepted;
use dropshot::HttpResponseCreated;
use dropshot::HttpResponseDeleted;
use dropshot::HttpResponseHeaders;
use dropshot::HttpResponseOk;
use dropshot::HttpResponseUpdatedNoContent;
use dropshot::Path;
use dropshot::Query;
use dropshot::RequestContext;
use dsharness::server::*;
use dsharness::util::*;
use http::HeaderMap;
use http::HeaderName;
use http::HeaderValue;
use http_body_util::BodyExt;
use schemars::JsonSchema;
use serde::Deserialize;
use serde::Serialize;
use serde_json::Value;

// ---------------------------------------------------------------- helpers

fn canon(v: &Value) -> Value {
    match v {
        Value::Array(a) => Value::Array(a.iter().map(canon).collect()),
        Value::Object(m) => {
            let mut keys: Vec<&String> = m.keys().collect();
            keys.sort();
            let mut out = serde_json::Map::new();
            for k in keys {
                out.insert(k.clone(), canon(&m[k]));
            }
            Value::Object(out)
        }
        other => other.clone(),
    }
}

/// Canonical JSON text: keys sorted by `canon`; serde_json's map is either
/// sorted or insertion-ordered, both print in the order built here.
fn canon_text(v: &Value) -> String {
    serde_json::to_string(&canon(v)).unwrap()
}

fn gen_text(rng: &mut Rng) -> String {
    const PIECES: &[&str] = &[
        "", "a", "Z", "hello", "\"", "\\", "\n", "\r", "\t", "\u{0}", "\u{1}", "\u{1f}", "\u{7f}", "\u{80}", "é",
        "漢字", "😀", "\u{2028}", "\u{feff}", " ", "/", "{", "}", "[", ",", ":", "null", "0", "%20", "\u{ff}",
    ];
    let n = match rng.below(8) {
        0 => 0,
        1..=5 => rng.range(1, 3),
        _ => rng.range(3, 12),
    };
    let mut s = String::new();
    for _ in 0..n {
        s.push_str(*rng.pick(PIECES));
    }
    s
}

fn gen_value(rng: &mut Rng, depth: u32) -> Value {
    let top = if depth == 0 { 6 } else { 8 };
    match rng.below(top) {
        0 => Value::Null,
        1 => Value::Bool(rng.chance(1, 2)),
        2 => {
            let n: i64 = *rng.pick(&[0i64, 1, -1, 42, i64::MIN, i64::MAX, 9007199254740993, -9007199254740993, 255, 65536]);
            Value::from(n)
        }
        3 => Value::from(*rng.pick(&[u64::MAX, 1u64 << 63, 18446744073709551614])),
        4 | 5 => Value::String(gen_text(rng)),
        6 => Value::Array((0..rng.below(4)).map(|_| gen_value(rng, depth - 1)).collect()),
        _ => {
            let mut m = serde_json::Map::new();
            for _ in 0..rng.below(4) {
                m.insert(gen_text(rng), gen_value(rng, depth - 1));
            }
            Value::Object(m)
        }
    }
}

/// A header value that `HeaderValue` accepts (valid UTF-8, no controls but HTAB, no DEL).
fn gen_good_hval(rng: &mut Rng) -> String {
    const P: &[&str] = &["a", "B", "1", " ", "\t", "é", "漢", "😀", "/", ";", "=", "\"", ",", "~", "x-y", "\u{80}", "\u{ff}"];
    let mut s = String::new();
    for _ in 0..rng.range(0, 5) {
        s.push_str(*rng.pick(P));
    }
    s
}

/// Mostly good, sometimes containing a byte `HeaderValue` refuses.
fn gen_hval(rng: &mut Rng) -> String {
    let mut s = gen_good_hval(rng);
    if rng.chance(1, 5) {
        let bad = *rng.pick(&["\n", "\r", "\u{0}", "\u{7f}", "\u{1f}", "\u{b}", "\r\nx: y"]);
        let pos = {
            let idxs: Vec<usize> = s.char_indices().map(|(i, _)| i).chain(std::iter::once(s.len())).collect();
            *rng.pick(&idxs)
        };
        s.insert_str(pos, bad);
    }
    s
}

fn header_pairs(h: &HeaderMap) -> Vec<(String, Vec<u8>)> {
    let mut names: Vec<String> = h.keys().map(|k| k.as_str().to_string()).collect();
    names.sort();
    names.dedup();
    let mut pairs = Vec::new();
    for n in &names {
        for v in h.get_all(n.as_str()) {
            pairs.push((n.clone(), v.as_bytes().to_vec()));
        }
    }
    pairs
}

fn fmt_pairs(p: &[(String, Vec<u8>)]) -> String {
    let mut s = format!("{}", p.len());
    for (n, v) in p {
        s.push_str(&format!(" {} {}", hex(n.as_bytes()), hex(v)));
    }
    s
}

#[derive(Clone, Debug)]
enum Op {
    Append(String, String),
    Insert(String, String),
    Remove(String),
}

fn fmt_ops(ops: &[Op]) -> String {
    let mut s = format!("{}", ops.len());
    for o in ops {
        match o {
            Op::Append(n, v) => s.push_str(&format!(" A:{}:{}", hex(n.as_bytes()), hex(v.as_bytes()))),
            Op::Insert(n, v) => s.push_str(&format!(" I:{}:{}", hex(n.as_bytes()), hex(v.as_bytes()))),
            Op::Remove(n) => s.push_str(&format!(" R:{}", hex(n.as_bytes()))),
        }
    }
    s
}

fn apply_ops(m: &mut HeaderMap, ops: &[Op]) {
    for o in ops {
        match o {
            Op::Append(n, v) => {
                m.append(HeaderName::try_from(n.as_str()).unwrap(), HeaderValue::from_str(v).unwrap());
            }
            Op::Insert(n, v) => {
                m.insert(HeaderName::try_from(n.as_str()).unwrap(), HeaderValue::from_str(v).unwrap());
            }
            Op::Remove(n) => {
                m.remove(HeaderName::try_from(n.as_str()).unwrap());
            }
        }
    }
}

const EXPLICIT_NAMES: &[&str] = &[
    "x_one", "X_One", "X_ONE", "x-two", "X-Two", "x-a", "X-A", "content-type", "Content-Type", "location", "Location",
    "x-extra", "X-Extra", "set-cookie", "aa", "zz", "mm", "MM",
];

fn gen_ops(rng: &mut Rng, allow_remove: bool) -> Vec<Op> {
    let n = match rng.below(6) {
        0 | 1 => 0,
        2 => 1,
        3 => 2,
        _ => rng.range(3, 6),
    };
    (0..n)
        .map(|_| {
            let name = rng.pick(EXPLICIT_NAMES).to_string();
            match rng.below(if allow_remove { 5 } else { 4 }) {
                0 | 1 => Op::Append(name, gen_good_hval(rng)),
                2 | 3 => Op::Insert(name, gen_good_hval(rng)),
                _ => Op::Remove(name),
            }
        })
        .collect()
}

// ---------------------------------------------------------------- hv / hm

fn hv_stream(out: &mut Out, id: &mut u64, rng: &mut Rng) {
    // every single byte value as a char (0..=127 one byte, 128..=255 two bytes) inside a value / a name
    for c in 0u32..=255 {
        let ch = char::from_u32(c).unwrap();
        for s in [format!("{}", ch), format!("a{}b", ch)] {
            *id += 1;
            out.line(&format!(
                "hv {} {} => {} {}",
                id,
                hex(s.as_bytes()),
                HeaderValue::from_str(&s).is_ok() as u8,
                HeaderName::try_from(s.clone()).is_ok() as u8
            ));
        }
    }
    *id += 1;
    out.line(&format!("hv {} - => {} {}", id, HeaderValue::from_str("").is_ok() as u8, HeaderName::try_from(String::new()).is_ok() as u8));
    for _ in 0..1500 {
        let s = if rng.chance(1, 2) { gen_hval(rng) } else { rng.pick(EXPLICIT_NAMES).to_string() };
        *id += 1;
        out.line(&format!(
            "hv {} {} => {} {}",
            id,
            hex(s.as_bytes()),
            HeaderValue::from_str(&s).is_ok() as u8,
            HeaderName::try_from(s.clone()).is_ok() as u8
        ));
    }
}

fn hm_stream(out: &mut Out, id: &mut u64, rng: &mut Rng, thorough: bool) {
    let n = if thorough { 200_000 } else { 20_000 };
    for _ in 0..n {
        let ops1 = gen_ops(rng, true);
        let ops2 = gen_ops(rng, true);
        let mut m1 = HeaderMap::new();
        apply_ops(&mut m1, &ops1);
        let mut m2 = HeaderMap::new();
        apply_ops(&mut m2, &ops2);
        m1.extend(m2);
        *id += 1;
        out.line(&format!("hm {} {} {} => {}", id, fmt_ops(&ops1), fmt_ops(&ops2), fmt_pairs(&header_pairs(&m1))));
    }
}

// ---------------------------------------------------------------- tr

#[derive(Serialize, JsonSchema, Clone)]
enum En {
    A,
    B { x: i32 },
    C(String),
}

#[derive(Serialize, JsonSchema, Clone)]
struct Rec {
    s: String,
    n: u64,
    o: Option<i64>,
    v: Vec<String>,
    e: En,
    #[serde(rename = "renamed-field")]
    r: bool,
}

/// A body type whose serialisation fails.
struct Unser;
impl Serialize for Unser {
    fn serialize<S: serde::Serializer>(&self, _: S) -> Result<S::Ok, S::Error> {
        Err(serde::ser::Error::custom("cannot serialise this"))
    }
}
impl JsonSchema for Unser {
    fn schema_name() -> String {
        "Unser".to_string()
    }
    fn json_schema(_: &mut schemars::gen::SchemaGenerator) -> schemars::schema::Schema {
        schemars::schema::Schema::Bool(true)
    }
}

/// … and one whose serialisation fails only after part of the output was produced
/// (the leading members are written before the failing one is reached).
#[derive(Serialize, JsonSchema)]
struct UnserLate {
    name: String,
    size: u32,
    bad: Unser,
}
fn unser_late() -> UnserLate {
    UnserLate { name: "broken".into(), size: 7, bad: Unser }
}
/// Alternate between the two failing bodies (same expected outcome: refused, nothing sent).
fn late_turn() -> bool {
    static N: std::sync::atomic::AtomicUsize = std::sync::atomic::AtomicUsize::new(0);
    N.fetch_add(1, std::sync::atomic::Ordering::SeqCst) % 2 == 1
}

#[derive(Serialize, JsonSchema)]
struct H1 {
    x_one: String,
}
#[derive(Serialize, JsonSchema)]
struct H2 {
    x_one: String,
    #[serde(rename = "X-Two")]
    x_two: String,
}
#[derive(Serialize, JsonSchema)]
struct HCase {
    #[serde(rename = "x-a")]
    lower: String,
    #[serde(rename = "X-A")]
    upper: String,
}
#[derive(Serialize, JsonSchema)]
struct HCt {
    #[serde(rename = "Content-Type")]
    ct: String,
    x_one: String,
}
#[derive(Serialize, JsonSchema)]
struct HNum {
    x_one: String,
    n: u32,
}
#[derive(Serialize, JsonSchema)]
struct HOpt {
    x_one: Option<String>,
}
/// A member that is left out when empty: which headers a value of this type declares
/// varies from one response to the next.
#[derive(Serialize, JsonSchema)]
struct HSkip {
    x_one: String,
    #[serde(rename = "etag", skip_serializing_if = "String::is_empty")]
    tag: String,
    #[serde(rename = "x-generation", skip_serializing_if = "String::is_empty")]
    generation: String,
    x_last: String,
}
/// A header type without data: its members are unit markers that serialise to constants
/// (`cache-control: no-store`, `x-mark: on`).  The value is zero-sized; its headers are
/// declared all the same.
struct NoStore;
impl Serialize for NoStore {
    fn serialize<S: serde::Serializer>(&self, s: S) -> Result<S::Ok, S::Error> {
        s.serialize_str("no-store")
    }
}
struct MarkOn;
impl Serialize for MarkOn {
    fn serialize<S: serde::Serializer>(&self, s: S) -> Result<S::Ok, S::Error> {
        s.serialize_str("on")
    }
}
macro_rules! string_schema {
    ($t:ty) => {
        impl JsonSchema for $t {
            fn schema_name() -> String {
                "String".to_string()
            }
            fn is_referenceable() -> bool {
                false
            }
            fn json_schema(g: &mut schemars::gen::SchemaGenerator) -> schemars::schema::Schema {
                g.subschema_for::<String>()
            }
        }
    };
}
string_schema!(NoStore);
string_schema!(MarkOn);
#[derive(Serialize, JsonSchema)]
struct HZst {
    #[serde(rename = "cache-control")]
    cache_control: NoStore,
    x_mark: MarkOn,
}
#[derive(Serialize, JsonSchema)]
struct HBadName {
    #[serde(rename = "bad name")]
    a: String,
}
#[derive(Serialize, JsonSchema)]
struct HOrder {
    zz: String,
    aa: String,
    #[serde(rename = "Mm")]
    mm: String,
}

/// The declared-header struct of a case: which shape, and its string values.
#[derive(Clone)]
struct Decl {
    shape: &'static str,
    vals: Vec<String>,
}

/// (serde field name, `Some(value)` for a string field / `None` for a non-string one), in declaration order.
fn decl_fields(d: &Decl) -> Vec<(&'static str, Option<String>)> {
    let v = |i: usize| Some(d.vals[i].clone());
    match d.shape {
        "none" => vec![],
        "h1" => vec![("x_one", v(0))],
        "h2" => vec![("x_one", v(0)), ("X-Two", v(1))],
        "hcase" => vec![("x-a", v(0)), ("X-A", v(1))],
        "hct" => vec![("Content-Type", v(0)), ("x_one", v(1))],
        "hnum" => vec![("x_one", v(0)), ("n", None)],
        "hopt" => vec![("x_one", None)],
        "hbad" => vec![("bad name", v(0))],
        "horder" => vec![("zz", v(0)), ("aa", v(1)), ("Mm", v(2))],
        "hzst" => vec![("cache-control", Some("no-store".to_string())), ("x_mark", Some("on".to_string()))],
        "hskip" => {
            // vals[1] decides which of the two optional members is present (empty = left out)
            let (tag, gen) = skip_members(d);
            let mut f = vec![("x_one", v(0))];
            if !tag.is_empty() {
                f.push(("etag", Some(tag)));
            }
            if !gen.is_empty() {
                f.push(("x-generation", Some(gen)));
            }
            f.push(("x_last", v(2)));
            f
        }
        _ => unreachable!(),
    }
}

/// The two optional members of `HSkip` for this case: both, one, the other or none,
/// depending on the (generated) second value.
fn skip_members(d: &Decl) -> (String, String) {
    let v = d.vals[1].clone();
    match v.len() % 4 {
        0 => (v.clone(), String::new()),
        1 => (String::new(), v.clone()),
        2 => (v.clone(), v.clone()),
        _ => (String::new(), String::new()),
    }
}

fn with_headers<T: HttpCodedResponse>(body: T, d: &Decl, ops: &[Op]) -> Result<hyper::Response<dropshot::Body>, HttpError> {
    macro_rules! go {
        ($h:expr) => {{
            let mut r = HttpResponseHeaders::new(body, $h);
            apply_ops(r.headers_mut(), ops);
            r.to_result()
        }};
    }
    let s = |i: usize| d.vals[i].clone();
    match d.shape {
        "none" => {
            let mut r = HttpResponseHeaders::new_unnamed(body);
            apply_ops(r.headers_mut(), ops);
            r.to_result()
        }
        "h1" => go!(H1 { x_one: s(0) }),
        "h2" => go!(H2 { x_one: s(0), x_two: s(1) }),
        "hcase" => go!(HCase { lower: s(0), upper: s(1) }),
        "hct" => go!(HCt { ct: s(0), x_one: s(1) }),
        "hnum" => go!(HNum { x_one: s(0), n: 7 }),
        "hopt" => go!(HOpt { x_one: Some(s(0)) }),
        "hbad" => go!(HBadName { a: s(0) }),
        "horder" => go!(HOrder { zz: s(0), aa: s(1), mm: s(2) }),
        "hzst" => go!(HZst { cache_control: NoStore, x_mark: MarkOn }),
        "hskip" => {
            let (tag, generation) = skip_members(d);
            go!(HSkip { x_one: s(0), tag, generation, x_last: s(2) })
        }
        _ => unreachable!(),
    }
}

enum BodyVal {
    Val(Value),
    Rec(Rec),
    Unser,
}

fn run_tr(kind: &str, wrapped: bool, body: &BodyVal, d: &Decl, ops: &[Op]) -> Result<hyper::Response<dropshot::Body>, HttpError> {
    macro_rules! with_body {
        ($ctor:ident) => {
            match body {
                BodyVal::Val(v) => {
                    if wrapped {
                        with_headers($ctor(v.clone()), d, ops)
                    } else {
                        $ctor(v.clone()).to_result()
                    }
                }
                BodyVal::Rec(r) => {
                    if wrapped {
                        with_headers($ctor(r.clone()), d, ops)
                    } else {
                        $ctor(r.clone()).to_result()
                    }
                }
                BodyVal::Unser => {
                    if late_turn() {
                        if wrapped {
                            with_headers($ctor(unser_late()), d, ops)
                        } else {
                            $ctor(unser_late()).to_result()
                        }
                    } else if wrapped {
                        with_headers($ctor(Unser), d, ops)
                    } else {
                        $ctor(Unser).to_result()
                    }
                }
            }
        };
    }
    match kind {
        "ok" => with_body!(HttpResponseOk),
        "created" => with_body!(HttpResponseCreated),
        "accepted" => with_body!(HttpResponseAccepted),
        "deleted" => {
            if wrapped {
                with_headers(HttpResponseDeleted(), d, ops)
            } else {
                HttpResponseDeleted().to_result()
            }
        }
        "updated" => {
            if wrapped {
                with_headers(HttpResponseUpdatedNoContent(), d, ops)
            } else {
                HttpResponseUpdatedNoContent().to_result()
            }
        }
        _ => unreachable!(),
    }
}

fn fmt_result(r: Result<hyper::Response<dropshot::Body>, HttpError>, json_body: bool) -> String {
    match r {
        Err(e) => format!("err {} {}", e.status_code.as_u16(), hex(e.external_message.as_bytes())),
        Ok(rsp) => {
            let (parts, body) = rsp.into_parts();
            let body = futures::executor::block_on(body.collect()).unwrap().to_bytes().to_vec();
            let parsed = if !json_body {
                "_".to_string()
            } else {
                match serde_json::from_slice::<Value>(&body) {
                    Ok(v) => hex(canon_text(&v).as_bytes()),
                    Err(_) => "bad".to_string(),
                }
            };
            format!("ok {} {} {} {}", parts.status.as_u16(), fmt_pairs(&header_pairs(&parts.headers)), hex(&body), parsed)
        }
    }
}

const KINDS: &[&str] = &["ok", "created", "accepted", "deleted", "updated"];
const SHAPES: &[&str] = &["none", "h1", "h2", "hcase", "hct", "hnum", "hopt", "hbad", "horder", "hskip", "hzst"];

fn tr_case(out: &mut Out, id: &mut u64, kind: &str, wrapped: bool, body: &BodyVal, d: &Decl, ops: &[Op]) {
    let json_kind = matches!(kind, "ok" | "created" | "accepted");
    let (ser, canon_in) = if !json_kind {
        ("_".to_string(), "_".to_string())
    } else {
        match body {
            BodyVal::Val(v) => (format!("S{}", hex(serde_json::to_string(v).unwrap().as_bytes())), hex(canon_text(v).as_bytes())),
            BodyVal::Rec(r) => (
                format!("S{}", hex(serde_json::to_string(r).unwrap().as_bytes())),
                hex(canon_text(&serde_json::to_value(r).unwrap()).as_bytes()),
            ),
            BodyVal::Unser => ("F".to_string(), "_".to_string()),
        }
    };
    let fields = if wrapped { decl_fields(d) } else { vec![] };
    let mut line = format!("tr {} {} {} {} {} {}", id, kind, if wrapped { "W" } else { "P" }, ser, canon_in, fields.len());
    for (n, v) in &fields {
        line.push_str(&format!(
            " {} {}",
            hex(n.as_bytes()),
            match v {
                Some(s) => format!("S{}", hex(s.as_bytes())),
                None => "X".to_string(),
            }
        ));
    }
    // the explicit map as the handler built it
    let mut explicit = HeaderMap::new();
    if wrapped {
        apply_ops(&mut explicit, ops);
    }
    let mut ex_pairs: Vec<(String, Vec<u8>)> = Vec::new();
    for (k, v) in explicit.iter() {
        ex_pairs.push((k.as_str().to_string(), v.as_bytes().to_vec()));
    }
    line.push_str(&format!(" {}", fmt_pairs(&ex_pairs)));
    let res = run_tr(kind, wrapped, body, d, ops);
    line.push_str(&format!(" => {}", fmt_result(res, json_kind)));
    *id += 1;
    out.line(&line);
}

fn gen_rec(rng: &mut Rng) -> Rec {
    Rec {
        s: gen_text(rng),
        n: *rng.pick(&[0u64, 1, u64::MAX, 1 << 53]),
        o: if rng.chance(1, 2) { None } else { Some(*rng.pick(&[i64::MIN, -1, 0, i64::MAX])) },
        v: (0..rng.below(3)).map(|_| gen_text(rng)).collect(),
        e: match rng.below(3) {
            0 => En::A,
            1 => En::B { x: -5 },
            _ => En::C(gen_text(rng)),
        },
        r: rng.chance(1, 2),
    }
}

fn gen_decl(rng: &mut Rng, shape: &'static str) -> Decl {
    let vals = (0..3).map(|_| if rng.chance(1, 6) { gen_hval(rng) } else { gen_good_hval(rng) }).collect();
    Decl { shape, vals }
}

fn tr_stream(out: &mut Out, id: &mut u64, rng: &mut Rng, thorough: bool) {
    // every kind x shape once with plain values, wrapped and plain
    for kind in KINDS {
        for shape in SHAPES {
            let d = Decl { shape, vals: vec!["v0".into(), "v1".into(), "v2".into()] };
            let body = BodyVal::Val(serde_json::json!({"a": [1, "é", null]}));
            tr_case(out, id, kind, true, &body, &d, &[]);
            tr_case(out, id, kind, true, &body, &d, &[Op::Append("X_One".into(), "e1".into()), Op::Append("x_one".into(), "e2".into())]);
        }
        tr_case(out, id, kind, false, &BodyVal::Val(Value::Null), &Decl { shape: "none", vals: vec![] }, &[]);
        tr_case(out, id, kind, false, &BodyVal::Unser, &Decl { shape: "none", vals: vec![] }, &[]);
        tr_case(out, id, kind, true, &BodyVal::Unser, &gen_decl(rng, "h1"), &[]);
    }
    let n = if thorough { 600_000 } else { 60_000 };
    for _ in 0..n {
        let kind = *rng.pick(KINDS);
        let wrapped = rng.chance(5, 6);
        let body = match rng.below(12) {
            0 => BodyVal::Unser,
            1..=3 => BodyVal::Rec(gen_rec(rng)),
            _ => BodyVal::Val(gen_value(rng, 3)),
        };
        // weight the shapes that succeed
        let shape = match rng.below(19) {
            17 | 18 => "hzst",
            14..=16 => "hskip",
            0 => "hnum",
            1 => "hopt",
            2 => "hbad",
            3 | 4 => "none",
            5 | 6 => "h1",
            7 | 8 => "h2",
            9 | 10 => "hcase",
            11 => "hct",
            _ => "horder",
        };
        let d = gen_decl(rng, shape);
        let ops = gen_ops(rng, false);
        tr_case(out, id, kind, wrapped, &body, &d, &ops);
    }
}

// ---------------------------------------------------------------- rd

fn rd_case(out: &mut Out, id: &mut u64, kind: &str, loc: &str, ops: &[Op]) {
    let mut explicit = HeaderMap::new();
    apply_ops(&mut explicit, ops);
    let mut ex_pairs: Vec<(String, Vec<u8>)> = Vec::new();
    for (k, v) in explicit.iter() {
        ex_pairs.push((k.as_str().to_string(), v.as_bytes().to_vec()));
    }
    let head = format!("rd {} {} {} {} =>", id, kind, hex(loc.as_bytes()), fmt_pairs(&ex_pairs));
    macro_rules! go {
        ($f:ident) => {
            match $f(loc.to_string()) {
                Err(e) => format!("ctor-err {} {}", e.status_code.as_u16(), hex(e.external_message.as_bytes())),
                Ok(mut r) => {
                    apply_ops(r.headers_mut(), ops);
                    fmt_result(r.to_result(), false)
                }
            }
        };
    }
    let res = match kind {
        "found" => go!(http_response_found),
        "seeother" => go!(http_response_see_other),
        _ => go!(http_response_temporary_redirect),
    };
    *id += 1;
    out.line(&format!("{} {}", head, res));
}

fn gen_location(rng: &mut Rng) -> String {
    const P: &[&str] = &[
        "/", "/a/b", "https://example.com/x?y=1&z=2#frag", "é", "漢字", "😀", " ", "\t", "%0a", "\n", "\r", "\u{0}", "\u{7f}",
        "\u{80}", "\u{85}", "\u{a0}", "\u{ff}", "\u{100}", "\u{2028}", "\u{1}", "\u{1f}", "\u{b}", "a", "~", "\"", "\\",
    ];
    let mut s = String::new();
    for _ in 0..rng.range(0, 6) {
        s.push_str(*rng.pick(P));
    }
    s
}

fn rd_stream(out: &mut Out, id: &mut u64, rng: &mut Rng, thorough: bool) {
    const RK: &[&str] = &["found", "seeother", "temporary"];
    // every byte 0..=127 and every char up to U+00FF, alone and inside a path
    for c in 0u32..=0x17f {
        let ch = char::from_u32(c).unwrap();
        for (i, loc) in [format!("{}", ch), format!("/a{}b", ch)].iter().enumerate() {
            rd_case(out, id, RK[(c as usize + i) % 3], loc, &[]);
        }
    }
    for k in RK {
        rd_case(out, id, k, "", &[]);
        rd_case(out, id, k, "/ok", &[Op::Insert("Location".into(), "/explicit".into())]);
        rd_case(out, id, k, "/ok", &[Op::Append("location".into(), "/e1".into()), Op::Append("LOCATION".into(), "/e2".into())]);
    }
    let n = if thorough { 300_000 } else { 30_000 };
    for _ in 0..n {
        let ops = if rng.chance(1, 4) { gen_ops(rng, false) } else { vec![] };
        rd_case(out, id, *rng.pick(RK), &gen_location(rng), &ops);
    }
}

// ---------------------------------------------------------------- lw

#[derive(Deserialize, JsonSchema)]
struct KindPath {
    kind: String,
}

#[derive(Deserialize, JsonSchema)]
struct LwQuery {
    /// JSON text of the value to return
    v: Option<String>,
    /// declared header value
    h: Option<String>,
    /// explicit header values for the same name (two values)
    e: Option<String>,
    loc: Option<String>,
}

type Wrapped<T> = HttpResponseHeaders<T, H1>;

fn lw_wrap<T: HttpCodedResponse>(body: T, q: &LwQuery) -> Wrapped<T> {
    let mut r = HttpResponseHeaders::new(body, H1 { x_one: q.h.clone().unwrap_or_default() });
    if let Some(e) = &q.e {
        r.headers_mut().append("X_One", HeaderValue::from_str(e).unwrap());
        r.headers_mut().append("x_one", HeaderValue::from_str("second").unwrap());
    }
    r
}

fn lw_value(q: &LwQuery) -> Value {
    serde_json::from_str(q.v.as_deref().unwrap_or("null")).unwrap()
}

#[endpoint { method = GET, path = "/v/ok" }]
async fn lw_ok(_r: RequestContext<()>, q: Query<LwQuery>) -> Result<Wrapped<HttpResponseOk<Value>>, HttpError> {
    let q = q.into_inner();
    Ok(lw_wrap(HttpResponseOk(lw_value(&q)), &q))
}
#[endpoint { method = GET, path = "/v/created" }]
async fn lw_created(_r: RequestContext<()>, q: Query<LwQuery>) -> Result<Wrapped<HttpResponseCreated<Value>>, HttpError> {
    let q = q.into_inner();
    Ok(lw_wrap(HttpResponseCreated(lw_value(&q)), &q))
}
#[endpoint { method = GET, path = "/v/accepted" }]
async fn lw_accepted(_r: RequestContext<()>, q: Query<LwQuery>) -> Result<Wrapped<HttpResponseAccepted<Value>>, HttpError> {
    let q = q.into_inner();
    Ok(lw_wrap(HttpResponseAccepted(lw_value(&q)), &q))
}
#[endpoint { method = GET, path = "/v/deleted" }]
async fn lw_deleted(_r: RequestContext<()>, q: Query<LwQuery>) -> Result<Wrapped<HttpResponseDeleted>, HttpError> {
    let q = q.into_inner();
    Ok(lw_wrap(HttpResponseDeleted(), &q))
}
#[endpoint { method = GET, path = "/v/updated" }]
async fn lw_updated(_r: RequestContext<()>, q: Query<LwQuery>) -> Result<Wrapped<HttpResponseUpdatedNoContent>, HttpError> {
    let q = q.into_inner();
    Ok(lw_wrap(HttpResponseUpdatedNoContent(), &q))
}
#[endpoint { method = GET, path = "/r/{kind}" }]
async fn lw_redirect(
    _r: RequestContext<()>,
    p: Path<KindPath>,
    q: Query<LwQuery>,
) -> Result<hyper::Response<dropshot::Body>, HttpError> {
    let loc = q.into_inner().loc.unwrap_or_default();
    match p.into_inner().kind.as_str() {
        "found" => http_response_found(loc)?.to_result(),
        "seeother" => http_response_see_other(loc)?.to_result(),
        _ => http_response_temporary_redirect(loc)?.to_result(),
    }
}

fn lw_stream(out: &mut Out, id: &mut u64, rng: &mut Rng, thorough: bool) {
    let rt = tokio::runtime::Builder::new_multi_thread().worker_threads(2).enable_all().build().unwrap();
    let server = rt.block_on(async {
        let mut api = ApiDescription::new();
        api.register(lw_ok).unwrap();
        api.register(lw_created).unwrap();
        api.register(lw_accepted).unwrap();
        api.register(lw_deleted).unwrap();
        api.register(lw_updated).unwrap();
        api.register(lw_redirect).unwrap();
        start_server(api, (), ServerOpts::default())
    });
    let addr = server.local_addr();
    let n = if thorough { 15_000 } else { 1_500 };
    for i in 0..n {
        let redirect = i % 3 == 2;
        let (line_in, target) = if redirect {
            let kind = *rng.pick(&["found", "seeother", "temporary"]);
            // no leading/trailing blanks: the wire reader trims header values (Unicode whitespace included)
            let loc = gen_location(rng).trim().to_string();
            (format!("r {} {}", kind, hex(loc.as_bytes())), format!("/r/{}?loc={}", kind, pct_encode(loc.as_bytes())))
        } else {
            let kind = *rng.pick(KINDS);
            let v = gen_value(rng, 2);
            let text = serde_json::to_string(&v).unwrap();
            // header values without leading/trailing blanks (the wire reader trims them)
            let h = gen_good_hval(rng).trim().to_string();
            let e = if rng.chance(1, 2) { Some(gen_good_hval(rng).trim().to_string()) } else { None };
            let mut t = format!("/v/{}?v={}&h={}", kind, pct_encode(text.as_bytes()), pct_encode(h.as_bytes()));
            if let Some(e) = &e {
                t.push_str(&format!("&e={}", pct_encode(e.as_bytes())));
            }
            (
                format!(
                    "v {} {} {} {} {}",
                    kind,
                    hex(text.as_bytes()),
                    hex(canon_text(&v).as_bytes()),
                    hex(h.as_bytes()),
                    match &e {
                        None => "_".to_string(),
                        Some(e) => hex(e.as_bytes()),
                    }
                ),
                t,
            )
        };
        // the protocol version of the request must not matter: every fifth request is made
        // with an HTTP/1.0 request line, every fifth over HTTP/2
        let proto = match i % 5 {
            1 => "lw0",
            3 => "lw2",
            _ => "lw",
        };
        let mut raw = build_request("GET", &target, &[("connection", "close")], b"");
        if proto == "lw0" {
            let text = String::from_utf8_lossy(&raw).replacen(" HTTP/1.1\r\n", " HTTP/1.0\r\n", 1);
            raw = text.into_bytes();
        }
        let mut resp = None;
        for _ in 0..3 {
            let got = if proto == "lw2" { h2_roundtrip(addr, "GET", &target, &[], b"", true) } else { roundtrip(addr, &raw, false) };
            if let Some(r) = got {
                if r.well_formed {
                    resp = Some(r);
                    break;
                }
            }
            std::thread::sleep(std::time::Duration::from_millis(50));
        }
        *id += 1;
        match resp {
            None => out.line(&format!("{} {} {} => noresponse", proto, id, line_in)),
            Some(r) => {
                let all = |n: &str| {
                    let v: Vec<String> = r.header_all(n).iter().map(|s| hex(s.as_bytes())).collect();
                    if v.is_empty() {
                        "none".to_string()
                    } else {
                        v.join(",")
                    }
                };
                let parsed = if r.body.is_empty() {
                    "_".to_string()
                } else {
                    match serde_json::from_slice::<Value>(&r.body) {
                        Ok(v) => hex(canon_text(&v).as_bytes()),
                        Err(_) => "bad".to_string(),
                    }
                };
                out.line(&format!(
                    "{} {} {} => {} {} {} {} {} {}",
                    proto,
                    id,
                    line_in,
                    r.status,
                    all("content-type"),
                    all("x_one"),
                    all("location"),
                    hex(&r.body),
                    parsed
                ));
            }
        }
    }
    rt.block_on(async {
        let _ = server.close().await;
    });
}

fn main() {
    quiet_panics();
    let mut out = Out::new();
    let mut rng = Rng::from_env(12);
    let thorough = is_thorough();
    let mut id: u64 = 0;
    hv_stream(&mut out, &mut id, &mut rng);
    hm_stream(&mut out, &mut id, &mut rng, thorough);
    tr_stream(&mut out, &mut id, &mut rng, thorough);
    rd_stream(&mut out, &mut id, &mut rng, thorough);
    lw_stream(&mut out, &mut id, &mut rng, thorough);
    out.flush();
}
