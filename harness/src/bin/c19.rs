//! C19 correspondence harness: an endpoint is registered, served and documented
//! exactly as declared.
//!
//! (a) function level, on the REAL macro sources: `dropshot_endpoint` is a
//!     proc-macro crate and cannot export functions, so its source files are
//!     compiled into this binary as ordinary modules (`#[path]`, they refer to
//!     each other as `crate::doc`, `crate::util`, … which is why they sit at the
//!     root of this bin crate).  Streams:
//!       dc  ExtractedDoc::from_attrs on generated doc-comment shapes
//!       vr  <VersionRange as syn::parse::Parse>::parse
//!       md  from_tokenstream::<EndpointMetadata|ChannelMetadata> + validate +
//!           to_api_endpoint_fn (Regular and Stub kinds)
//!       ex  whole expansions: do_endpoint / do_channel / do_trait on the same
//!           declaration; the emitted ApiEndpoint constructor + builder chain of
//!           the function form, of api_description::<ServerImpl>() and of
//!           stub_api_description()
//!       bl  the real ApiEndpoint::new_for_types + builder methods on random chains
//! (b) programs (`c19_programs.rs`): one fixed family of endpoints and channels
//!     declared twice, as free functions and as an API trait (impl + stub);
//!     streams pe (registered records), pd (document entries per version),
//!     pl (lookup_route metadata per version), pj (whole documents equal).
//!
//! One case per line: `<stream> <id> <input…> => <implementation output…>`.
#![allow(dead_code, unused_imports, unused_variables, clippy::all)]

// `#[path = "<checkout>/dropshot_endpoint/src/<m>.rs"] mod <m>;` for the nine modules,
// written by build.rs (checkout = /repo, or VERIF_REPO when a seeded change is tried)
include!(concat!(env!("OUT_DIR"), "/macrosrc.rs"));

#[path = "../c19_programs.rs"]
mod programs;

use dsharness::util::{catch, hex, is_thorough, quiet_panics, Out, Rng};
use proc_macro2::TokenStream;
use quote::ToTokens;
use std::str::FromStr;
use syn::visit::Visit;

// ---------------------------------------------------------------------------
// Declarations (the model's `Decl`) and their line encoding
// ---------------------------------------------------------------------------

#[derive(Clone, Debug)]
pub enum VSpec {
    Lit(String),
    Ident(String),
}

#[derive(Clone, Debug)]
pub enum VSyn {
    All,
    Until(VSpec),
    From(VSpec),
    FromUntil(VSpec, VSpec),
}

#[derive(Clone, Debug)]
pub struct Decl {
    pub channel: bool,
    pub method: Option<String>,
    pub protocol: Option<String>,
    pub path: Option<String>,
    pub versions: Option<VSyn>,
    pub tags: Vec<String>,
    pub operation_id: Option<String>,
    pub content_type: Option<String>,
    pub max_bytes: Option<u64>,
    pub deprecated: bool,
    pub unpublished: bool,
    pub dropshot_crate: Option<String>,
    pub name: String,
    pub doc: Vec<String>,
}

pub fn hs(s: &str) -> String {
    hex(s.as_bytes())
}

pub fn opt_hs(s: &Option<String>) -> String {
    match s {
        None => "~".to_string(),
        Some(s) => hs(s),
    }
}

pub fn list_hs(tag: char, xs: &[String]) -> String {
    let mut s = format!("{}{}", tag, xs.len());
    for x in xs {
        s.push(',');
        s.push_str(&hs(x));
    }
    s
}

fn enc_vspec(v: &VSpec) -> String {
    match v {
        VSpec::Lit(s) => format!("L{}", hs(s)),
        VSpec::Ident(s) => format!("I{}", hs(s)),
    }
}

pub fn enc_vsyn(v: &Option<VSyn>) -> String {
    match v {
        None => "~".into(),
        Some(VSyn::All) => "A".into(),
        Some(VSyn::Until(b)) => format!("U:{}", enc_vspec(b)),
        Some(VSyn::From(a)) => format!("F:{}", enc_vspec(a)),
        Some(VSyn::FromUntil(a, b)) => format!("FU:{}:{}", enc_vspec(a), enc_vspec(b)),
    }
}

impl Decl {
    pub fn enc(&self) -> String {
        format!(
            "{} {} {} {} {} {} {} {} {} {} {} {} {} {}",
            if self.channel { "C" } else { "E" },
            opt_hs(&self.method),
            opt_hs(&self.protocol),
            opt_hs(&self.path),
            enc_vsyn(&self.versions),
            list_hs('T', &self.tags),
            opt_hs(&self.operation_id),
            opt_hs(&self.content_type),
            match self.max_bytes {
                None => "~".to_string(),
                Some(n) => n.to_string(),
            },
            self.deprecated as u8,
            self.unpublished as u8,
            opt_hs(&self.dropshot_crate),
            hs(&self.name),
            list_hs('D', &self.doc),
        )
    }
}

fn lit(s: &str) -> String {
    // A Rust string literal denoting `s` (Debug escapes are valid Rust escapes).
    format!("{:?}", s)
}

fn vspec_src(v: &VSpec) -> String {
    match v {
        VSpec::Lit(s) => lit(s),
        VSpec::Ident(p) => p.clone(),
    }
}

fn vsyn_src(v: &VSyn) -> String {
    match v {
        VSyn::All => "..".into(),
        VSyn::Until(b) => format!("..{}", vspec_src(b)),
        VSyn::From(a) => format!("{}..", vspec_src(a)),
        VSyn::FromUntil(a, b) => format!("{}..{}", vspec_src(a), vspec_src(b)),
    }
}

/// The attribute arguments as source text, keys in a seed-chosen order.
fn attr_src(d: &Decl, rng: &mut Rng, explicit_false: bool) -> String {
    let mut parts: Vec<String> = vec![];
    if let Some(m) = &d.method {
        parts.push(format!("method = {}", m));
    }
    if let Some(p) = &d.protocol {
        parts.push(format!("protocol = {}", p));
    }
    if let Some(p) = &d.path {
        parts.push(format!("path = {}", lit(p)));
    }
    if let Some(v) = &d.versions {
        parts.push(format!("versions = {}", vsyn_src(v)));
    }
    if !d.tags.is_empty() || rng.chance(1, 8) {
        let ts: Vec<String> = d.tags.iter().map(|t| lit(t)).collect();
        parts.push(format!("tags = [{}]", ts.join(", ")));
    }
    if let Some(o) = &d.operation_id {
        parts.push(format!("operation_id = {}", lit(o)));
    }
    if let Some(c) = &d.content_type {
        parts.push(format!("content_type = {}", lit(c)));
    }
    if let Some(n) = d.max_bytes {
        let s = match rng.below(3) {
            0 => format!("{}", n),
            1 => format!("{}usize", n),
            _ => format!("{}_u64 as usize", n),
        };
        // keep to forms whose value is read back from a single integer literal
        let s = if s.contains(" as ") { format!("{}", n) } else { s };
        parts.push(format!("request_body_max_bytes = {}", s));
    }
    if d.deprecated {
        parts.push("deprecated = true".into());
    } else if explicit_false && rng.chance(1, 2) {
        parts.push("deprecated = false".into());
    }
    if d.unpublished {
        parts.push("unpublished = true".into());
    } else if explicit_false && rng.chance(1, 2) {
        parts.push("unpublished = false".into());
    }
    if let Some(c) = &d.dropshot_crate {
        parts.push(format!("_dropshot_crate = {}", lit(c)));
    }
    // shuffle
    for i in (1..parts.len()).rev() {
        let j = rng.below(i as u64 + 1) as usize;
        parts.swap(i, j);
    }
    let mut s = parts.join(", ");
    if rng.chance(1, 4) && !s.is_empty() {
        s.push(',');
    }
    s
}

// ---------------------------------------------------------------------------
// Generators
// ---------------------------------------------------------------------------

const WORDS: &[&str] = &[
    "Summary", "text", "more-", "-", "--", "*", "**bold**", "*", "x", "na\u{ef}ve", "\u{65e5}\u{672c}\u{8a9e}",
    "a\u{a0}b", "end.", "semi-", "\u{200b}", "\u{feff}z", "it's", "\"q\"", "{x}", "`code`", "a*b", "*/x",
    "tab\tin", "\u{1f980}", "#", "\\n", "line", "of", "the", "doc",
];
const WS: &[&str] = &["", "", " ", "  ", "\t", " \t", "\u{a0}", "\u{2003}", "\u{3000}", "\u{85}", "\u{1680}", "\u{2028}"];

fn gen_text(rng: &mut Rng, ascii_ws: bool) -> String {
    let n = match rng.below(10) {
        0 | 1 => 0,
        2..=4 => 1,
        5..=7 => 2,
        _ => rng.range(3, 5),
    };
    let mut s = String::new();
    let ws = |rng: &mut Rng| -> &'static str {
        if ascii_ws {
            *rng.pick(&WS[..6])
        } else {
            *rng.pick(WS)
        }
    };
    s.push_str(ws(rng));
    for i in 0..n {
        if i > 0 {
            s.push(' ');
            s.push_str(ws(rng));
        }
        s.push_str(*rng.pick(WORDS));
    }
    s.push_str(ws(rng));
    s
}

/// Doc attribute values built directly (any character allowed).
fn gen_doc_values(rng: &mut Rng) -> Vec<String> {
    let n = match rng.below(12) {
        0 => 0,
        1 | 2 => 1,
        3 | 4 => 2,
        _ => rng.range(3, 7),
    };
    let mut out = vec![];
    for _ in 0..n {
        if rng.chance(1, 4) {
            // a block comment: several lines in one value
            let k = rng.range(1, 5);
            let mut v = String::new();
            for i in 0..k {
                if i > 0 {
                    v.push_str(if rng.chance(1, 10) { "\r\n" } else { "\n" });
                    v.push_str(*rng.pick(&[" ", "", "   ", "\t"]));
                    v.push_str(*rng.pick(&["* ", "*", "", "* ", "** ", "*  ", " "]));
                }
                v.push_str(&gen_text(rng, false));
            }
            if rng.chance(1, 2) {
                v.push_str("\n ");
            }
            out.push(v);
        } else {
            let mut v = String::from(if rng.chance(4, 5) { " " } else { "" });
            v.push_str(&gen_text(rng, false));
            out.push(v);
        }
    }
    out
}

/// Doc comments as SOURCE TEXT (`///`, `/** */`), to be lexed by proc_macro2/syn.
fn gen_doc_source(rng: &mut Rng) -> String {
    let n = match rng.below(10) {
        0 => 0,
        1 | 2 => 1,
        _ => rng.range(2, 7),
    };
    let mut src = String::new();
    for _ in 0..n {
        match rng.below(8) {
            0 | 1 => {
                // block comment
                let k = rng.range(1, 5);
                src.push_str("/**");
                src.push_str(if rng.chance(1, 2) { "\n" } else { " " });
                for i in 0..k {
                    if i > 0 {
                        src.push('\n');
                        src.push_str(*rng.pick(&[" * ", " *", " ", "", "   * ", " ** "]));
                    }
                    let t = gen_text(rng, false).replace("*/", "* /").replace("/*", "/ *");
                    src.push_str(&t);
                }
                src.push_str(if rng.chance(1, 2) { "\n */\n" } else { " */\n" });
            }
            2 => {
                src.push_str("#[inline]\n");
            }
            3 => {
                src.push_str("#[doc(hidden)]\n");
            }
            _ => {
                let t = gen_text(rng, false).replace('\n', " ");
                if t.starts_with('/') || t.starts_with('!') {
                    src.push_str("/// ");
                } else {
                    src.push_str("///");
                }
                src.push_str(&t);
                src.push('\n');
            }
        }
    }
    src
}

/// The string values of the `#[doc = "…"]` attributes, read off the parsed
/// attributes (the harness's record of the input; no normalisation).
fn doc_values(attrs: &[syn::Attribute]) -> Vec<String> {
    let mut out = vec![];
    for a in attrs {
        if let syn::Meta::NameValue(nv) = &a.meta {
            if nv.path.is_ident("doc") {
                if let syn::Expr::Lit(syn::ExprLit { lit: syn::Lit::Str(s), .. }) = &nv.value {
                    out.push(s.value());
                }
            }
        }
    }
    out
}

/// Attributes for given doc values, with non-doc attributes in between.
fn attrs_of_values(rng: &mut Rng, vals: &[String]) -> Vec<syn::Attribute> {
    let mut out: Vec<syn::Attribute> = vec![];
    for v in vals {
        if rng.chance(1, 6) {
            out.push(match rng.below(4) {
                0 => syn::parse_quote!(#[doc(hidden)]),
                1 => syn::parse_quote!(#[allow(unused)]),
                2 => syn::parse_quote!(#[doc = 3]),
                _ => syn::parse_quote!(#[docs = "not a doc attribute"]),
            });
        }
        out.push(syn::parse_quote!(#[doc = #v]));
    }
    out
}

const GOOD_VERS: &[&str] = &["1.0.0", "2.0.0", "1.2.3", "0.0.0", "0.0.1", "10.20.30", "2.0.0", "3.1.4"];
const BAD_VERS: &[&str] =
    &["1.0", "1.0.0-alpha", "1.0.0+b", "1.0.0-rc.1+b", "01.0.0", "", "v1", "1.0.0 ", "1.0.0-0", "18446744073709551616.0.0"];
const VER_IDENTS: &[&str] = &["V1", "crate::V2", "versions::V3_0", "VERSION_NEXT"];

fn gen_vspec(rng: &mut Rng, bad: bool) -> VSpec {
    if bad {
        VSpec::Lit(rng.pick(BAD_VERS).to_string())
    } else if rng.chance(1, 5) {
        VSpec::Ident(rng.pick(VER_IDENTS).to_string())
    } else if rng.chance(1, 12) {
        VSpec::Lit("18446744073709551615.0.1".to_string())
    } else {
        VSpec::Lit(rng.pick(GOOD_VERS).to_string())
    }
}

/// `inject_bad`: make the syntax unparsable (bad literal or reversed pair).
fn gen_vsyn(rng: &mut Rng, inject_bad: bool) -> VSyn {
    let bad_pos = if inject_bad { rng.below(3) } else { 9 };
    match rng.below(5) {
        0 if !inject_bad => VSyn::All,
        1 => VSyn::Until(gen_vspec(rng, inject_bad)),
        2 => VSyn::From(gen_vspec(rng, inject_bad)),
        _ => {
            if bad_pos == 2 {
                // reversed literal pair
                let a = rng.below(GOOD_VERS.len() as u64) as usize;
                let b = rng.below(GOOD_VERS.len() as u64) as usize;
                let (va, vb) =
                    (semver::Version::parse(GOOD_VERS[a]).unwrap(), semver::Version::parse(GOOD_VERS[b]).unwrap());
                let (x, y) = if va > vb { (a, b) } else { (b, a) };
                if GOOD_VERS[x] == GOOD_VERS[y] {
                    VSyn::FromUntil(VSpec::Lit("2.0.0".into()), VSpec::Lit("1.9.9".into()))
                } else {
                    VSyn::FromUntil(VSpec::Lit(GOOD_VERS[x].into()), VSpec::Lit(GOOD_VERS[y].into()))
                }
            } else {
                let (a, b) = (gen_vspec(rng, bad_pos == 0), gen_vspec(rng, bad_pos == 1));
                // without an injected defect, keep literal pairs in order
                if let (false, VSpec::Lit(x), VSpec::Lit(y)) = (inject_bad, &a, &b) {
                    if semver::Version::parse(x).unwrap() > semver::Version::parse(y).unwrap() {
                        return VSyn::FromUntil(b, a);
                    }
                }
                VSyn::FromUntil(a, b)
            }
        }
    }
}

const PATHS: &[&str] = &[
    "/", "/a", "/a/b", "/a/{x}", "/{x}/{y}", "/a/", "/x/{rest:.*}", "/{p:.*}", "/a/{x:.*}/b", "no-slash", "",
    "/\u{fc}/{x}", "/a:.*}", "/a/{x}/b/{y}/c", "//", "/{x:.*", "/with space",
];
const TAGS: &[&str] = &["a", "b", "system", "", "t\u{e9}", "a", "two words", "\"q\""];
const OPIDS: &[&str] = &["op1", "", "weird id", "\u{fc}ber", "get_thing", "x-y"];
const NAMES: &[&str] = &["h", "get_thing", "handler_xyz", "a1", "__x", "put_it"];
const GOOD_CT: &[&str] = &["application/json", "application/x-www-form-urlencoded", "multipart/form-data"];
const BAD_CT: &[&str] =
    &["application/octet-stream", "text/plain", "", "Application/JSON", "application/json; charset=utf-8", " application/json"];
const METHODS: &[&str] = &["DELETE", "GET", "HEAD", "PATCH", "POST", "PUT", "OPTIONS"];
const BAD_METHODS: &[&str] = &["TRACE", "CONNECT", "get", "Get", "WEBSOCKETS", "ANY"];
const MAXES: &[u64] = &[0, 1, 1024, 4096, 65536, 18446744073709551615];

/// A declaration; at most one of the order-dependent deserialisation defects
/// (extraneous key, unknown variant, unparsable versions) is injected.
fn gen_decl(rng: &mut Rng, valid_only: bool) -> Decl {
    let channel = rng.chance(1, 4);
    let defect = if valid_only { 99 } else { rng.below(14) }; // 0 ext, 1 var, 2 versions, else none
    let mut d = Decl {
        channel,
        method: None,
        protocol: None,
        path: None,
        versions: None,
        tags: vec![],
        operation_id: None,
        content_type: None,
        max_bytes: None,
        deprecated: rng.chance(1, 3),
        unpublished: rng.chance(1, 3),
        dropshot_crate: None,
        name: rng.pick(NAMES).to_string(),
        doc: vec![],
    };
    let miss = !valid_only && rng.chance(1, 25);
    if channel {
        d.protocol = if miss && rng.chance(1, 2) {
            None
        } else if defect == 1 {
            Some(rng.pick(&["websockets", "HTTP", "WS"]).to_string())
        } else {
            Some("WEBSOCKETS".into())
        };
        if defect == 0 {
            match rng.below(3) {
                0 => d.method = Some("GET".into()),
                1 => d.content_type = Some("application/json".into()),
                _ => d.max_bytes = Some(1024),
            }
        }
    } else {
        d.method = if miss && rng.chance(1, 2) {
            None
        } else if defect == 1 {
            Some(rng.pick(BAD_METHODS).to_string())
        } else {
            Some(rng.pick(METHODS).to_string())
        };
        if defect == 0 {
            d.protocol = Some("WEBSOCKETS".into());
        }
        if rng.chance(1, 2) {
            d.content_type = Some(if !valid_only && rng.chance(1, 6) {
                rng.pick(BAD_CT).to_string()
            } else {
                rng.pick(GOOD_CT).to_string()
            });
        }
        if rng.chance(3, 10) {
            d.max_bytes = Some(*rng.pick(MAXES));
        }
    }
    d.path = if miss && d.method.is_some() | d.protocol.is_some() && rng.chance(2, 3) {
        None
    } else if valid_only {
        // accepted by the macro: wildcards only where allowed
        loop {
            let p = *rng.pick(PATHS);
            let wild = p.contains(":.*}");
            if wild && channel {
                continue;
            }
            if wild {
                d.unpublished = true;
            }
            break Some(p.to_string());
        }
    } else {
        let p = *rng.pick(PATHS);
        if p.contains(":.*}") && rng.chance(2, 3) {
            d.unpublished = true;
        }
        Some(p.to_string())
    };
    if rng.chance(13, 20) || defect == 2 {
        d.versions = Some(gen_vsyn(rng, defect == 2));
        // `"a"..crate::B` is itself refused (observation F1): it counts as the one
        // order-dependent defect of a case
        if let Some(VSyn::FromUntil(_, VSpec::Ident(p))) = &d.versions {
            if p.starts_with("crate") && defect < 2 {
                d.versions = None;
            }
        }
    }
    let nt = match rng.below(6) {
        0..=2 => 0,
        3 => 1,
        4 => 2,
        _ => 3,
    };
    for _ in 0..nt {
        d.tags.push(rng.pick(TAGS).to_string());
    }
    if rng.chance(2, 5) {
        d.operation_id = Some(rng.pick(OPIDS).to_string());
    }
    if !valid_only && rng.chance(1, 10) {
        d.dropshot_crate = Some("dropshot".into());
    }
    d.doc = gen_doc_values(rng);
    d
}

// ---------------------------------------------------------------------------
// Reading the emitted ApiEndpoint expression
// ---------------------------------------------------------------------------

fn ts_compact(t: &dyn ToTokens) -> String {
    t.to_token_stream().to_string().replace(' ', "")
}

fn path_ends(p: &syn::Path, names: &[&str]) -> bool {
    let segs: Vec<String> = p.segments.iter().map(|s| s.ident.to_string()).collect();
    segs.len() >= names.len() && segs[segs.len() - names.len()..].iter().zip(names).all(|(a, b)| a == b)
}

fn str_of(e: &syn::Expr) -> Option<String> {
    match e {
        syn::Expr::Lit(syn::ExprLit { lit: syn::Lit::Str(s), .. }) => Some(s.value()),
        syn::Expr::MethodCall(m) if m.method == "to_string" => str_of(&m.receiver),
        syn::Expr::Group(g) => str_of(&g.expr),
        syn::Expr::Paren(g) => str_of(&g.expr),
        _ => None,
    }
}

fn ungroup(e: &syn::Expr) -> &syn::Expr {
    match e {
        syn::Expr::Group(g) => ungroup(&g.expr),
        other => other,
    }
}

fn vexpr(e: &syn::Expr) -> String {
    let e = ungroup(e);
    if let syn::Expr::Call(c) = e {
        if let syn::Expr::Path(p) = &*c.func {
            if path_ends(&p.path, &["Version", "new"]) && c.args.len() == 3 {
                let n: Vec<String> = c
                    .args
                    .iter()
                    .map(|a| match ungroup(a) {
                        syn::Expr::Lit(syn::ExprLit { lit: syn::Lit::Int(i), .. }) => i.base10_digits().to_string(),
                        o => format!("?{}", ts_compact(o)),
                    })
                    .collect();
                return format!("L{}", n.join("."));
            }
        }
    }
    format!("I{}", hs(&ts_compact(e)))
}

fn versions_of(e: &syn::Expr) -> String {
    let e = ungroup(e);
    match e {
        syn::Expr::Path(p) if path_ends(&p.path, &["ApiEndpointVersions", "All"]) => "A".into(),
        syn::Expr::Call(c) => {
            if let syn::Expr::Path(p) = &*c.func {
                let args: Vec<&syn::Expr> = c.args.iter().collect();
                if path_ends(&p.path, &["ApiEndpointVersions", "From"]) && args.len() == 1 {
                    return format!("F:{}", vexpr(args[0]));
                }
                if path_ends(&p.path, &["ApiEndpointVersions", "Until"]) && args.len() == 1 {
                    return format!("U:{}", vexpr(args[0]));
                }
            }
            format!("?{}", hs(&ts_compact(e)))
        }
        syn::Expr::MethodCall(m) if m.method == "unwrap" => {
            if let syn::Expr::Call(c) = ungroup(&m.receiver) {
                if let syn::Expr::Path(p) = &*c.func {
                    let args: Vec<&syn::Expr> = c.args.iter().collect();
                    if path_ends(&p.path, &["ApiEndpointVersions", "from_until"]) && args.len() == 2 {
                        return format!("FU:{}:{}", vexpr(args[0]), vexpr(args[1]));
                    }
                }
            }
            format!("?{}", hs(&ts_compact(e)))
        }
        _ => format!("?{}", hs(&ts_compact(e))),
    }
}

/// `new;opid;handler;METHOD;ct;path;versions;tys;calls`
fn parse_chain(e: &syn::Expr) -> Option<String> {
    let mut calls: Vec<String> = vec![];
    let mut cur = ungroup(e);
    loop {
        match cur {
            syn::Expr::MethodCall(m) => {
                let args: Vec<&syn::Expr> = m.args.iter().collect();
                let name = m.method.to_string();
                let item = match (name.as_str(), args.as_slice()) {
                    ("summary", [a]) => format!("s:{}", hs(&str_of(a)?)),
                    ("description", [a]) => format!("d:{}", hs(&str_of(a)?)),
                    ("tag", [a]) => format!("t:{}", hs(&str_of(a)?)),
                    ("visible", [a]) => format!("v:{}", if ts_compact(*a) == "true" { 1 } else { 0 }),
                    ("deprecated", [a]) => format!("p:{}", if ts_compact(*a) == "true" { 1 } else { 0 }),
                    ("request_body_max_bytes", [a]) => match ungroup(a) {
                        syn::Expr::Lit(syn::ExprLit { lit: syn::Lit::Int(i), .. }) => {
                            format!("m:{}", i.base10_digits())
                        }
                        o => format!("m:?{}", hs(&ts_compact(o))),
                    },
                    _ => return None,
                };
                calls.push(item);
                cur = ungroup(&m.receiver);
            }
            syn::Expr::Call(c) => {
                let syn::Expr::Path(p) = &*c.func else { return None };
                let args: Vec<&syn::Expr> = c.args.iter().collect();
                let is_new = path_ends(&p.path, &["ApiEndpoint", "new"]);
                let is_nft = path_ends(&p.path, &["ApiEndpoint", "new_for_types"]);
                if !(is_new && args.len() == 6 || is_nft && args.len() == 5) {
                    return None;
                }
                let (opid, handler, rest) = if is_new {
                    (args[0], format!("h:{}", hs(&ts_compact(args[1]))), &args[2..])
                } else {
                    (args[0], "-".to_string(), &args[1..])
                };
                let method = match ungroup(rest[0]) {
                    syn::Expr::Path(mp) => mp.path.segments.last()?.ident.to_string(),
                    _ => return None,
                };
                let tys = if is_nft {
                    match &p.path.segments.last()?.arguments {
                        syn::PathArguments::AngleBracketed(a) => hs(&ts_compact(&a.args)),
                        _ => "-".into(),
                    }
                } else {
                    "~".into()
                };
                calls.reverse();
                let mut cs = format!("K{}", calls.len());
                for c in &calls {
                    cs.push(',');
                    cs.push_str(c);
                }
                return Some(format!(
                    "{};{};{};{};{};{};{};{};{}",
                    if is_new { "new" } else { "nft" },
                    hs(&str_of(opid)?),
                    handler,
                    method,
                    hs(&str_of(rest[1])?),
                    hs(&str_of(rest[2])?),
                    versions_of(rest[3]),
                    tys,
                    cs
                ));
            }
            _ => return None,
        }
    }
}

struct ChainFinder {
    found: Vec<String>,
}

impl<'ast> Visit<'ast> for ChainFinder {
    fn visit_expr(&mut self, e: &'ast syn::Expr) {
        if let Some(c) = parse_chain(e) {
            self.found.push(c);
        } else {
            syn::visit::visit_expr(self, e);
        }
    }
}

fn chains_in_block(b: &syn::Block) -> Vec<String> {
    let mut f = ChainFinder { found: vec![] };
    f.visit_block(b);
    f.found
}

fn chains_in_file(f: &syn::File) -> Vec<String> {
    let mut v = ChainFinder { found: vec![] };
    v.visit_file(f);
    v.found
}

/// Error messages → small enum.
fn err_enum(msg: &str) -> &'static str {
    if msg.contains("extraneous member") {
        "ext"
    } else if msg.contains("unknown variant") {
        "var"
    } else if msg.contains("missing field") {
        "mis"
    } else if msg.contains("expected semver") {
        "sem"
    } else if msg.contains("pre-release string is not supported") {
        "pre"
    } else if msg.contains("build metadata is not supported") {
        "bld"
    } else if msg.contains("must be earlier than") {
        "rev"
    } else if msg.contains("unexpected token") {
        "tok"
    } else if msg.contains("must not specify `_dropshot_crate`") {
        "crt"
    } else if msg.contains("is not marked 'unpublished = true'") {
        "wld"
    } else if msg.contains("has a wildcard path, which is not allowed") {
        "cwl"
    } else if msg.contains("invalid content type") {
        "bct"
    } else {
        "other"
    }
}

fn errs_enc(errs: &[syn::Error]) -> String {
    let v: Vec<&str> = errs.iter().map(|e| err_enum(&e.to_string())).collect();
    format!("err:{}", v.join(","))
}

// ---------------------------------------------------------------------------
// Streams
// ---------------------------------------------------------------------------

fn dc_case(out: &mut Out, id: &mut u64, origin: &str, attrs: &[syn::Attribute], vals: &[String]) {
    let d = doc::ExtractedDoc::from_attrs(attrs);
    *id += 1;
    out.line(&format!(
        "dc {} {} {} => {} {}",
        id,
        origin,
        list_hs('D', vals),
        opt_hs(&d.summary),
        opt_hs(&d.description)
    ));
}

fn vrange_enc(v: &metadata::VersionRange) -> String {
    use metadata::{VersionRange as R, VersionSpecifier as S};
    let s = |x: &S| match x {
        S::Literal(v) => format!("L{}", v),
        S::Identifier(p) => format!("I{}", hs(&ts_compact(p))),
    };
    match v {
        R::All => "A".into(),
        R::From(a) => format!("F:{}", s(a)),
        R::Until(b) => format!("U:{}", s(b)),
        R::FromUntil(a, b) => format!("FU:{}:{}", s(a), s(b)),
    }
}

fn vr_case(out: &mut Out, id: &mut u64, v: &VSyn) {
    let ts = TokenStream::from_str(&vsyn_src(v)).unwrap();
    let res = match syn::parse2::<metadata::VersionRange>(ts) {
        Ok(r) => format!("ok {}", vrange_enc(&r)),
        Err(e) => format!("err {}", err_enum(&e.to_string())),
    };
    *id += 1;
    out.line(&format!("vr {} {} => {}", id, enc_vsyn(&Some(v.clone())), res));
}

fn doc_attrs_tokens(vals: &[String]) -> TokenStream {
    let mut ts = TokenStream::new();
    for v in vals {
        ts.extend(quote::quote! { #[doc = #v] });
    }
    ts
}

fn md_case(out: &mut Out, id: &mut u64, rng: &mut Rng, d: &Decl, trait_kind: bool) {
    let src = attr_src(d, rng, true);
    let Ok(tokens) = TokenStream::from_str(&src) else {
        return;
    };
    let kind = if trait_kind { util::MacroKind::Trait } else { util::MacroKind::Function };
    let mut store = error_store::ErrorStore::<syn::Error>::new();
    let dropshot = quote::quote! { dropshot };
    let name_ident = syn::Ident::new(&d.name, proc_macro2::Span::call_site());
    let attrs: Vec<syn::Attribute> = {
        let ts = doc_attrs_tokens(&d.doc);
        let f: syn::ItemFn = syn::parse2(quote::quote! { #ts fn f() {} }).unwrap();
        f.attrs
    };
    let xdoc = doc::ExtractedDoc::from_attrs(&attrs);
    let stub_attr: syn::Attribute = syn::parse_quote!(#[endpoint { }]);
    let ret_ty: syn::Type = syn::parse_quote!(Result<HttpResponseOk<()>, HttpError>);
    let ext_ty: syn::Type = syn::parse_quote!(Query<Q>);
    let result: Option<(TokenStream, TokenStream)> = {
        let sink = store.sink();
        let regular = metadata::ApiEndpointKind::Regular(&name_ident);
        let stub = metadata::ApiEndpointKind::Stub { attr: &stub_attr, extractor_types: vec![&ext_ty], ret_ty: &ret_ty };
        if d.channel {
            match serde_tokenstream::from_tokenstream::<metadata::ChannelMetadata>(&tokens) {
                Err(e) => {
                    sink.push(e);
                    None
                }
                Ok(m) => m.validate(&d.name, &tokens, kind, &sink).map(|v| {
                    (
                        v.to_api_endpoint_fn(&dropshot, &d.name, &regular, &xdoc),
                        v.to_api_endpoint_fn(&dropshot, &d.name, &stub, &xdoc),
                    )
                }),
            }
        } else {
            match serde_tokenstream::from_tokenstream::<metadata::EndpointMetadata>(&tokens) {
                Err(e) => {
                    sink.push(e);
                    None
                }
                Ok(m) => m.validate(&d.name, &tokens, kind, &sink).map(|v| {
                    (
                        v.to_api_endpoint_fn(&dropshot, &d.name, &regular, &xdoc),
                        v.to_api_endpoint_fn(&dropshot, &d.name, &stub, &xdoc),
                    )
                }),
            }
        }
    };
    let errs = store.into_inner();
    let res = match result {
        Some((r, s)) if errs.is_empty() => {
            let pr = syn::parse2::<syn::Expr>(r).ok().and_then(|e| parse_chain(&e)).unwrap_or("unreadable".into());
            let ps = syn::parse2::<syn::Expr>(s).ok().and_then(|e| parse_chain(&e)).unwrap_or("unreadable".into());
            format!("ok {} {}", pr, ps)
        }
        _ => errs_enc(&errs),
    };
    *id += 1;
    out.line(&format!("md {} {} {} => {}", id, if trait_kind { "T" } else { "F" }, d.enc(), res));
}

/// Signature shapes (token level only; `CTX` is replaced by the context type).
const ENDPOINT_SIGS: &[(&str, &str, &str)] = &[
    ("rqctx: RequestContext<CTX>", "", "Result<HttpResponseOk<()>, HttpError>"),
    ("rqctx: RequestContext<CTX>, q: Query<Q>", "Query<Q>,", "Result<HttpResponseOk<Vec<u8>>, HttpError>"),
    (
        "_: RequestContext<CTX>, p: Path<P>, q: Query<Q>, b: TypedBody<B>",
        "Path<P>,Query<Q>,TypedBody<B>,",
        "Result<HttpResponseCreated<B>, HttpError>",
    ),
    ("rqctx: RequestContext<CTX>, b: UntypedBody", "UntypedBody,", "Result<HttpResponseUpdatedNoContent, HttpError>"),
    ("rqctx: RequestContext<CTX>, b: StreamingBody", "StreamingBody,", "Result<Response<Body>, HttpError>"),
    (
        "rqctx: dropshot::RequestContext<CTX>, r: dropshot::RawRequest",
        "dropshot::RawRequest,",
        "std::result::Result<HttpResponseAccepted<()>, MyError>",
    ),
];
const CHANNEL_SIGS: &[(&str, &str)] = &[
    ("rqctx: RequestContext<CTX>, conn: WebsocketConnection", ""),
    ("rqctx: RequestContext<CTX>, q: Query<Q>, conn: WebsocketConnection", "Query<Q>,"),
    ("rqctx: RequestContext<CTX>, p: Path<P>, q: Query<Q>, conn: dropshot::WebsocketConnection", "Path<P>,Query<Q>,"),
];

fn ex_case(out: &mut Out, id: &mut u64, rng: &mut Rng, d: &Decl) {
    let (args, tys, ret) = if d.channel {
        let s = rng.pick(CHANNEL_SIGS);
        (s.0, s.1, "WebsocketChannelResult")
    } else {
        let s = rng.pick(ENDPOINT_SIGS);
        (s.0, s.1, s.2)
    };
    let explicit_false = rng.chance(1, 2);
    let mut rng_attr = rng.clone();
    let attr_f = attr_src(d, rng, explicit_false);
    // the trait form gets the same arguments in (possibly) another order
    let attr_t = if rng.chance(1, 2) { attr_f.clone() } else { attr_src(d, &mut rng_attr, explicit_false) };
    let docs = doc_attrs_tokens(&d.doc);
    let name = syn::Ident::new(&d.name, proc_macro2::Span::call_site());

    // ---- function form
    let f_args = TokenStream::from_str(&args.replace("CTX", "()")).unwrap();
    let f_ret = TokenStream::from_str(ret).unwrap();
    let item = quote::quote! { #docs pub async fn #name(#f_args) -> #f_ret { todo!() } };
    let Ok(attr_tokens) = TokenStream::from_str(&attr_f) else { return };
    let (ts, errs) =
        if d.channel { channel::do_channel(attr_tokens, item) } else { endpoint::do_endpoint(attr_tokens, item) };
    let f_out = if !errs.is_empty() {
        errs_enc(&errs)
    } else {
        match syn::parse2::<syn::File>(ts) {
            Ok(file) => {
                let cs = chains_in_file(&file);
                if cs.len() == 1 {
                    cs[0].clone()
                } else {
                    format!("chains:{}", cs.len())
                }
            }
            Err(_) => "unparsable".into(),
        }
    };

    // ---- trait form
    let t_args = TokenStream::from_str(&args.replace("CTX", "Self::Context")).unwrap();
    let Ok(attr_tokens) = TokenStream::from_str(&attr_t) else { return };
    let macro_name = syn::Ident::new(if d.channel { "channel" } else { "endpoint" }, proc_macro2::Span::call_site());
    let item = quote::quote! {
        pub trait MyApi {
            type Context;
            #docs
            #[#macro_name { #attr_tokens }]
            async fn #name(#t_args) -> #f_ret;
        }
    };
    let (ts, errs) = api_trait::do_trait(TokenStream::new(), item);
    let (i_out, s_out) = if !errs.is_empty() {
        (errs_enc(&errs), errs_enc(&errs))
    } else {
        match syn::parse2::<syn::File>(ts) {
            Ok(file) => {
                let mut i = "missing".to_string();
                let mut s = "missing".to_string();
                for it in &file.items {
                    if let syn::Item::Mod(m) = it {
                        if let Some((_, items)) = &m.content {
                            for it in items {
                                if let syn::Item::Fn(f) = it {
                                    let cs = chains_in_block(&f.block);
                                    let v = if cs.len() == 1 { cs[0].clone() } else { format!("chains:{}", cs.len()) };
                                    if f.sig.ident == "api_description" {
                                        i = v;
                                    } else if f.sig.ident == "stub_api_description" {
                                        s = v;
                                    }
                                }
                            }
                        }
                    }
                }
                (i, s)
            }
            Err(_) => ("unparsable".into(), "unparsable".into()),
        }
    };
    let want_tys = if d.channel {
        // the stub sees the adapter's signature: the connection argument becomes the upgrade extractor
        format!("({}dropshot::WebsocketUpgrade,),dropshot::WebsocketEndpointResult", tys)
    } else {
        format!("({}),{}", tys, ret.replace(' ', ""))
    };
    *id += 1;
    out.line(&format!("ex {} {} {} => {} {} {}", id, d.enc(), hs(&want_tys), f_out, i_out, s_out));
}

/// Registered record of a real `ApiEndpoint`:
/// `opid METHOD path bct max summary description tags visible deprecated versions`
pub fn rec_of<C: dropshot::ServerContext>(e: &dropshot::ApiEndpoint<C>) -> String {
    use dropshot::ApiEndpointBodyContentType as B;
    use dropshot::ApiEndpointVersions as V;
    let bct = match e.body_content_type {
        B::Bytes => "bytes",
        B::Json => "json",
        B::UrlEncoded => "urlencoded",
        B::MultipartFormData => "multipart",
    };
    let vers = match &e.versions {
        V::All => "A".to_string(),
        V::From(a) => format!("F:L{}", a),
        V::Until(b) => format!("U:L{}", b),
        V::FromUntil(p) => {
            // OrderedVersionPair has private fields; Debug prints them in order
            let s = format!("{:?}", p);
            format!("FU:{}", debug_pair(&s))
        }
    };
    format!(
        "{} {} {} {} {} {} {} {} {} {} {}",
        hs(&e.operation_id),
        e.method.as_str(),
        hs(&e.path),
        bct,
        match e.request_body_max_bytes {
            None => "~".to_string(),
            Some(n) => n.to_string(),
        },
        opt_hs(&e.summary),
        opt_hs(&e.description),
        list_hs('T', &e.tags),
        e.visible as u8,
        e.deprecated as u8,
        vers
    )
}

/// `OrderedVersionPair { earliest: Version { major: 1, minor: 0, patch: 0 }, until: Version { … } }`
fn debug_pair(s: &str) -> String {
    let mut nums: Vec<String> = vec![];
    let mut rest = s;
    for key in ["major: ", "minor: ", "patch: ", "major: ", "minor: ", "patch: "] {
        let i = rest.find(key).expect("OrderedVersionPair debug shape");
        rest = &rest[i + key.len()..];
        let n: String = rest.chars().take_while(|c| c.is_ascii_digit()).collect();
        nums.push(n);
    }
    format!("L{}.{}.{}:L{}.{}.{}", nums[0], nums[1], nums[2], nums[3], nums[4], nums[5])
}

fn bl_case(out: &mut Out, id: &mut u64, rng: &mut Rng) {
    use dropshot::{ApiEndpoint, ApiEndpointVersions as V, HttpError, HttpResponseOk};
    let opid = rng.pick(OPIDS).to_string();
    let method = rng.pick(METHODS).to_string();
    let ct = if rng.chance(1, 6) {
        rng.pick(BAD_CT).to_string()
    } else if rng.chance(1, 8) {
        "application/octet-stream".to_string()
    } else {
        rng.pick(GOOD_CT).to_string()
    };
    let path = rng.pick(&["/a", "/a/{x}", "/", "/{p:.*}"]).to_string();
    let pv = |rng: &mut Rng| rng.pick(GOOD_VERS).to_string();
    let (venc, vreal): (String, Box<dyn FnOnce() -> V + std::panic::UnwindSafe>) = match rng.below(4) {
        0 => ("A".into(), Box::new(|| V::All)),
        1 => {
            let a = pv(rng);
            (format!("F:L{}", a), Box::new(move || V::From(semver::Version::parse(&a).unwrap())))
        }
        2 => {
            let a = pv(rng);
            (format!("U:L{}", a), Box::new(move || V::Until(semver::Version::parse(&a).unwrap())))
        }
        _ => {
            let a = pv(rng);
            let b = pv(rng);
            (
                format!("FU:L{}:L{}", a, b),
                Box::new(move || {
                    V::from_until(semver::Version::parse(&a).unwrap(), semver::Version::parse(&b).unwrap()).unwrap()
                }),
            )
        }
    };
    #[derive(Clone)]
    enum Call {
        S(String),
        D(String),
        T(String),
        V(bool),
        P(bool),
        M(u64),
    }
    let n = rng.below(7);
    let mut calls = vec![];
    for _ in 0..n {
        calls.push(match rng.below(6) {
            0 => Call::S(gen_text(rng, true)),
            1 => Call::D(gen_text(rng, true)),
            2 => Call::T(rng.pick(TAGS).to_string()),
            3 => Call::V(rng.chance(1, 2)),
            4 => Call::P(rng.chance(1, 2)),
            _ => Call::M(*rng.pick(&MAXES[..5])),
        });
    }
    let mut cs = format!("K{}", calls.len());
    for c in &calls {
        cs.push(',');
        cs.push_str(&match c {
            Call::S(s) => format!("s:{}", hs(s)),
            Call::D(s) => format!("d:{}", hs(s)),
            Call::T(s) => format!("t:{}", hs(s)),
            Call::V(b) => format!("v:{}", *b as u8),
            Call::P(b) => format!("p:{}", *b as u8),
            Call::M(n) => format!("m:{}", n),
        });
    }
    let chain = format!("nft;{};-;{};{};{};{};-;{}", hs(&opid), method, hs(&ct), hs(&path), venc, cs);
    let (o2, m2, c2, p2, calls2) = (opid.clone(), method.clone(), ct.clone(), path.clone(), calls.clone());
    let res = catch(move || {
        let mut e = ApiEndpoint::new_for_types::<(), Result<HttpResponseOk<()>, HttpError>>(
            o2,
            http::Method::from_bytes(m2.as_bytes()).unwrap(),
            &c2,
            &p2,
            vreal(),
        );
        for c in calls2 {
            e = match c {
                Call::S(s) => e.summary(s),
                Call::D(s) => e.description(s),
                Call::T(s) => e.tag(s),
                Call::V(b) => e.visible(b),
                Call::P(b) => e.deprecated(b),
                Call::M(n) => e.request_body_max_bytes(n as usize),
            };
        }
        rec_of(&e)
    });
    *id += 1;
    out.line(&format!(
        "bl {} {} => {}",
        id,
        chain,
        match res {
            Ok(r) => r,
            Err(_) => "panic".to_string(),
        }
    ));
}

fn main() {
    if let Ok(src) = std::env::var("C19_PROBE") {
        // replay one `versions = …` spelling / one endpoint attribute list on the real macro code
        match syn::parse2::<metadata::VersionRange>(TokenStream::from_str(&src).unwrap()) {
            Ok(r) => println!("VersionRange::parse({}) = Ok({})", src, vrange_enc(&r)),
            Err(e) => println!("VersionRange::parse({}) = Err({:?})", src, e.to_string()),
        }
        return;
    }
    quiet_panics();
    let mut out = Out::new();
    let thorough = is_thorough();
    let scale = if thorough { 10 } else { 1 };
    let mut id: u64 = 0;

    // ---- dc: fixed shapes (doc.rs unit tests and boundary cases), then generated
    if std::env::args().nth(1).as_deref() != Some("vr") {
        let fixed_src: &[&str] = &[
            "/// Javadoc summary\n/// Maybe there's another name for these...\n/// ... but Java is the first place I saw these types of comments.\n",
            "/** Javadoc summary\n * Maybe there's another name for these...\n * ... but Java is the first place I saw these types of comments.\n */\n",
            "/// Rustdoc summary\n/// Did other folks do this or what this an invention I can right-\n/// fully ascribe to Rust?\n",
            "/// Summary\n/// Text\n/// More\n///\n/// Even\n/// More\n///\n///\n///\n/// And another\n/// paragraph\n",
            "///\n///\n/// late summary\n///\n///\n/// late description\n///\n",
            "/// a-\n///\n/// b\n/// c-\n///\n/// d\n",
            "/// -\n/// -\n/// -\n",
            "/**\n * Summary\n *\n * * bullet one\n * * bullet two\n */\n",
            "/**\n Summary\n * item one\n * item two\n */\n",
            "/// * bullet in a line comment\n/// * another\n",
            "/** one-line block */\n",
            "/** */\n/// after an empty block\n",
            "///\n",
            "",
            "#[doc(hidden)]\n#[inline]\n",
            "/// only\n#[doc(hidden)]\n/// then\n",
        ];
        for s in fixed_src {
            let f: syn::ItemFn = syn::parse_str(&format!("{}fn f() {{}}", s)).expect("fixed doc source parses");
            let vals = doc_values(&f.attrs);
            dc_case(&mut out, &mut id, "src", &f.attrs, &vals);
        }
        let mut rng = Rng::from_env(191);
        let n = 6000 * scale;
        for _ in 0..n {
            let src = gen_doc_source(&mut rng);
            match syn::parse_str::<syn::ItemFn>(&format!("{}fn f() {{}}", src)) {
                Ok(f) => {
                    let vals = doc_values(&f.attrs);
                    dc_case(&mut out, &mut id, "src", &f.attrs, &vals);
                }
                Err(_) => {}
            }
        }
        for _ in 0..n {
            let vals = gen_doc_values(&mut rng);
            let attrs = attrs_of_values(&mut rng, &vals);
            dc_case(&mut out, &mut id, "val", &attrs, &vals);
        }
    }

    // `c19 vr`: only the version-syntax stream (also part of C05's check: what a declared
    // `versions = …` means is C05's first clause)
    let only_vr = std::env::args().nth(1).as_deref() == Some("vr");
    // ---- vr: all four spellings over literal pools (exhaustive pairs), then random
    {
        let pool: Vec<VSpec> = GOOD_VERS
            .iter()
            .chain(BAD_VERS.iter())
            .map(|s| VSpec::Lit(s.to_string()))
            .chain(VER_IDENTS.iter().map(|s| VSpec::Ident(s.to_string())))
            .chain(std::iter::once(VSpec::Lit("18446744073709551615.0.1".into())))
            .collect();
        vr_case(&mut out, &mut id, &VSyn::All);
        for a in &pool {
            vr_case(&mut out, &mut id, &VSyn::Until(a.clone()));
            vr_case(&mut out, &mut id, &VSyn::From(a.clone()));
            for b in &pool {
                vr_case(&mut out, &mut id, &VSyn::FromUntil(a.clone(), b.clone()));
            }
        }
        let mut rng = Rng::from_env(192);
        for _ in 0..(500 * scale) {
            let nums = ["0", "1", "2", "9", "10"];
            let mut mk = |rng: &mut Rng| {
                VSpec::Lit(format!("{}.{}.{}", rng.pick(&nums), rng.pick(&nums), rng.pick(&nums)))
            };
            let (a, b) = (mk(&mut rng), mk(&mut rng));
            vr_case(&mut out, &mut id, &VSyn::FromUntil(a, b));
        }
    }

    if only_vr {
        out.flush();
        return;
    }

    // ---- md: metadata deserialisation + validation + to_api_endpoint_fn
    {
        let mut rng = Rng::from_env(193);
        for i in 0..(8000 * scale) {
            let d = gen_decl(&mut rng, i % 3 == 0);
            let trait_kind = rng.chance(1, 2);
            md_case(&mut out, &mut id, &mut rng, &d, trait_kind);
        }
    }

    // ---- ex: whole expansions in the three styles
    {
        let mut rng = Rng::from_env(194);
        for i in 0..(2500 * scale) {
            let d = gen_decl(&mut rng, i % 4 != 0);
            ex_case(&mut out, &mut id, &mut rng, &d);
        }
    }

    // ---- bl: real constructor + builder methods
    {
        let mut rng = Rng::from_env(195);
        for _ in 0..(3000 * scale) {
            bl_case(&mut out, &mut id, &mut rng);
        }
    }

    // ---- programs
    programs::run(&mut out, &mut id);
    out.flush();
}
