//! C03 correspondence harness: request-path normalisation.
//!
//! Streams (one case per line, `<stream> <id> <input…> => <impl…>`; every path
//! and segment hex-encoded, `-` = empty):
//!
//! * `f <id> <path> => ok <n> <seg>* | err` — the real
//!   `input_path_to_segments` (hook), one path;
//! * `v <id> <path> <variant> => <res> ; <res>` — the same on a path and a
//!   slash-perturbed spelling of it (same raw segments, other `/` runs);
//! * `l <id> <W|P> <path> <variant> => <res> ; <res>` — `lookup_route` through
//!   the public API on table W (`GET /{path:.*}`) or P (`GET /p/{x}`); `res` is
//!   a status code, or `ok <k> (<var> C <n> <seg>* | <var> S <seg>)*`;
//! * `s <id> <path> => <status> [<n> <seg>*]` — a live server with an echoing
//!   wildcard handler, request sent over a raw TCP stream (URI-legal subset).

use dropshot::endpoint;
use dropshot::verif_hooks as hooks;
use dropshot::ApiDescription;
use dropshot::HttpError;
use dropshot::HttpResponseOk;
use dropshot::Path;
use dropshot::RequestContext;
use dsharness::server;
use dsharness::util::*;
use schemars::JsonSchema;
use serde::Deserialize;
use std::io::Write;

#[derive(Deserialize, JsonSchema)]
struct WildPath {
    path: Vec<String>,
}

#[derive(Deserialize, JsonSchema)]
struct OneVar {
    x: String,
}

/// Echoes the wildcard components it was given.
#[endpoint { method = GET, path = "/{path:.*}", unpublished = true }]
async fn wild(
    _rqctx: RequestContext<()>,
    path: Path<WildPath>,
) -> Result<HttpResponseOk<Vec<String>>, HttpError> {
    Ok(HttpResponseOk(path.into_inner().path))
}

#[endpoint { method = GET, path = "/p/{x}" }]
async fn one(
    _rqctx: RequestContext<()>,
    path: Path<OneVar>,
) -> Result<HttpResponseOk<Vec<String>>, HttpError> {
    Ok(HttpResponseOk(vec![path.into_inner().x]))
}

#[derive(Deserialize, JsonSchema)]
struct RestPath {
    rest: Vec<String>,
}

/// Table E: a route for exactly `/p` beside a wildcard below it (same method).
#[endpoint { method = GET, path = "/p" }]
async fn exact_p(_rqctx: RequestContext<()>) -> Result<HttpResponseOk<Vec<String>>, HttpError> {
    Ok(HttpResponseOk(vec![]))
}

#[endpoint { method = GET, path = "/p/{rest:.*}", unpublished = true }]
async fn wild_p(
    _rqctx: RequestContext<()>,
    path: Path<RestPath>,
) -> Result<HttpResponseOk<Vec<String>>, HttpError> {
    Ok(HttpResponseOk(path.into_inner().rest))
}

fn segs_str(v: &[String]) -> String {
    let mut s = format!("{}", v.len());
    for x in v {
        s.push(' ');
        s.push_str(&hex(x.as_bytes()));
    }
    s
}

fn f_res(path: &str) -> String {
    match hooks::input_path_to_segments(path) {
        Ok(v) => format!("ok {}", segs_str(&v)),
        Err(_) => "err".to_string(),
    }
}

/// `lookup_route` on the router of `api` (the router type cannot be named
/// outside the crate, so it lives in a closure).
fn mk_lookup(api: ApiDescription<()>) -> impl Fn(&str) -> String {
    let router = api.into_router();
    move |path: &str| l_fmt(router.lookup_route(&http::Method::GET, path.into(), None).map(|r| r.endpoint.variables))
}

fn l_fmt(res: Result<hooks::VariableSet, HttpError>) -> String {
    match res {
        Ok(res) => {
            // BTreeMap: already sorted by variable name
            let vars = &res;
            let mut s = format!("ok {}", vars.len());
            for (k, v) in vars.iter() {
                match v {
                    hooks::VariableValue::String(x) => {
                        s.push_str(&format!(" {} S {}", k, hex(x.as_bytes())));
                    }
                    hooks::VariableValue::Components(c) => {
                        s.push_str(&format!(" {} C {}", k, segs_str(&c)));
                    }
                }
            }
            s
        }
        Err(e) => format!("{}", e.status_code.as_u16()),
    }
}

// ---------------------------------------------------------------- generators

const UNRESERVED: &[u8] = b"abcxyzABCXYZ0129-._~p";
const RESERVED_RAW: &[char] = &[
    '!', '$', '&', '\'', '(', ')', '*', '+', ',', ';', '=', ':', '@', '?', '#', '[', ']', ' ', '"', '<', '>',
    '\\', '^', '`', '{', '|', '}', '~', '\t', '\u{7f}', '\u{1}',
];
/// Reserved characters that are legal in a request-target path as hyper reads it.
const RESERVED_URI: &[char] = &['!', '$', '&', '\'', '(', ')', '*', '+', ',', ';', '=', ':', '@'];
const CHARS: &[char] = &[
    'a', 'Z', '0', '.', '%', '/', ' ', '\u{7f}', '\u{80}', '\u{e9}', '\u{7ff}', '\u{800}', '\u{20ac}', '\u{d7ff}',
    '\u{e000}', '\u{fffd}', '\u{ffff}', '\u{10000}', '\u{1f600}', '\u{10ffff}', '\u{0}', '\u{2e}', '\u{ff0e}',
    '\u{2024}', '\u{2215}',
];
const INVALID: &[&[u8]] = &[
    &[0x80], &[0xbf], &[0xc0, 0xaf], &[0xc1, 0xbf], &[0xc0, 0xae], &[0xe0, 0x80, 0xae], &[0xe0, 0x9f, 0xbf],
    &[0xed, 0xa0, 0x80], &[0xed, 0xbf, 0xbf], &[0xf0, 0x8f, 0xbf, 0xbf], &[0xf4, 0x90, 0x80, 0x80],
    &[0xf5, 0x80, 0x80, 0x80], &[0xff], &[0xfe], &[0xc3], &[0xe2, 0x82], &[0xf0, 0x9f, 0x98], &[0xc3, 0x28],
    &[0xe2, 0x28, 0xa1], &[0x61, 0x80, 0x62], &[0xf8, 0x88, 0x80, 0x80, 0x80],
];
const TRUNCATED: &[&str] = &[
    "%", "%2", "%zz", "%2g", "%g2", "a%", "%%2e", "%2%65", "%%", "%e", "%.", "%2e%", "%%%", "%2E%2", "%25",
    "%x2e", "%2-", "%+2e", "%ｅ", "%2\u{ff45}", "100%", "%e9",
];
const DOUBLE: &[&str] = &[
    "%252e", "%252e%252e", "%252E.", "%25%32%65", ".%252e", "%25252e", "%252f", "%252F..%252f", "%2525",
];
const DOTS: &[&str] = &[
    ".", "%2e", "%2E", "..", ".%2e", ".%2E", "%2e.", "%2E.", "%2e%2e", "%2e%2E", "%2E%2e", "%2E%2E", "...", ".a",
    "a.", "%2e%2e%2e", ". ", " .", "..%00", "%2e%2e%20", "%2e\u{2e}", "\u{ff0e}\u{ff0e}", "%c0%ae%c0%ae",
    "%2e%2e%2f", "..;", ".%2e.", "%2E%2e%2E",
];
const ENC_SLASH: &[&str] = &[
    "a%2fb", "%2F", "%2f", "%2f%2e%2e%2f", "..%2f..", "%2e%2e%2fetc", "a%2Fb%2fc", "%2f%2f", "%5c", "..%5c..",
    "%2e%2e%5c", "p%2fx",
];
const PLAIN: &[&str] = &["p", "a", "foo", "x", "index.html", "p", "P", "etc", "passwd"];

fn hexbyte(rng: &mut Rng, b: u8, out: &mut String) {
    const LO: &[u8] = b"0123456789abcdef";
    const UP: &[u8] = b"0123456789ABCDEF";
    out.push('%');
    for n in [b >> 4, b & 15] {
        let t = if rng.chance(1, 2) { LO } else { UP };
        out.push(t[n as usize] as char);
    }
}

/// A segment made of arbitrary Unicode, each char raw or percent-encoded with
/// random hex case; unreserved ASCII over-encoded at random.  Never contains a
/// raw `/`; a raw `%` is always written `%25`.
fn unicode_segment(rng: &mut Rng, raw_non_ascii: bool) -> String {
    let n = rng.range(1, 5);
    let mut s = String::new();
    for _ in 0..n {
        let c = if rng.chance(1, 2) {
            *rng.pick(UNRESERVED) as char
        } else if rng.chance(1, 3) {
            // any scalar value
            loop {
                let x = rng.below(0x110000) as u32;
                if let Some(c) = char::from_u32(x) {
                    break c;
                }
            }
        } else {
            *rng.pick(CHARS)
        };
        let unreserved = c.is_ascii_alphanumeric() || "-._~".contains(c);
        let raw_ok = c != '/' && c != '%' && (c.is_ascii() || raw_non_ascii) && (raw_non_ascii || unreserved);
        let encode = if unreserved { rng.chance(1, 4) } else { !raw_ok || rng.chance(1, 2) };
        if encode {
            let mut buf = [0u8; 4];
            for b in c.encode_utf8(&mut buf).bytes() {
                hexbyte(rng, b, &mut s);
            }
        } else {
            s.push(c);
        }
    }
    s
}

fn invalid_segment(rng: &mut Rng) -> String {
    let mut s = String::new();
    if rng.chance(1, 3) {
        s.push(*rng.pick(UNRESERVED) as char);
    }
    if rng.chance(1, 4) {
        let n = rng.range(1, 4);
        for _ in 0..n {
            let b = rng.range(0x80, 0xff) as u8;
            hexbyte(rng, b, &mut s);
        }
    } else {
        for &b in rng.pick(INVALID).iter() {
            hexbyte(rng, b, &mut s);
        }
    }
    if rng.chance(1, 3) {
        s.push(*rng.pick(UNRESERVED) as char);
    }
    s
}

/// One raw segment (never empty, never containing a raw `/`).
/// `uri_legal`: restrict to what may appear in a request-target.
fn gen_segment(rng: &mut Rng, uri_legal: bool) -> String {
    match rng.below(if uri_legal { 10 } else { 12 }) {
        0 | 1 => unicode_segment(rng, !uri_legal),
        2 => invalid_segment(rng),
        3 => {
            let t = *rng.pick(TRUNCATED);
            if uri_legal && !t.is_ascii() { "%zz".to_string() } else { t.to_string() }
        }
        4 => rng.pick(DOUBLE).to_string(),
        5 | 6 => {
            let t = *rng.pick(DOTS);
            if uri_legal && (!t.is_ascii() || t.contains(' ')) { "%2e%2E".to_string() } else { t.to_string() }
        }
        7 => rng.pick(ENC_SLASH).to_string(),
        8 => rng.pick(PLAIN).to_string(),
        9 => {
            let n = rng.range(1, 3);
            (0..n).map(|_| *rng.pick(RESERVED_URI)).collect()
        }
        10 => {
            let n = rng.range(1, 3);
            (0..n).map(|_| *rng.pick(RESERVED_RAW)).collect()
        }
        _ => {
            // glue two kinds together inside one segment
            let a = gen_segment(rng, uri_legal);
            let b = gen_segment(rng, uri_legal);
            format!("{}{}", a, b)
        }
    }
}

/// Join segments with random runs of `/`.  `must_lead`: at least one leading `/`.
fn join(rng: &mut Rng, segs: &[String], must_lead: bool) -> String {
    let run = |rng: &mut Rng, min: u64| -> String {
        let n = if rng.chance(2, 3) { min.max(1) } else { rng.range(min, 3) };
        "/".repeat(n as usize)
    };
    let mut s = String::new();
    // leading
    if must_lead || rng.chance(9, 10) {
        s.push_str(&run(rng, 1));
    }
    for (i, x) in segs.iter().enumerate() {
        if i > 0 {
            s.push_str(&run(rng, 1));
        }
        s.push_str(x);
    }
    if rng.chance(1, 3) {
        s.push_str(&run(rng, 1));
    }
    s
}

fn gen_segments(rng: &mut Rng, uri_legal: bool, under_p: bool) -> Vec<String> {
    let mut segs: Vec<String> = Vec::new();
    if under_p {
        // mostly shaped like /p/{x}
        match rng.below(10) {
            0 => {}
            1 => segs.push("p".into()),
            2 => {
                segs.push(gen_segment(rng, uri_legal));
                segs.push(gen_segment(rng, uri_legal));
            }
            3 => {
                segs.push("p".into());
                segs.push(gen_segment(rng, uri_legal));
                segs.push(gen_segment(rng, uri_legal));
            }
            4 => {
                segs.push("%70".into());
                segs.push(gen_segment(rng, uri_legal));
            }
            _ => {
                segs.push("p".into());
                segs.push(gen_segment(rng, uri_legal));
            }
        }
    } else {
        let n = if rng.chance(1, 20) { 0 } else { rng.range(1, 4) };
        for _ in 0..n {
            segs.push(gen_segment(rng, uri_legal));
        }
    }
    segs
}

/// Curated paths, run first (the D1 witnesses, the repo's own unit-test inputs,
/// boundary spellings).
const CORPUS: &[&str] = &[
    "/%2e%2e", "/a/%2e%2e/b", "/p/%2e%2e", "/p/%2E", "/p/.%2e", "/p/%2e", "/a/../b", "/a/./b", "/..", "/.", "..",
    ".", "", "/", "//", "///", "a", "/a", "a/", "/a/", "//a//", "//foo/bar/baz%2fbuzz", "/foo/bar/baz%2Fbuzz/",
    "/%252e%252e", "/a%252fb", "/%", "/%2", "/%zz", "/%%2e", "/%%2e%2e", "/%2e%", "/...", "/.a", "/a.",
    "/%c3%a9", "/\u{e9}", "/%C3", "/%c0%af", "/%ed%a0%80", "/%f4%90%80%80", "/%f4%8f%bf%bf", "/%ef%bf%bf",
    "/%00", "/p/x", "/p/x/", "//p//x", "/p", "/p/", "/p/x/y", "/p/%2f", "/p/a%2fb", "/%70/x", "/P/x",
    "/p/%2e%2e%2f", "/%2e%2e%2f%2e%2e", "/a/b/../../c", "/a/%2E%2E/%2e%2E", "/\u{ff0e}\u{ff0e}", "/%c0%ae%c0%ae",
    "/ /", "/a b", "/a?b", "/a#b", "/%3f", "/%23", "/%2F%2F", "/%2f/%2f", "%2f", "p/x",
];

fn exhaustive(out: &mut Out, id: &mut u64, maxlen: usize) {
    const ALPHA: &[u8] = b"/.%2eEfa";
    let mut buf: Vec<u8> = Vec::new();
    fn rec(out: &mut Out, id: &mut u64, buf: &mut Vec<u8>, left: usize) {
        let p = std::str::from_utf8(buf).unwrap();
        *id += 1;
        out.line(&format!("f {} {} => {}", id, hex(buf), f_res(p)));
        if left == 0 {
            return;
        }
        for &c in ALPHA {
            buf.push(c);
            rec(out, id, buf, left - 1);
            buf.pop();
        }
    }
    rec(out, id, &mut buf, maxlen);
}

fn parse_echo(body: &[u8]) -> Option<Vec<String>> {
    serde_json::from_slice::<Vec<String>>(body).ok()
}

fn main() {
    quiet_panics();
    let mut out = Out::new();
    let thorough = is_thorough();
    let mut id: u64 = 0;

    let mut api_w = ApiDescription::<()>::new();
    api_w.register(wild).unwrap();
    let router_w = mk_lookup(api_w);
    let mut api_p = ApiDescription::<()>::new();
    api_p.register(one).unwrap();
    let router_p = mk_lookup(api_p);
    let mut api_e = ApiDescription::<()>::new();
    api_e.register(exact_p).unwrap();
    api_e.register(wild_p).unwrap();
    let router_e = mk_lookup(api_e);

    // ---- corpus: every curated path through f, and (with itself as the variant) through both tables
    for p in CORPUS {
        id += 1;
        out.line(&format!("f {} {} => {}", id, hex(p.as_bytes()), f_res(p)));
        let variant = format!("/{}/", p);
        id += 1;
        out.line(&format!(
            "v {} {} {} => {} ; {}",
            id,
            hex(p.as_bytes()),
            hex(variant.as_bytes()),
            f_res(p),
            f_res(&variant)
        ));
        let tables: [(&str, &dyn Fn(&str) -> String); 3] = [("W", &router_w), ("P", &router_p), ("E", &router_e)];
        for (name, r) in tables {
            id += 1;
            out.line(&format!(
                "l {} {} {} {} => {} ; {}",
                id,
                name,
                hex(p.as_bytes()),
                hex(variant.as_bytes()),
                r(p),
                r(&variant)
            ));
        }
    }

    // ---- deep and slash-heavy paths: hundreds and thousands of '/' (as runs of
    // empty segments, as real one-letter segments, mixed) in front of tails that
    // contain dot segments, encoded slashes and ordinary names
    {
        let mut rng = Rng::from_env(34);
        let tails = [
            "a/../secret", "files/x/../../secret", "p/%2e%2e", "p/x", "p/x/", "p/..", "x/%2e/y", "a%2fb/c", "p/a%2f..%2fb",
            "..", "%2E%2e/z", "p/%c3%a9", "p/%ff",
        ];
        let counts: Vec<usize> = if thorough {
            vec![1, 2, 63, 64, 100, 127, 128, 200, 250, 253, 254, 255, 256, 257, 258, 300, 511, 512, 1000, 1023, 1024, 4095, 4096, 10000]
        } else {
            vec![64, 128, 253, 254, 255, 256, 257, 512, 1024, 4096]
        };
        for k in counts {
            for tail in tails.iter() {
                for style in 0..3 {
                    let mut path = String::new();
                    for i in 0..k {
                        path.push('/');
                        match style {
                            0 => {}                                  // a run of slashes
                            1 => path.push((b'a' + (i % 26) as u8) as char), // k real segments
                            _ => {
                                if rng.chance(1, 2) {
                                    path.push('d');
                                }
                            }
                        }
                    }
                    // the tail starts a new segment
                    if !path.ends_with('/') {
                        path.push('/');
                    }
                    path.push_str(tail);
                    let variant = format!("/{}", path.replace("//", "/"));
                    id += 1;
                    out.line(&format!("f {} {} => {}", id, hex(path.as_bytes()), f_res(&path)));
                    id += 1;
                    out.line(&format!(
                        "v {} {} {} => {} ; {}",
                        id,
                        hex(path.as_bytes()),
                        hex(variant.as_bytes()),
                        f_res(&path),
                        f_res(&variant)
                    ));
                    // through lookup_route: the wildcard table sees everything; the /p/{x}
                    // table only when the prefix is empty segments
                    let tables: [(&str, &dyn Fn(&str) -> String); 3] = [("W", &router_w), ("P", &router_p), ("E", &router_e)];
                    for (name, r) in tables {
                        id += 1;
                        out.line(&format!(
                            "l {} {} {} {} => {} ; {}",
                            id,
                            name,
                            hex(path.as_bytes()),
                            hex(variant.as_bytes()),
                            r(&path),
                            r(&variant)
                        ));
                    }
                }
            }
        }
    }

    // ---- exhaustive small scope: all strings over { / . % 2 e E f a } up to the length bound
    exhaustive(&mut out, &mut id, if thorough { 7 } else { 6 });

    // ---- random paths, function level, with a slash-perturbed variant
    let mut rng = Rng::from_env(31);
    let n_v = if thorough { 1_000_000 } else { 120_000 };
    for _ in 0..n_v {
        let segs = gen_segments(&mut rng, false, false);
        let a = join(&mut rng, &segs, false);
        let b = join(&mut rng, &segs, false);
        id += 1;
        out.line(&format!(
            "v {} {} {} => {} ; {}",
            id,
            hex(a.as_bytes()),
            hex(b.as_bytes()),
            f_res(&a),
            f_res(&b)
        ));
    }

    // ---- lookup_route through the public API on the two tables
    let mut rng = Rng::from_env(32);
    let n_l = if thorough { 600_000 } else { 80_000 };
    for i in 0..n_l {
        let on_p = i % 2 == 1;
        let segs = gen_segments(&mut rng, false, on_p);
        let a = join(&mut rng, &segs, false);
        let b = join(&mut rng, &segs, false);
        let (name, r): (&str, &dyn Fn(&str) -> String) = if on_p {
            if i % 4 == 3 {
                ("E", &router_e)
            } else {
                ("P", &router_p)
            }
        } else {
            ("W", &router_w)
        };
        id += 1;
        out.line(&format!(
            "l {} {} {} {} => {} ; {}",
            id,
            name,
            hex(a.as_bytes()),
            hex(b.as_bytes()),
            r(&a),
            r(&b)
        ));
    }

    // ---- live server, echoing wildcard handler, raw TCP, URI-legal subset
    let rt = tokio::runtime::Builder::new_multi_thread().worker_threads(2).enable_all().build().unwrap();
    let _guard = rt.enter();
    let mut api = ApiDescription::<()>::new();
    api.register(wild).unwrap();
    let srv = server::start_server(api, (), server::ServerOpts::default());
    let addr = srv.local_addr();
    let mut rng = Rng::from_env(33);
    let n_s = if thorough { 60_000 } else { 8_000 };
    let mut paths: Vec<String> = CORPUS
        .iter()
        .filter(|p| p.starts_with('/') && p.is_ascii() && !p.contains(' ') && !p.contains('?') && !p.contains('#'))
        .map(|p| p.to_string())
        .collect();
    for _ in 0..n_s {
        let segs = gen_segments(&mut rng, true, false);
        paths.push(join(&mut rng, &segs, true));
    }
    // several requests per connection (keep-alive), a fresh connection on any trouble
    let mut conn: Option<server::RespReader> = None;
    for p in &paths {
        let req = server::build_request("GET", p, &[], b"");
        let mut resp = None;
        for _attempt in 0..3 {
            if conn.is_none() {
                conn = server::connect(addr).ok().map(server::RespReader::new);
            }
            let Some(c) = conn.as_mut() else { continue };
            if c.stream.write_all(&req).is_err() {
                conn = None;
                continue;
            }
            match c.read_response(false) {
                Some(r) if r.well_formed => {
                    if r.header("connection").map(|v| v.eq_ignore_ascii_case("close")).unwrap_or(false) {
                        conn = None;
                    }
                    resp = Some(r);
                    break;
                }
                _ => {
                    conn = None;
                }
            }
        }
        id += 1;
        let res = match resp {
            None => "noresp".to_string(),
            Some(r) if r.status == 200 => match parse_echo(&r.body) {
                Some(v) => format!("200 {}", segs_str(&v)),
                None => "200 badbody".to_string(),
            },
            Some(r) => format!("{}", r.status),
        };
        out.line(&format!("s {} {} => {}", id, hex(p.as_bytes()), res));
    }
    drop(conn);
    out.flush();
    let _ = rt.block_on(srv.close());
}
