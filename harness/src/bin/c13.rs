//! C13 correspondence harness: error status refinement types (exhaustive over
//! u16), `HttpError` constructors and `into_response` in-process, and a live
//! server stream checking the request id on every response.
//!
//! Streams (one case per line, `<stream> <id> <input…> => <impl…>`):
//!   eu  every u16 through every conversion of the two status types
//!   ct  the named constants
//!   ir  HttpError constructor × status × code/messages/headers -> into_response
//!   lv  live server: x-request-id on success / HttpError / custom error /
//!       framework errors, over keep-alive connections

use dropshot::endpoint;
use dropshot::ApiDescription;
use dropshot::ClientErrorStatusCode as C;
use dropshot::ErrorStatusCode as E;
use dropshot::HttpError;
use dropshot::HttpResponseError;
use dropshot::HttpResponseOk;
use dropshot::Path;
use dropshot::Query;
use dropshot::RequestContext;
use dropshot::TypedBody;
use dsharness::server::*;
use dsharness::util::*;
use http_body_util::BodyExt;
use schemars::JsonSchema;
use serde::Deserialize;
use serde::Serialize;
use std::collections::HashSet;
use std::io::Write;

// ---------------------------------------------------------------- eu / ct

fn r_e<X>(r: Result<E, X>, kind: impl Fn(&X) -> &'static str) -> String {
    match r {
        Ok(e) => format!("ok:{}", e.as_u16()),
        Err(x) => kind(&x).to_string(),
    }
}
fn r_c<X>(r: Result<C, X>, kind: impl Fn(&X) -> &'static str) -> String {
    match r {
        Ok(e) => format!("ok:{}", e.as_u16()),
        Err(x) => kind(&x).to_string(),
    }
}
fn k_ie(x: &dropshot::InvalidErrorStatusCode) -> &'static str {
    match x {
        dropshot::InvalidErrorStatusCode::NotAnError(_) => "nic",
        dropshot::InvalidErrorStatusCode::InvalidStatus(_) => "inv",
    }
}
fn k_ic(x: &dropshot::InvalidClientErrorStatusCode) -> &'static str {
    match x {
        dropshot::InvalidClientErrorStatusCode::NotAClientError(_) => "nic",
        dropshot::InvalidClientErrorStatusCode::InvalidStatus(_) => "inv",
    }
}

fn eu_stream(out: &mut Out) {
    for n in 0..=u16::MAX {
        let s = n.to_string();
        let e = r_e(E::from_u16(n), k_ie);
        let et = r_e(E::try_from(n), k_ie);
        let estr = r_e(s.parse::<E>(), k_ie);
        let ebytes = r_e(E::from_bytes(s.as_bytes()), k_ie);
        let ebt = r_e(E::try_from(s.as_bytes()), k_ie);
        let est = r_e(E::try_from(s.as_str()), k_ie);
        let c = r_c(C::from_u16(n), k_ic);
        let ct = r_c(C::try_from(n), k_ic);
        let cstr = r_c(s.parse::<C>(), k_ic);
        let cbytes = r_c(C::from_bytes(s.as_bytes()), k_ic);
        let (es, ets, cs, cts) = match http::StatusCode::from_u16(n) {
            Err(_) => ("na".to_string(), "na".to_string(), "na".to_string(), "na".to_string()),
            Ok(st) => (
                r_e(E::from_status(st), |_| "nic"),
                r_e(E::try_from(st), |_| "nic"),
                r_c(C::from_status(st), |_| "nic"),
                r_c(C::try_from(st), |_| "nic"),
            ),
        };
        let (ac, act, acr) = match E::from_u16(n) {
            Err(_) => ("na".to_string(), "na".to_string(), "na".to_string()),
            Ok(ev) => (
                r_c(ev.as_client_error(), |_| "nic"),
                r_c(C::try_from(ev), |_| "nic"),
                r_c(C::try_from(&ev), |_| "nic"),
            ),
        };
        let (ce, cer) = match C::from_u16(n) {
            Err(_) => ("na".to_string(), "na".to_string()),
            Ok(cv) => (format!("ok:{}", E::from(cv).as_u16()), format!("ok:{}", E::from(&cv).as_u16())),
        };
        out.line(&format!(
            "eu {} {} => {} {} {} {} {} {} {} {} {} {} {} {} {} {} {} {} {} {} {}",
            n, n, e, et, estr, ebytes, ebt, est, es, ets, c, ct, cstr, cbytes, cs, cts, ac, act, acr, ce, cer
        ));
    }
}

macro_rules! consts {
    ($T:ident, $tag:expr, $out:expr, $id:expr, [$($name:ident),* $(,)?]) => {{
        let mut idx = 0usize;
        $(
            $id += 1;
            $out.line(&format!("ct {} {} {} {} => {}", $id, $tag, idx, stringify!($name), $T::$name.as_u16()));
            idx += 1;
        )*
        let _ = idx;
    }};
}

fn ct_stream(out: &mut Out, id: &mut u64) {
    consts!(C, "C", out, *id, [
        BAD_REQUEST, UNAUTHORIZED, PAYMENT_REQUIRED, FORBIDDEN, NOT_FOUND, METHOD_NOT_ALLOWED,
        NOT_ACCEPTABLE, PROXY_AUTHENTICATION_REQUIRED, REQUEST_TIMEOUT, CONFLICT, GONE,
        LENGTH_REQUIRED, PRECONDITION_FAILED, PAYLOAD_TOO_LARGE, URI_TOO_LONG,
        UNSUPPORTED_MEDIA_TYPE, RANGE_NOT_SATISFIABLE, EXPECTATION_FAILED, IM_A_TEAPOT,
        MISDIRECTED_REQUEST, UNPROCESSABLE_ENTITY, LOCKED, FAILED_DEPENDENCY, UPGRADE_REQUIRED,
        PRECONDITION_REQUIRED, TOO_MANY_REQUESTS, REQUEST_HEADER_FIELDS_TOO_LARGE,
        UNAVAILABLE_FOR_LEGAL_REASONS,
    ]);
    consts!(E, "E", out, *id, [
        BAD_REQUEST, UNAUTHORIZED, PAYMENT_REQUIRED, FORBIDDEN, NOT_FOUND, METHOD_NOT_ALLOWED,
        NOT_ACCEPTABLE, PROXY_AUTHENTICATION_REQUIRED, REQUEST_TIMEOUT, CONFLICT, GONE,
        LENGTH_REQUIRED, PRECONDITION_FAILED, PAYLOAD_TOO_LARGE, URI_TOO_LONG,
        UNSUPPORTED_MEDIA_TYPE, RANGE_NOT_SATISFIABLE, EXPECTATION_FAILED, IM_A_TEAPOT,
        MISDIRECTED_REQUEST, UNPROCESSABLE_ENTITY, LOCKED, FAILED_DEPENDENCY, UPGRADE_REQUIRED,
        PRECONDITION_REQUIRED, TOO_MANY_REQUESTS, REQUEST_HEADER_FIELDS_TOO_LARGE,
        UNAVAILABLE_FOR_LEGAL_REASONS,
        INTERNAL_SERVER_ERROR, NOT_IMPLEMENTED, BAD_GATEWAY, SERVICE_UNAVAILABLE, GATEWAY_TIMEOUT,
        HTTP_VERSION_NOT_SUPPORTED, VARIANT_ALSO_NEGOTIATES, INSUFFICIENT_STORAGE, LOOP_DETECTED,
        NOT_EXTENDED, NETWORK_AUTHENTICATION_REQUIRED,
    ]);
}

// ---------------------------------------------------------------- ir

/// The byte-string grammar for messages and codes (always valid UTF-8: the
/// fields are Rust `String`s).
fn gen_text(rng: &mut Rng) -> String {
    const PIECES: &[&str] = &[
        "", "a", "not found", "Bad Request", "oy!", "\"", "\\", "\\\"", "\n", "\r\n", "\t", "\u{0}",
        "\u{1}", "\u{8}", "\u{c}", "\u{1f}", "\u{7f}", "\u{80}", "é", "漢字", "😀", "\u{2028}",
        "\u{feff}", "\",\"message\":\"x", "}", "{", "</script>", "  ", "request_id", "%00", "\\u0041",
        "\u{1b}[31m", "/", "'", "&", "null", "0",
    ];
    let n = match rng.below(10) {
        0 => 0,
        1..=5 => rng.range(1, 3),
        6..=8 => rng.range(3, 8),
        _ => rng.range(30, 120),
    };
    let mut s = String::new();
    for _ in 0..n {
        s.push_str(*rng.pick(PIECES));
    }
    s
}

fn gen_header_name(rng: &mut Rng) -> String {
    const NAMES: &[&str] = &[
        "x-a", "X-A", "x-b", "retry-after", "Retry-After", "www-authenticate", "location", "x-request-id",
        "X-Request-Id", "X-REQUEST-ID", "content-type", "Content-Type", "content-length-hint", "set-cookie",
        "x-request-id2", "x-request-i", "a", "z", "x_under", "x.dot", "x!#$%&'*+-.^_`|~9",
    ];
    rng.pick(NAMES).to_string()
}

fn gen_header_value(rng: &mut Rng) -> Vec<u8> {
    let n = match rng.below(6) {
        0 => 0,
        1..=4 => rng.range(1, 6),
        _ => rng.range(10, 40),
    } as usize;
    (0..n)
        .map(|_| match rng.below(8) {
            0 => b'\t',
            1 => b' ',
            2 => rng.range(0x80, 0xff) as u8,
            3 => *rng.pick(&[b'"', b'\\', b',', b';', b':', b'~', b'!']),
            _ => rng.range(0x21, 0x7e) as u8,
        })
        .collect()
}

fn gen_request_id(rng: &mut Rng) -> String {
    match rng.below(6) {
        0 => "real-id".to_string(),
        1 => {
            // valid header value with JSON-special and non-ASCII characters
            let mut s = String::new();
            for _ in 0..rng.range(1, 8) {
                s.push_str(*rng.pick(&["\"", "\\", "é", "a", " ", "\t", "😀", "}", ":", "~", "-"]));
            }
            s
        }
        _ => {
            // uuid-shaped, from our own PRNG
            let a = rng.next();
            let b = rng.next();
            format!(
                "{:08x}-{:04x}-4{:03x}-{:04x}-{:012x}",
                a >> 32,
                (a >> 16) & 0xffff,
                a & 0xfff,
                0x8000 | (b >> 48) & 0x3fff,
                b & 0xffff_ffff_ffff
            )
        }
    }
}

fn code_enc(c: &Option<String>) -> String {
    match c {
        None => "N".to_string(),
        Some(s) => format!("S{}", hex(s.as_bytes())),
    }
}

fn opt_hex(s: &Option<String>) -> String {
    match s {
        None => "_".to_string(),
        Some(s) => hex(s.as_bytes()),
    }
}

struct IrCase {
    ctor: &'static str,
    status: u16,
    code: Option<String>,
    msg: Option<String>,
    /// `Some`: passed to the constructor if it takes an internal message,
    /// otherwise written into the pub field afterwards
    internal: Option<String>,
    /// a unique token that occurs only inside `internal` (leak check)
    nonce: Option<String>,
    headers: Vec<(String, Vec<u8>)>,
    reqid: String,
}

fn ir_case(out: &mut Out, id: &mut u64, c: IrCase) {
    *id += 1;
    let reason = http::StatusCode::from_u16(c.status).ok().and_then(|s| s.canonical_reason());
    let mut line = format!(
        "ir {} {} {} {} {} {} {} {} {}",
        id,
        c.ctor,
        c.status,
        code_enc(&c.code),
        opt_hex(&c.msg),
        opt_hex(&c.internal),
        opt_hex(&c.nonce),
        match reason {
            None => "_".to_string(),
            Some(r) => hex(r.as_bytes()),
        },
        c.headers.len()
    );
    for (n, v) in &c.headers {
        line.push_str(&format!(" {} {}", hex(n.as_bytes()), hex(v)));
    }
    line.push_str(&format!(" {} =>", hex(c.reqid.as_bytes())));

    let IrCase { ctor, status, code, msg, internal, headers, reqid, .. } = c;
    let built = catch(move || {
        let mut e = match ctor {
            "lit" => HttpError {
                status_code: E::from_u16(status).unwrap(),
                error_code: code,
                external_message: msg.clone().unwrap(),
                internal_message: internal.clone().unwrap_or_default(),
                headers: None,
            },
            "fce" => HttpError::for_client_error(code, C::from_u16(status).unwrap(), msg.clone().unwrap()),
            "fbr" => HttpError::for_bad_request(code, msg.clone().unwrap()),
            "fcs" => HttpError::for_client_error_with_status(code, C::from_u16(status).unwrap()),
            "fie" => HttpError::for_internal_error(internal.clone().unwrap()),
            "fua" => HttpError::for_unavail(code, internal.clone().unwrap()),
            "fnf" => HttpError::for_not_found(code, internal.clone().unwrap()),
            _ => unreachable!(),
        };
        if matches!(ctor, "fce" | "fbr" | "fcs") {
            if let Some(i) = &internal {
                e.internal_message = i.clone();
            }
        }
        for (i, (n, v)) in headers.iter().enumerate() {
            if i % 2 == 0 {
                e = e.with_header(n.as_str(), v.as_slice()).expect("valid header");
            } else {
                e.add_header(n.as_str(), v.as_slice()).expect("valid header");
            }
        }
        let rsp = e.into_response(&reqid);
        let (parts, body) = rsp.into_parts();
        let body = futures::executor::block_on(body.collect()).unwrap().to_bytes().to_vec();
        (parts, body)
    });
    match built {
        Err(_) => line.push_str(" panic"),
        Ok((parts, body)) => {
            let mut names: Vec<String> = parts.headers.keys().map(|k| k.as_str().to_string()).collect();
            names.sort();
            names.dedup();
            let mut pairs = Vec::new();
            for n in &names {
                for v in parts.headers.get_all(n.as_str()) {
                    pairs.push((n.clone(), v.as_bytes().to_vec()));
                }
            }
            line.push_str(&format!(" {} {}", parts.status.as_u16(), pairs.len()));
            for (n, v) in &pairs {
                line.push_str(&format!(" {} {}", hex(n.as_bytes()), hex(v)));
            }
            line.push_str(&format!(" {}", hex(&body)));
            // what a JSON client sees (serde_json as the reference parser)
            match serde_json::from_slice::<serde_json::Value>(&body) {
                Ok(serde_json::Value::Object(m)) => {
                    let mut keys: Vec<&str> = m.keys().map(|k| k.as_str()).collect();
                    keys.sort();
                    let f = |k: &str| match m.get(k) {
                        Some(serde_json::Value::String(s)) => format!("S{}", hex(s.as_bytes())),
                        Some(_) => "X".to_string(),
                        None => "N".to_string(),
                    };
                    line.push_str(&format!(
                        " {} {} {} {}",
                        keys.join(","),
                        f("request_id"),
                        f("error_code"),
                        f("message")
                    ));
                }
                _ => line.push_str(" badjson N N N"),
            }
        }
    }
    out.line(&line);
}

fn nonce(rng: &mut Rng, id: u64) -> String {
    format!("NONCE-{}-{:016x}-internal detail", id, rng.next())
}

fn ir_stream(out: &mut Out, id: &mut u64, rng: &mut Rng, thorough: bool) {
    // --- must-pass corpus: the two repaired defects
    for st in 400..500u16 {
        for code in [None, Some("E".to_string())] {
            let internal = Some(nonce(rng, *id));
            ir_case(out, id, IrCase { ctor: "fcs", status: st, code, msg: None, nonce: internal.clone(), internal, headers: vec![], reqid: "real-id".into() });
        }
    }
    for name in ["x-request-id", "X-Request-Id", "X-REQUEST-ID", "content-type", "Content-Type", "CONTENT-TYPE"] {
        for extra in [false, true] {
            let mut headers = vec![(name.to_string(), b"bogus".to_vec())];
            if extra {
                headers.push(("x-a".into(), b"1".to_vec()));
                headers.push((name.to_ascii_lowercase(), b"bogus2".to_vec()));
                headers.push(("x-a".into(), b"2".to_vec()));
            }
            let internal = Some(nonce(rng, *id));
            ir_case(out, id, IrCase { ctor: "fbr", status: 400, code: None, msg: Some("m".into()), nonce: internal.clone(), internal, headers, reqid: "real-id".into() });
        }
    }
    // --- every representable status through the struct literal and for_client_error
    for st in 400..600u16 {
        let internal = Some(nonce(rng, *id));
        ir_case(out, id, IrCase { ctor: "lit", status: st, code: None, msg: Some(gen_text(rng)), nonce: internal.clone(), internal, headers: vec![], reqid: gen_request_id(rng) });
        if st < 500 {
            let internal = if st % 3 == 0 { None } else { Some(nonce(rng, *id)) };
            ir_case(out, id, IrCase { ctor: "fce", status: st, code: Some(gen_text(rng)), msg: Some(gen_text(rng)), nonce: internal.clone(), internal, headers: vec![], reqid: gen_request_id(rng) });
        }
    }
    // --- random
    let n = if thorough { 500_000 } else { 50_000 };
    const CTORS: &[&str] = &["lit", "fce", "fbr", "fcs", "fie", "fua", "fnf"];
    for i in 0..n {
        let ctor = CTORS[i % CTORS.len()];
        let status = match ctor {
            "lit" => *rng.pick(&[400u16, 404, 418, 444, 499, 500, 503, 555, 599, 451, 425]),
            "fce" | "fcs" => *rng.pick(&[400u16, 401, 404, 409, 419, 425, 444, 451, 499]),
            "fbr" => 400,
            "fie" => 500,
            "fua" => 503,
            _ => 404,
        };
        let code = if ctor == "fie" { None } else if rng.chance(1, 3) { None } else { Some(gen_text(rng)) };
        let msg = if matches!(ctor, "lit" | "fce" | "fbr") { Some(gen_text(rng)) } else { None };
        let takes_internal = matches!(ctor, "lit" | "fie" | "fua" | "fnf");
        let (internal, nn) = if takes_internal || rng.chance(2, 3) {
            // mostly a nonce (leak check); sometimes an arbitrary text around it
            let nn = nonce(rng, *id);
            (Some(if rng.chance(1, 4) { format!("{}{}{}", gen_text(rng), nn, gen_text(rng)) } else { nn.clone() }), Some(nn))
        } else {
            (None, None)
        };
        let nh = match rng.below(5) {
            0 | 1 => 0,
            2 => 1,
            3 => 2,
            _ => rng.range(3, 6),
        };
        let mut headers = Vec::new();
        for _ in 0..nh {
            headers.push((gen_header_name(rng), gen_header_value(rng)));
        }
        ir_case(out, id, IrCase { ctor, status, code, msg, internal, nonce: nn, headers, reqid: gen_request_id(rng) });
    }
}

// ---------------------------------------------------------------- lv

#[derive(Serialize, JsonSchema)]
struct Seen {
    seen: String,
}

#[derive(Deserialize, JsonSchema)]
struct ErrPath {
    ctor: String,
    status: u16,
}

#[derive(Deserialize, JsonSchema)]
struct ErrQuery {
    nonce: String,
    bogus: Option<String>,
}

#[derive(Deserialize, JsonSchema)]
struct StatusPath {
    status: u16,
}

#[derive(Deserialize, JsonSchema)]
struct Typed {
    #[allow(dead_code)]
    n: u32,
}

/// A user-defined error type (the `HandlerError::Handler` path).
#[derive(Debug, Serialize, JsonSchema)]
struct MyError {
    message: String,
    seen: String,
    #[serde(skip)]
    internal: String,
    #[serde(skip)]
    status: E,
}

impl From<HttpError> for MyError {
    fn from(e: HttpError) -> Self {
        MyError { message: e.external_message, seen: String::new(), internal: e.internal_message, status: e.status_code }
    }
}

impl std::fmt::Display for MyError {
    fn fmt(&self, f: &mut std::fmt::Formatter) -> std::fmt::Result {
        f.write_str(&self.internal)
    }
}

impl HttpResponseError for MyError {
    fn status_code(&self) -> E {
        self.status
    }
}

#[endpoint { method = GET, path = "/ok" }]
async fn h_ok(rqctx: RequestContext<()>) -> Result<HttpResponseOk<Seen>, HttpError> {
    Ok(HttpResponseOk(Seen { seen: rqctx.request_id.clone() }))
}

/// A hand-built success response that tries to set its own x-request-id.
/// A websocket channel: the 101 is the final answer to the upgrade request; the
/// handler reports the id it was given as raw bytes on the upgraded connection.
#[dropshot::channel { protocol = WEBSOCKETS, path = "/ws" }]
async fn h_ws(rqctx: RequestContext<()>, upgraded: dropshot::WebsocketConnection) -> dropshot::WebsocketChannelResult {
    use tokio::io::AsyncWriteExt;
    let mut io = upgraded.into_inner();
    io.write_all(rqctx.request_id.as_bytes()).await?;
    io.shutdown().await?;
    Ok(())
}

#[endpoint { method = GET, path = "/okhdr" }]
async fn h_okhdr(rqctx: RequestContext<()>) -> Result<hyper::Response<dropshot::Body>, HttpError> {
    let body = serde_json::to_string(&Seen { seen: rqctx.request_id.clone() }).unwrap();
    Ok(hyper::Response::builder()
        .status(200)
        .header("x-request-id", "bogus")
        .header("x-request-id", "bogus2")
        .header("content-type", "application/json")
        .body(body.into())
        .unwrap())
}

#[endpoint { method = GET, path = "/err/{ctor}/{status}" }]
async fn h_err(
    rqctx: RequestContext<()>,
    path: Path<ErrPath>,
    query: Query<ErrQuery>,
) -> Result<HttpResponseOk<Seen>, HttpError> {
    let p = path.into_inner();
    let q = query.into_inner();
    let mut e = match p.ctor.as_str() {
        "lit" => HttpError {
            status_code: E::from_u16(p.status).unwrap(),
            error_code: Some("Lit".into()),
            external_message: "external".into(),
            internal_message: q.nonce.clone(),
            headers: None,
        },
        "fce" => HttpError::for_client_error(None, C::from_u16(p.status).unwrap(), "external".into()),
        "fbr" => HttpError::for_bad_request(Some("Bad".into()), "external".into()),
        "fcs" => HttpError::for_client_error_with_status(None, C::from_u16(p.status).unwrap()),
        "fie" => HttpError::for_internal_error(q.nonce.clone()),
        "fua" => HttpError::for_unavail(None, q.nonce.clone()),
        _ => HttpError::for_not_found(None, q.nonce.clone()),
    };
    e.internal_message = q.nonce.clone();
    e.add_header("x-seen", rqctx.request_id.as_str()).unwrap();
    if q.bogus.is_some() {
        e.add_header("X-Request-Id", "bogus").unwrap();
    }
    Err(e)
}

#[endpoint { method = GET, path = "/custom/{status}" }]
async fn h_custom(
    rqctx: RequestContext<()>,
    path: Path<StatusPath>,
    query: Query<ErrQuery>,
) -> Result<HttpResponseOk<Seen>, MyError> {
    Err(MyError {
        message: "custom external".into(),
        seen: rqctx.request_id.clone(),
        internal: query.into_inner().nonce,
        status: E::from_u16(path.into_inner().status).unwrap(),
    })
}

#[endpoint { method = POST, path = "/typed" }]
async fn h_typed(rqctx: RequestContext<()>, _b: TypedBody<Typed>) -> Result<HttpResponseOk<Seen>, HttpError> {
    Ok(HttpResponseOk(Seen { seen: rqctx.request_id.clone() }))
}

#[endpoint { method = POST, path = "/customtyped" }]
async fn h_customtyped(rqctx: RequestContext<()>, _b: TypedBody<Typed>) -> Result<HttpResponseOk<Seen>, MyError> {
    Ok(HttpResponseOk(Seen { seen: rqctx.request_id.clone() }))
}

#[derive(Serialize, JsonSchema)]
struct DeclH {
    x_one: String,
}

#[derive(Deserialize, JsonSchema)]
struct DeclQuery {
    hdr: Option<String>,
}

/// A typed success response with a declared header; with `?hdr=1` the handler
/// also puts its own x-request-id values into `headers_mut()`.
#[endpoint { method = GET, path = "/okdecl" }]
async fn h_okdecl(
    rqctx: RequestContext<()>,
    q: Query<DeclQuery>,
) -> Result<dropshot::HttpResponseHeaders<HttpResponseOk<Seen>, DeclH>, HttpError> {
    let mut r = dropshot::HttpResponseHeaders::new(
        HttpResponseOk(Seen { seen: rqctx.request_id.clone() }),
        DeclH { x_one: "declared".into() },
    );
    if q.into_inner().hdr.is_some() {
        r.headers_mut().insert("x-request-id", http::HeaderValue::from_static("bogus"));
        r.headers_mut().append("x-request-id", http::HeaderValue::from_static("bogus2"));
    }
    Ok(r)
}

#[derive(Clone)]
struct LvReq {
    /// scenario label understood by the driver
    scen: String,
    /// status the scenario is meant to produce
    status: u16,
    bogus: bool,
    nonce: String,
    method: &'static str,
    target: String,
    ctype_json: bool,
    body: &'static [u8],
    /// what the client puts into its own `x-request-id` request header
    cid: &'static str,
    /// the value for the fixed kinds (`replay` is filled in at send time)
    cid_value: Option<String>,
}

struct LvObs {
    status: u16,
    xrids: Vec<String>,
    ctype: String,
    seen: Option<String>,
    body_id: Option<String>,
    leak: bool,
    well_formed: bool,
    /// the response id is the client-supplied one (raw or as a normalised UUID)
    adopt: bool,
}

fn gen_uuid(rng: &mut Rng) -> uuid::Uuid {
    let a = rng.next();
    let b = rng.next();
    uuid::Builder::from_random_bytes(((a as u128) << 64 | b as u128).to_be_bytes()).into_uuid()
}

/// One UUID sent by every connection, in both server modes, many times.
const GLOBAL_REPEAT: &str = "6f1c0d9e-7a52-4b1e-9c3d-2f8e5a7b4c10";

fn lv_requests(rng: &mut Rng, n: usize, conn: usize) -> Vec<LvReq> {
    let mut v = Vec::new();
    // a UUID this connection repeats on consecutive requests
    let mut conn_repeat = gen_uuid(rng).hyphenated().to_string();
    let mut repeat_left = 0u32;
    for i in 0..n {
        let nonce = format!("NONCE-{}-{}-{:016x}", conn, i, rng.next());
        let mut bogus = rng.chance(1, 4);
        let q = format!("?nonce={}{}", nonce, if bogus { "&bogus=1" } else { "" });
        let (scen, status, method, target, ctype_json, body): (String, u16, &'static str, String, bool, &'static [u8]) =
            match rng.below(18) {
                14 => ("ws".into(), 101, "GET", "/ws".into(), false, b""),
                // other forms of the request target and the methods that go with them: the
                // server-wide `OPTIONS *`, an absolute-form target, OPTIONS on a resource
                15 => ("fw-404".into(), 404, "OPTIONS", "*".into(), false, b""),
                16 => ("fw-404".into(), 404, "GET", format!("http://localhost/nope/abs{}", i), false, b""),
                17 => ("fw-405".into(), 405, "OPTIONS", "/ok".into(), false, b""),
                0 => ("ok".into(), 200, "GET", "/ok".into(), false, b""),
                1 => ("okhdr".into(), 200, "GET", "/okhdr".into(), false, b""),
                2 | 3 | 4 => {
                    let ctor = *rng.pick(&["lit", "fce", "fbr", "fcs", "fie", "fua", "fnf"]);
                    let st = match ctor {
                        "lit" => *rng.pick(&[400u16, 418, 444, 500, 503, 555, 599]),
                        "fce" | "fcs" => *rng.pick(&[400u16, 404, 409, 444, 499]),
                        "fbr" => 400,
                        "fie" => 500,
                        "fua" => 503,
                        _ => 404,
                    };
                    (format!("herr-{}", ctor), st, "GET", format!("/err/{}/{}{}", ctor, st, q), false, b"")
                }
                5 | 6 => {
                    let st = *rng.pick(&[400u16, 404, 444, 500, 503, 599]);
                    ("custom".into(), st, "GET", format!("/custom/{}{}", st, q), false, b"")
                }
                7 => ("fw-404".into(), 404, "GET", format!("/nope/{}", i), false, b""),
                8 => ("fw-405".into(), 405, "DELETE", "/ok".into(), false, b""),
                9 => ("fw-400".into(), 400, "POST", "/typed".into(), true, b"{\"n\": \"x\"}"),
                10 => ("fwcustom-400".into(), 400, "POST", "/customtyped".into(), true, b"{"),
                11 => ("okdecl".into(), 200, "GET", "/okdecl".into(), false, b""),
                12 => ("okdeclhdr".into(), 200, "GET", "/okdecl?hdr=1".into(), false, b""),
                _ => ("typed-ok".into(), 200, "POST", "/typed".into(), true, b"{\"n\": 7}"),
            };
        if !scen.starts_with("herr-") {
            bogus = false;
        }
        // the client's own x-request-id request header
        let (cid, cid_value): (&'static str, Option<String>) = if repeat_left > 0 {
            repeat_left -= 1;
            ("repeat-conn", Some(conn_repeat.clone()))
        } else {
            match rng.below(20) {
                0..=8 => ("none", None),
                9 => ("uuid-hyphenated", Some(gen_uuid(rng).hyphenated().to_string())),
                10 => ("uuid-simple", Some(gen_uuid(rng).simple().to_string())),
                11 => ("uuid-upper", Some(gen_uuid(rng).hyphenated().to_string().to_uppercase())),
                12 => ("uuid-braced", Some(gen_uuid(rng).braced().to_string())),
                13 => ("uuid-urn", Some(gen_uuid(rng).urn().to_string())),
                14 => (
                    "garbage",
                    Some(rng.pick(&["not-a-uuid", "", "0", "../../etc", "\"quoted\"", "1234; drop", "zzzzzzzz-zzzz-zzzz-zzzz-zzzzzzzzzzzz"]).to_string()),
                ),
                15 | 16 => {
                    if i == 0 {
                        ("none", None)
                    } else {
                        ("replay", None)
                    }
                }
                17 => {
                    conn_repeat = gen_uuid(rng).hyphenated().to_string();
                    repeat_left = rng.range(1, 4) as u32;
                    ("repeat-conn", Some(conn_repeat.clone()))
                }
                _ => ("repeat-global", Some(GLOBAL_REPEAT.to_string())),
            }
        };
        v.push(LvReq { scen, status, bogus, nonce, method, target, ctype_json, body, cid, cid_value });
    }
    v
}

fn contains(hay: &[u8], needle: &[u8]) -> bool {
    !needle.is_empty() && hay.windows(needle.len()).any(|w| w == needle)
}

fn lv_observe(req: &LvReq, sent_cid: &Option<String>, r: &RawResponse) -> LvObs {
    let xrids: Vec<String> = r.header_all("x-request-id").iter().map(|s| s.to_string()).collect();
    let ctype = r.header("content-type").unwrap_or("none").to_string();
    let json: Option<serde_json::Value> = serde_json::from_slice(&r.body).ok();
    let field = |k: &str| -> Option<String> {
        json.as_ref().and_then(|j| j.get(k)).and_then(|v| v.as_str()).map(|s| s.to_string())
    };
    // the id the handler saw: echoed in the body (`seen`) or, for HttpError, in x-seen
    let seen = field("seen").filter(|s| !s.is_empty()).or_else(|| r.header("x-seen").map(|s| s.to_string()));
    let body_id = field("request_id");
    let mut all = r.body.clone();
    for (n, v) in &r.headers {
        all.extend_from_slice(n.as_bytes());
        all.push(b'\n');
        all.extend_from_slice(v.as_bytes());
        all.push(b'\n');
    }
    all.extend_from_slice(r.reason.as_bytes());
    let adopt = match sent_cid {
        None => false,
        Some(c) => {
            let norm = uuid::Uuid::parse_str(c).ok().map(|u| u.hyphenated().to_string());
            xrids.iter().any(|x| x == c.trim() || Some(x) == norm.as_ref())
        }
    };
    LvObs {
        status: r.status,
        xrids,
        ctype,
        seen,
        body_id,
        leak: contains(&all, req.nonce.as_bytes()),
        well_formed: r.well_formed,
        adopt,
    }
}

fn lv_stream(out: &mut Out, id: &mut u64, thorough: bool) {
    let rt = tokio::runtime::Builder::new_multi_thread().worker_threads(4).enable_all().build().unwrap();
    // no id may occur on two responses in the whole run, across both servers
    let mut all_ids: HashSet<String> = HashSet::new();
    for (mode_no, (mode, mode_label)) in
        [(dropshot::HandlerTaskMode::Detached, "detached"), (dropshot::HandlerTaskMode::CancelOnDisconnect, "cancel")]
            .into_iter()
            .enumerate()
    {
        let server = rt.block_on(async {
            let mut api = ApiDescription::new();
            api.register(h_ok).unwrap();
            api.register(h_okhdr).unwrap();
            api.register(h_ws).unwrap();
            api.register(h_okdecl).unwrap();
            api.register(h_err).unwrap();
            api.register(h_custom).unwrap();
            api.register(h_typed).unwrap();
            api.register(h_customtyped).unwrap();
            start_server(api, (), ServerOpts { mode, ..Default::default() })
        });
        let addr = server.local_addr();
        let conns = 8usize;
        let per_conn = if thorough { 12_000 } else { 1_500 };
        let mut handles = Vec::new();
        for c in 0..conns {
            let mut rng = Rng::from_env(1300 + 100 * mode_no as u64 + c as u64);
            let reqs = lv_requests(&mut rng, per_conn, c);
            handles.push(std::thread::spawn(move || {
                let mut results: Vec<(LvReq, Option<LvObs>)> = Vec::new();
                let mut rr: Option<RespReader> = None;
                // the id on the previous response of this connection (for replays)
                let mut earlier: Vec<String> = Vec::new();
                for (i, req) in reqs.into_iter().enumerate() {
                    let sent_cid: Option<String> = match req.cid {
                        "replay" => Some(earlier[(i * 7) % earlier.len()].clone()),
                        _ => req.cid_value.clone(),
                    };
                    let mut hdrs: Vec<(&str, &str)> = Vec::new();
                    if req.ctype_json {
                        hdrs.push(("content-type", "application/json"));
                    }
                    if let Some(c) = &sent_cid {
                        hdrs.push(("X-Request-Id", c.as_str()));
                    }
                    if req.scen == "ws" {
                        hdrs.push(("connection", "Upgrade"));
                        hdrs.push(("upgrade", "websocket"));
                        hdrs.push(("sec-websocket-version", "13"));
                        hdrs.push(("sec-websocket-key", "dGhlIHNhbXBsZSBub25jZQ=="));
                    }
                    let mut raw = build_request(req.method, &req.target, &hdrs, req.body);
                    let mut obs = None;
                    // the contract does not depend on the protocol version of the request: some
                    // requests go over HTTP/2 (own connection), some with an HTTP/1.0 request line
                    if req.scen != "ws" && i % 9 == 4 {
                        if let Some(resp) = h2_roundtrip(addr, req.method, &req.target, &hdrs, req.body, true) {
                            let o = lv_observe(&req, &sent_cid, &resp);
                            if let Some(x) = o.xrids.last() {
                                if earlier.len() < 64 {
                                    earlier.push(x.clone());
                                }
                            }
                            obs = Some(o);
                        }
                    }
                    let http10 = req.scen != "ws" && i % 9 == 7;
                    if http10 {
                        raw = String::from_utf8_lossy(&raw).replacen(" HTTP/1.1\r\n", " HTTP/1.0\r\n", 1).into_bytes();
                        rr = None; // its own connection (the server closes it after the response)
                    }
                    // a keep-alive connection, re-opened if the server closed it
                    for _attempt in 0..3 {
                        if obs.is_some() {
                            break;
                        }
                        if rr.is_none() {
                            match connect(addr) {
                                Ok(s) => rr = Some(RespReader::new(s)),
                                Err(_) => {
                                    std::thread::sleep(std::time::Duration::from_millis(50));
                                    continue;
                                }
                            }
                        }
                        let r = rr.as_mut().unwrap();
                        if r.stream.write_all(&raw).is_err() {
                            rr = None;
                            continue;
                        }
                        match r.read_response(false) {
                            Some(mut resp) if resp.well_formed => {
                                let mut close =
                                    resp.header("connection").map(|v| v.eq_ignore_ascii_case("close")).unwrap_or(false);
                                if req.scen == "ws" {
                                    // what the channel handler wrote after the upgrade: the id it saw
                                    let _ = r.stream.set_read_timeout(Some(std::time::Duration::from_secs(5)));
                                    let after = r.drain_to_eof();
                                    resp.body = format!("{{\"seen\":\"{}\"}}", String::from_utf8_lossy(&after)).into_bytes();
                                    close = true;
                                }
                                let o = lv_observe(&req, &sent_cid, &resp);
                                if let Some(x) = o.xrids.last() {
                                    if earlier.len() < 64 {
                                        earlier.push(x.clone());
                                    } else {
                                        let k = i % 64;
                                        earlier[k] = x.clone();
                                    }
                                }
                                obs = Some(o);
                                if close || http10 {
                                    rr = None;
                                }
                                break;
                            }
                            _ => {
                                rr = None;
                            }
                        }
                    }
                    if earlier.is_empty() {
                        // never replay into the void
                        earlier.push("00000000-0000-4000-8000-000000000000".to_string());
                    }
                    results.push((req, obs));
                }
                results
            }));
        }
        for h in handles {
            for (req, obs) in h.join().unwrap() {
                *id += 1;
                let head =
                    format!("lv {} {} {} {} {} {} =>", id, mode_label, req.scen, req.status, req.bogus as u8, req.cid);
                match obs {
                    None => out.line(&format!("{} noresponse", head)),
                    Some(o) => {
                        let first = o.xrids.first().cloned();
                        // every value on this response must be new in the run
                        let mut fresh = !o.xrids.is_empty();
                        for x in &o.xrids {
                            if !all_ids.insert(x.clone()) {
                                fresh = false;
                            }
                        }
                        let eq = |a: &Option<String>, b: &Option<String>| match (a, b) {
                            (Some(a), Some(b)) => ((a == b) as u8).to_string(),
                            _ => "na".to_string(),
                        };
                        out.line(&format!(
                            "{} {} {} {} {} {} {} {} {} {}",
                            head,
                            o.status,
                            o.xrids.len(),
                            eq(&first, &o.seen),
                            eq(&first, &o.body_id),
                            fresh as u8,
                            o.leak as u8,
                            if o.ctype == "application/json" { "json" } else { "other" },
                            o.well_formed as u8,
                            o.adopt as u8,
                        ));
                    }
                }
            }
        }
        rt.block_on(async {
            let _ = server.close().await;
        });
    }
}

fn main() {
    quiet_panics();
    let mut out = Out::new();
    let mut rng = Rng::from_env(13);
    let thorough = is_thorough();
    let mut id: u64 = 100_000;
    eu_stream(&mut out);
    ct_stream(&mut out, &mut id);
    ir_stream(&mut out, &mut id, &mut rng, thorough);
    lv_stream(&mut out, &mut id, thorough);
    out.flush();
}
