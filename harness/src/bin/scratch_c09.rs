use dropshot::endpoint;
use dropshot::ApiDescription;
use dropshot::HttpError;
use dropshot::HttpResponseOk;
use dropshot::Path;
use dropshot::RequestContext;
use dsharness::server::*;
use dsharness::util::*;
use schemars::JsonSchema;
use serde::Deserialize;
use serde::Serialize;

#[derive(Deserialize, Serialize, JsonSchema, Debug)]
struct PU { x: () }
#[endpoint { method = GET, path = "/unit/{x}" }]
async fn unit_ep(_rq: RequestContext<()>, p: Path<PU>) -> Result<HttpResponseOk<String>, HttpError> {
    Ok(HttpResponseOk(format!("{:?}", p.into_inner())))
}
#[derive(Deserialize, Serialize, JsonSchema, Debug)]
struct PT { x: (u8, u8) }
#[endpoint { method = GET, path = "/tup/{x}" }]
async fn tup_ep(_rq: RequestContext<()>, p: Path<PT>) -> Result<HttpResponseOk<String>, HttpError> {
    Ok(HttpResponseOk(format!("{:?}", p.into_inner())))
}
#[derive(Deserialize, Serialize, JsonSchema, Debug)]
enum EN { A(u8), B }
#[derive(Deserialize, Serialize, JsonSchema, Debug)]
struct PE { x: EN }
#[endpoint { method = GET, path = "/en/{x}" }]
async fn en_ep(_rq: RequestContext<()>, p: Path<PE>) -> Result<HttpResponseOk<String>, HttpError> {
    Ok(HttpResponseOk(format!("{:?}", p.into_inner())))
}
#[derive(Deserialize, Serialize, JsonSchema, Debug)]
struct PO { x: Option<u8> }
#[endpoint { method = GET, path = "/opt/{x}" }]
async fn opt_ep(_rq: RequestContext<()>, p: Path<PO>) -> Result<HttpResponseOk<String>, HttpError> {
    Ok(HttpResponseOk(format!("{:?}", p.into_inner())))
}

fn main() {
    quiet_panics();
    let rt = tokio::runtime::Builder::new_multi_thread().enable_all().build().unwrap();
    rt.block_on(async {
        let mut api = ApiDescription::new();
        println!("reg unit: {:?}", api.register(unit_ep).map_err(|e| e.to_string()));
        println!("reg tup: {:?}", api.register(tup_ep).map_err(|e| e.to_string()));
        println!("reg en: {:?}", api.register(en_ep).map_err(|e| e.to_string()));
        println!("reg opt: {:?}", api.register(opt_ep).map_err(|e| e.to_string()));
        let server = start_server(api, (), ServerOpts::default());
        let addr = server.local_addr();
        for q in ["/unit/a", "/tup/a", "/en/A", "/en/B", "/en/C", "/opt/1", "/opt/x"] {
            let req = build_request("GET", q, &[], b"");
            let r = tokio::task::spawn_blocking(move || roundtrip(addr, &req, false)).await.unwrap();
            match r { Some(r) => println!("{:?} => {} {} {}", q, r.status, r.problem, String::from_utf8_lossy(&r.body).replace('\n', " ")), None => println!("{:?} => NO RESPONSE", q) }
        }
        server.close().await.unwrap();
    });
}
