//! C07 correspondence harness: a fixed family of endpoints written with the
//! real `#[endpoint]` macro over hand-written types covering the `Ty` grammar
//! (serde default / rename / flatten, Option, newtypes, string enums, nested
//! structs, vectors, maps, all integer widths, NonZero, uuid, unit) x all typed
//! response kinds.  A live server is started, the OpenAPI document is generated
//! (`api.openapi(..).json()`), and then requests are derived FROM THE DOCUMENT
//! ALONE: valid ones (required parameters filled with schema-valid values,
//! optional ones sometimes, valid body), the same minus each required
//! parameter, a schema-invalid body, a wrong content type.
//!
//! Line:
//!   rq <id> <variant> <endpoint-desc> <operation> <components> <request>
//!        => <status> <content-type|-> <body|-> <response headers as JSON>
//! all JSON, hex-encoded.  `endpoint-desc` is the hand-written `Ty`
//! description of the endpoint (for the model's prediction); everything the
//! spec needs is in `operation` + `components` (the transitive `$ref` closure).

use dropshot::endpoint;
use dropshot::ApiDescription;
use dropshot::HttpError;
use dropshot::HttpResponseAccepted;
use dropshot::HttpResponseCreated;
use dropshot::HttpResponseDeleted;
use dropshot::HttpResponseFound;
use dropshot::HttpResponseHeaders;
use dropshot::HttpResponseOk;
use dropshot::HttpResponseSeeOther;
use dropshot::HttpResponseTemporaryRedirect;
use dropshot::HttpResponseUpdatedNoContent;
use dropshot::Path;
use dropshot::Query;
use dropshot::RequestContext;
use dropshot::MultipartBody;
use dropshot::TypedBody;
use dropshot::UntypedBody;
use dsharness::server::*;
use dsharness::util::*;
use schemars::JsonSchema;
use serde::{Deserialize, Serialize};
use serde_json::{json, Map as JMap, Value};
use std::collections::BTreeMap;
use std::num::{NonZeroU16, NonZeroU32};
use uuid::Uuid;

// ---------------------------------------------------------------------------
// Ty descriptions (hand-written, independent of the derives) and samples

trait TyDesc {
    fn ty() -> Value;
}
trait Samples: Sized {
    fn samples() -> Vec<Self>;
}

macro_rules! desc_int {
    ($($t:ty, $bits:expr, $signed:expr, [$($s:expr),*]);* $(;)?) => {
        $( impl TyDesc for $t { fn ty() -> Value { json!({"int": [$bits, $signed]}) } }
           impl Samples for $t { fn samples() -> Vec<Self> { vec![$($s),*] } } )*
    };
}
desc_int! {
    u8, 8, false, [0, 7, 255];
    u16, 16, false, [0, 300, 65535];
    u32, 32, false, [0, 70000, u32::MAX];
    u64, 64, false, [0, 1 << 40, u64::MAX];
    i8, 8, true, [-128, -1, 0, 127];
    i16, 16, true, [-32768, 5, 32767];
    i32, 32, true, [i32::MIN, -7, i32::MAX];
    i64, 64, true, [i64::MIN, -1, 0, i64::MAX];
}
impl TyDesc for bool {
    fn ty() -> Value {
        json!("bool")
    }
}
impl Samples for bool {
    fn samples() -> Vec<Self> {
        vec![true, false]
    }
}
impl TyDesc for String {
    fn ty() -> Value {
        json!("str")
    }
}
impl Samples for String {
    fn samples() -> Vec<Self> {
        // (the last ones look like a number / a boolean: a string all the same)
        vec!["".into(), "plain".into(), "quo\"te\\ \n é ✓".into(), "7".into(), "true".into(), "1e3".into()]
    }
}
impl TyDesc for Uuid {
    fn ty() -> Value {
        json!("uuid")
    }
}
impl Samples for Uuid {
    fn samples() -> Vec<Self> {
        vec![Uuid::nil(), Uuid::from_u128(0x0123456789abcdef_0123456789abcdef)]
    }
}
impl TyDesc for () {
    fn ty() -> Value {
        json!("unit")
    }
}
impl Samples for () {
    fn samples() -> Vec<Self> {
        vec![()]
    }
}
impl TyDesc for NonZeroU32 {
    fn ty() -> Value {
        json!({"nonzero": 32})
    }
}
impl Samples for NonZeroU32 {
    fn samples() -> Vec<Self> {
        vec![NonZeroU32::new(1).unwrap(), NonZeroU32::new(u32::MAX).unwrap()]
    }
}
impl TyDesc for NonZeroU16 {
    fn ty() -> Value {
        json!({"nonzero": 16})
    }
}
impl Samples for NonZeroU16 {
    fn samples() -> Vec<Self> {
        vec![NonZeroU16::new(1).unwrap(), NonZeroU16::new(999).unwrap()]
    }
}
impl<T: TyDesc> TyDesc for Option<T> {
    fn ty() -> Value {
        json!({"opt": T::ty()})
    }
}
impl<T: Samples> Samples for Option<T> {
    fn samples() -> Vec<Self> {
        let mut v: Vec<Option<T>> = vec![None];
        v.extend(T::samples().into_iter().map(Some));
        v
    }
}
impl<T: TyDesc> TyDesc for Vec<T> {
    fn ty() -> Value {
        json!({"vec": T::ty()})
    }
}
impl<T: Samples> Samples for Vec<T> {
    fn samples() -> Vec<Self> {
        vec![vec![], T::samples()]
    }
}
impl<T: TyDesc> TyDesc for BTreeMap<String, T> {
    fn ty() -> Value {
        json!({"map": T::ty()})
    }
}
impl<T: Samples> Samples for BTreeMap<String, T> {
    fn samples() -> Vec<Self> {
        let full: BTreeMap<String, T> =
            T::samples().into_iter().enumerate().map(|(i, v)| (format!("k{}", i), v)).collect();
        vec![BTreeMap::new(), full]
    }
}

/// struct description: serialised field name, type, has `#[serde(default)]`
macro_rules! desc_struct {
    ($t:ty { $($name:expr => $ft:ty, $d:expr);* $(;)? }) => {
        impl TyDesc for $t {
            fn ty() -> Value { json!({"struct": [ $( [$name, <$ft as TyDesc>::ty(), $d] ),* ]}) }
        }
    };
}
fn struct_fields(v: &Value) -> Value {
    v["struct"].clone()
}

#[derive(Serialize, Deserialize, JsonSchema, Clone, Debug)]
#[serde(rename_all = "snake_case")]
enum Mode {
    Fast,
    Slow,
    VerySlow,
}
impl TyDesc for Mode {
    fn ty() -> Value {
        json!({"enum": ["fast", "slow", "very_slow"]})
    }
}
impl Samples for Mode {
    fn samples() -> Vec<Self> {
        vec![Mode::Fast, Mode::Slow, Mode::VerySlow]
    }
}

#[derive(Serialize, Deserialize, JsonSchema, Clone, Debug)]
struct Inner {
    x: u8,
    y: Option<String>,
}
desc_struct!(Inner { "x" => u8, false; "y" => Option<String>, false });
impl Samples for Inner {
    fn samples() -> Vec<Self> {
        vec![Inner { x: 0, y: None }, Inner { x: 255, y: Some("why".into()) }]
    }
}

/// Two different types with the same (schema) name, used in one API: schemars
/// publishes the second as `Item2`; each endpoint must still be documented with
/// its own type's schema.
mod inv {
    use super::*;
    #[derive(Serialize, Deserialize, JsonSchema, Clone, Debug)]
    pub struct Item {
        pub sku: String,
        pub count: u32,
    }
}
mod bill {
    use super::*;
    #[derive(Serialize, Deserialize, JsonSchema, Clone, Debug)]
    pub struct Item {
        pub amount: i64,
        pub paid: bool,
    }
}
desc_struct!(inv::Item { "sku" => String, false; "count" => u32, false });
desc_struct!(bill::Item { "amount" => i64, false; "paid" => bool, false });
impl Samples for inv::Item {
    fn samples() -> Vec<Self> {
        vec![inv::Item { sku: "widget".into(), count: 3 }, inv::Item { sku: String::new(), count: u32::MAX }]
    }
}
impl Samples for bill::Item {
    fn samples() -> Vec<Self> {
        vec![bill::Item { amount: -5, paid: false }, bill::Item { amount: i64::MAX, paid: true }]
    }
}

#[derive(Serialize, Deserialize, JsonSchema, Clone, Debug)]
struct NewU(u32);
impl TyDesc for NewU {
    fn ty() -> Value {
        u32::ty()
    }
}
impl Samples for NewU {
    fn samples() -> Vec<Self> {
        vec![NewU(0), NewU(12345)]
    }
}
/// An undocumented newtype around a *named* type: its definition is a bare reference, and the
/// enum behind it reaches the document through this query parameter alone.
#[derive(Serialize, Deserialize, JsonSchema, Clone, Debug)]
#[serde(rename_all = "snake_case")]
enum Tier {
    Gold,
    Silver,
}
impl TyDesc for Tier {
    fn ty() -> Value {
        json!({"enum": ["gold", "silver"]})
    }
}
#[derive(Serialize, Deserialize, JsonSchema, Clone, Debug)]
struct TierTag(Tier);
impl TyDesc for TierTag {
    fn ty() -> Value {
        Tier::ty()
    }
}
#[derive(Serialize, Deserialize, JsonSchema, Clone, Debug)]
struct NewS(String);
impl TyDesc for NewS {
    fn ty() -> Value {
        String::ty()
    }
}
impl Samples for NewS {
    fn samples() -> Vec<Self> {
        vec![NewS("n".into())]
    }
}

/// Outer docs.
#[derive(Serialize, Deserialize, JsonSchema, Clone, Debug)]
struct Outer {
    name: String,
    /// the inner
    inner: Inner,
    oi: Option<Inner>,
    tags: Vec<Mode>,
    limits: BTreeMap<String, NonZeroU16>,
    #[serde(default)]
    count: u32,
    mode: Option<Mode>,
    id: Uuid,
}
desc_struct!(Outer {
    "name" => String, false; "inner" => Inner, false; "oi" => Option<Inner>, false;
    "tags" => Vec<Mode>, false; "limits" => BTreeMap<String, NonZeroU16>, false;
    "count" => u32, true; "mode" => Option<Mode>, false; "id" => Uuid, false
});
impl Samples for Outer {
    fn samples() -> Vec<Self> {
        vec![
            Outer {
                name: "o".into(),
                inner: Inner { x: 1, y: None },
                oi: None,
                tags: vec![],
                limits: BTreeMap::new(),
                count: 0,
                mode: None,
                id: Uuid::nil(),
            },
            Outer {
                name: "p".into(),
                inner: Inner { x: 2, y: Some("s".into()) },
                oi: Some(Inner { x: 3, y: None }),
                tags: vec![Mode::Fast, Mode::VerySlow],
                limits: NonZeroU16::samples().into_iter().enumerate().map(|(i, v)| (format!("l{}", i), v)).collect(),
                count: 9,
                mode: Some(Mode::Slow),
                id: Uuid::from_u128(77),
            },
        ]
    }
}

#[derive(Serialize, Deserialize, JsonSchema, Clone, Debug)]
struct Widths {
    a: i8,
    b: i16,
    c: i32,
    d: i64,
    e: u8,
    f: u16,
    g: u32,
    h: u64,
}
desc_struct!(Widths {
    "a" => i8, false; "b" => i16, false; "c" => i32, false; "d" => i64, false;
    "e" => u8, false; "f" => u16, false; "g" => u32, false; "h" => u64, false
});
impl Samples for Widths {
    fn samples() -> Vec<Self> {
        vec![
            Widths { a: -128, b: -32768, c: i32::MIN, d: i64::MIN, e: 0, f: 0, g: 0, h: 0 },
            Widths { a: 127, b: 32767, c: i32::MAX, d: i64::MAX, e: 255, f: 65535, g: u32::MAX, h: u64::MAX },
        ]
    }
}

#[derive(Serialize, Deserialize, JsonSchema, Clone, Debug)]
struct Opts {
    m: Option<Mode>,
    i: Option<Inner>,
    n: Option<u32>,
    v: Option<Vec<u8>>,
}
desc_struct!(Opts {
    "m" => Option<Mode>, false; "i" => Option<Inner>, false; "n" => Option<u32>, false;
    "v" => Option<Vec<u8>>, false
});
impl Samples for Opts {
    fn samples() -> Vec<Self> {
        vec![
            Opts { m: None, i: None, n: None, v: None },
            Opts { m: Some(Mode::Fast), i: Some(Inner { x: 9, y: None }), n: Some(4), v: Some(vec![1, 2]) },
        ]
    }
}

#[derive(Serialize, Deserialize, JsonSchema, Clone, Debug)]
struct Dflt {
    #[serde(default)]
    a: u32,
    b: String,
    c: Option<bool>,
    #[serde(default)]
    d: Vec<u8>,
}
desc_struct!(Dflt { "a" => u32, true; "b" => String, false; "c" => Option<bool>, false; "d" => Vec<u8>, true });

#[derive(Serialize, Deserialize, JsonSchema, Clone, Debug)]
struct Renamed {
    #[serde(rename = "first-name")]
    first: String,
    #[serde(rename = "type")]
    ty: Mode,
    #[serde(rename = "camelCase")]
    camel: Option<u8>,
}
desc_struct!(Renamed { "first-name" => String, false; "type" => Mode, false; "camelCase" => Option<u8>, false });

#[derive(Serialize, Deserialize, JsonSchema, Clone, Debug)]
struct FlatIn {
    fx: String,
    fy: Option<String>,
}
#[derive(Serialize, Deserialize, JsonSchema, Clone, Debug)]
struct Flat {
    own: String,
    #[serde(flatten)]
    inner: FlatIn,
}
desc_struct!(Flat { "own" => String, false; "fx" => String, false; "fy" => Option<String>, false });

#[derive(Serialize, Deserialize, JsonSchema, Clone, Debug)]
struct FlatNumIn {
    fx: u16,
    fy: Option<bool>,
}
#[derive(Serialize, Deserialize, JsonSchema, Clone, Debug)]
struct FlatNum {
    own: u8,
    #[serde(flatten)]
    inner: FlatNumIn,
}
desc_struct!(FlatNum { "own" => u8, false; "fx" => u16, false; "fy" => Option<bool>, false });

/// Path parameters with a flattened part (string members).
#[derive(Serialize, Deserialize, JsonSchema, Clone, Debug)]
struct PFlatIn {
    b: String,
}
#[derive(Serialize, Deserialize, JsonSchema, Clone, Debug)]
struct PFlat {
    a: String,
    #[serde(flatten)]
    inner: PFlatIn,
}
desc_struct!(PFlat { "a" => String, false; "b" => String, false });
impl Samples for PFlat {
    fn samples() -> Vec<Self> {
        vec![
            PFlat { a: "x".into(), inner: PFlatIn { b: "y".into() } },
            PFlat { a: "7".into(), inner: PFlatIn { b: "007".into() } },
            PFlat { a: "true".into(), inner: PFlatIn { b: "1e3".into() } },
        ]
    }
}

// untagged enums with structurally overlapping variants
#[derive(Serialize, Deserialize, JsonSchema, Clone, Debug)]
#[serde(untagged)]
enum Shape {
    Plain { value: u32 },
    Labeled { value: u32, label: String },
}
impl TyDesc for Shape {
    fn ty() -> Value {
        json!({"untagged": [
            {"struct": [["value", u32::ty(), false]]},
            {"struct": [["value", u32::ty(), false], ["label", String::ty(), false]]}]})
    }
}
impl Samples for Shape {
    fn samples() -> Vec<Self> {
        vec![Shape::Plain { value: 1 }, Shape::Labeled { value: 2, label: "two".into() }]
    }
}
/// one variant is a subset of the other through an `Option` member
#[derive(Serialize, Deserialize, JsonSchema, Clone, Debug)]
#[serde(untagged)]
enum Sub {
    Full { x: u8, y: Option<String> },
    Bare { x: u8 },
}
impl TyDesc for Sub {
    fn ty() -> Value {
        json!({"untagged": [
            {"struct": [["x", u8::ty(), false], ["y", <Option<String>>::ty(), false]]},
            {"struct": [["x", u8::ty(), false]]}]})
    }
}
impl Samples for Sub {
    fn samples() -> Vec<Self> {
        vec![Sub::Bare { x: 3 }, Sub::Full { x: 4, y: None }, Sub::Full { x: 5, y: Some("y".into()) }]
    }
}
#[derive(Serialize, Deserialize, JsonSchema, Clone, Debug)]
#[serde(untagged)]
enum NumOrStr {
    N(u32),
    Big(u64),
    S(String),
}
impl TyDesc for NumOrStr {
    fn ty() -> Value {
        json!({"untagged": [u32::ty(), u64::ty(), String::ty()]})
    }
}
impl Samples for NumOrStr {
    fn samples() -> Vec<Self> {
        vec![NumOrStr::N(5), NumOrStr::Big(u64::MAX), NumOrStr::S("s".into())]
    }
}
// tagged enums (documented as oneOf): responses only, no Ty description
#[derive(Serialize, JsonSchema, Clone, Debug)]
enum External {
    A(u32),
    B { x: String },
    C,
}
impl Samples for External {
    fn samples() -> Vec<Self> {
        vec![External::A(1), External::B { x: "x".into() }, External::C]
    }
}
#[derive(Serialize, JsonSchema, Clone, Debug)]
#[serde(tag = "type")]
enum Internal {
    A { x: u8 },
    B { x: u8, y: String },
    C,
}
impl Samples for Internal {
    fn samples() -> Vec<Self> {
        vec![Internal::A { x: 1 }, Internal::B { x: 1, y: "y".into() }, Internal::C]
    }
}
#[derive(Serialize, JsonSchema, Clone, Debug)]
#[serde(tag = "t", content = "c")]
enum Adjacent {
    A(u32),
    B { y: bool },
    C,
}
impl Samples for Adjacent {
    fn samples() -> Vec<Self> {
        vec![Adjacent::A(1), Adjacent::B { y: true }, Adjacent::C]
    }
}
/// documented unit variants
#[derive(Serialize, JsonSchema, Clone, Debug)]
enum DocEnum {
    /// first
    A,
    /// second
    B,
    C,
}
impl Samples for DocEnum {
    fn samples() -> Vec<Self> {
        vec![DocEnum::A, DocEnum::B, DocEnum::C]
    }
}

// parameter structs
#[derive(Serialize, Deserialize, JsonSchema, Clone, Debug)]
struct SampleQ {
    n: Option<u32>,
}
desc_struct!(SampleQ { "n" => Option<u32>, false });

macro_rules! param_struct {
    ($name:ident { $($f:ident : $ft:ty),* }) => {
        #[derive(Serialize, Deserialize, JsonSchema, Clone, Debug)]
        struct $name { $($f: $ft),* }
        desc_struct!($name { $( stringify!($f) => $ft, false );* });
    };
}
param_struct!(PU32 { id: u32 });
param_struct!(PUuid { id: Uuid });
param_struct!(PStr { name: String });
param_struct!(PTwo { a: u8, b: Mode });
param_struct!(PNz { id: NonZeroU32 });
param_struct!(PI64 { v: i64 });
param_struct!(PNew { id: NewU });
param_struct!(PBool { flag: bool });
param_struct!(QReq { a: u32, b: String, c: bool });
param_struct!(QOpt { a: Option<u32>, b: Option<String>, m: Option<Mode> });
param_struct!(QNew { id: NewU, s: NewS });
param_struct!(QTier { t: TierTag, o: Option<TierTag> });
param_struct!(QInts { a: i8, b: u64, c: i64, d: u16 });
param_struct!(QUuid { id: Uuid, o: Option<Uuid> });
param_struct!(QNz { n: NonZeroU32 });
param_struct!(QVerbose { verbose: Option<bool>, level: u8 });
param_struct!(BEnum { m: Mode, o: Option<Mode> });
param_struct!(BOptInner { i: Option<Inner> });
param_struct!(Form { a: String, b: Option<String> });
param_struct!(Hdrs { x_count: String, x_note: String });
param_struct!(HdrsNum { x_num: u32 });

#[derive(Serialize, Deserialize, JsonSchema, Clone, Debug)]
struct QDflt {
    #[serde(default)]
    a: u32,
    b: String,
}
desc_struct!(QDflt { "a" => u32, true; "b" => String, false });

// ---------------------------------------------------------------------------
// endpoints

type Ctx = RequestContext<()>;

fn pick<T: Samples>(n: Option<u32>) -> T {
    let mut s = T::samples();
    let i = n.unwrap_or(0) as usize % s.len();
    s.swap_remove(i)
}

struct Ep {
    op: &'static str,
    method: &'static str,
    path: &'static str,
    desc: fn() -> Value,
}

fn d(
    path_ty: Option<Value>,
    query_ty: Option<Value>,
    body: Option<(Value, &str)>,
    resp_ty: Option<Value>,
    kind: &str,
    hdr_ty: Option<Value>,
) -> Value {
    json!({
        "pathTy": path_ty.map(|v| struct_fields(&v)),
        "queryTy": query_ty.map(|v| struct_fields(&v)),
        "bodyTy": body.as_ref().map(|b| b.0.clone()),
        "bodyCt": body.as_ref().map(|b| b.1),
        "respTy": resp_ty,
        "kind": kind,
        "hdrTy": hdr_ty.map(|v| struct_fields(&v)),
    })
}

macro_rules! ep_sample {
    ($f:ident, $path:expr, $t:ty) => {
        #[endpoint { method = GET, path = $path }]
        async fn $f(_rq: Ctx, q: Query<SampleQ>) -> Result<HttpResponseOk<$t>, HttpError> {
            Ok(HttpResponseOk(pick::<$t>(q.into_inner().n)))
        }
    };
}
macro_rules! ep_path {
    ($f:ident, $path:expr, $t:ty) => {
        #[endpoint { method = GET, path = $path }]
        async fn $f(_rq: Ctx, p: Path<$t>) -> Result<HttpResponseOk<$t>, HttpError> {
            Ok(HttpResponseOk(p.into_inner()))
        }
    };
}
macro_rules! ep_query {
    ($f:ident, $path:expr, $t:ty) => {
        #[endpoint { method = GET, path = $path }]
        async fn $f(_rq: Ctx, q: Query<$t>) -> Result<HttpResponseOk<$t>, HttpError> {
            Ok(HttpResponseOk(q.into_inner()))
        }
    };
}
macro_rules! ep_body {
    ($f:ident, $path:expr, $t:ty) => {
        #[endpoint { method = POST, path = $path }]
        async fn $f(_rq: Ctx, b: TypedBody<$t>) -> Result<HttpResponseOk<$t>, HttpError> {
            Ok(HttpResponseOk(b.into_inner()))
        }
    };
}

// custom error types: two different ones share their short name (`Error`); a request the
// framework refuses (a missing required parameter) is answered in the endpoint's own error
// type, which is what the document's 4XX response of that operation must describe
macro_rules! custom_error {
    ($m:ident, $field:ident, $fty:ty, $val:expr) => {
        mod $m {
            use super::*;
            #[derive(Debug, Serialize, JsonSchema)]
            pub struct Error {
                pub message: String,
                pub $field: $fty,
                #[serde(skip)]
                pub status: Option<dropshot::ErrorStatusCode>,
            }
            impl dropshot::HttpResponseError for Error {
                fn status_code(&self) -> dropshot::ErrorStatusCode {
                    self.status.unwrap_or(dropshot::ErrorStatusCode::BAD_REQUEST)
                }
            }
            impl From<HttpError> for Error {
                fn from(e: HttpError) -> Self {
                    Error { message: e.external_message, $field: $val, status: Some(e.status_code) }
                }
            }
            impl std::fmt::Display for Error {
                fn fmt(&self, f: &mut std::fmt::Formatter<'_>) -> std::fmt::Result {
                    write!(f, "{}", self.message)
                }
            }
        }
    };
}
custom_error!(disks, disk_state, String, "detached".to_string());
custom_error!(inst, code, u32, 17);

#[endpoint { method = GET, path = "/ce/disks" }]
async fn ce_disks(_rq: Ctx, q: Query<QReq>) -> Result<HttpResponseOk<QReq>, disks::Error> {
    Ok(HttpResponseOk(q.into_inner()))
}
#[endpoint { method = GET, path = "/ce/inst" }]
async fn ce_inst(_rq: Ctx, q: Query<QReq>) -> Result<HttpResponseOk<QReq>, inst::Error> {
    Ok(HttpResponseOk(q.into_inner()))
}

// response types (HttpResponseOk)
ep_sample!(ra_bool, "/ra/bool", bool);
ep_sample!(ra_u8, "/ra/u8", u8);
ep_sample!(ra_i8, "/ra/i8", i8);
ep_sample!(ra_i64, "/ra/i64", i64);
ep_sample!(ra_u64, "/ra/u64", u64);
ep_sample!(ra_string, "/ra/string", String);
ep_sample!(ra_uuid, "/ra/uuid", Uuid);
ep_sample!(ra_mode, "/ra/mode", Mode);
ep_sample!(ra_opt_u32, "/ra/opt_u32", Option<u32>);
ep_sample!(ra_opt_inner, "/ra/opt_inner", Option<Inner>);
ep_sample!(ra_opt_mode, "/ra/opt_mode", Option<Mode>);
ep_sample!(ra_vec_u16, "/ra/vec_u16", Vec<u16>);
ep_sample!(ra_vec_inner, "/ra/vec_inner", Vec<Inner>);
ep_sample!(ra_map_u8, "/ra/map_u8", BTreeMap<String, u8>);
ep_sample!(ra_inner, "/ra/inner", Inner);
ep_sample!(ra_inv_item, "/ra/inv_item", inv::Item);
ep_sample!(ra_bill_item, "/ra/bill_item", bill::Item);
ep_sample!(ra_vec_bill, "/ra/vec_bill_item", Vec<bill::Item>);
ep_sample!(ra_vec_inv, "/ra/vec_inv_item", Vec<inv::Item>);
ep_sample!(ra_outer, "/ra/outer", Outer);
ep_sample!(ra_unit, "/ra/unit", ());
ep_sample!(ra_nz, "/ra/nz", NonZeroU32);
ep_sample!(ra_newu, "/ra/newu", NewU);
ep_sample!(ra_news, "/ra/news", NewS);
ep_sample!(ra_opts, "/ra/opts", Opts);
ep_sample!(ra_widths, "/ra/widths", Widths);

// path parameters
ep_path!(p_u32, "/p/u32/{id}", PU32);
ep_path!(p_uuid, "/p/uuid/{id}", PUuid);
ep_path!(p_str, "/p/str/{name}", PStr);
ep_path!(p_two, "/p/two/{a}/x/{b}", PTwo);
ep_path!(p_nz, "/p/nz/{id}", PNz);
ep_path!(p_i64, "/p/i64/{v}", PI64);
ep_path!(p_new, "/p/new/{id}", PNew);
ep_path!(p_bool, "/p/bool/{flag}", PBool);
ep_path!(p_flat, "/p/flat/{a}/{b}", PFlat);

// query parameters
ep_query!(q_req, "/q/req", QReq);
ep_query!(q_opt, "/q/opt", QOpt);
ep_query!(q_dflt, "/q/dflt", QDflt);
ep_query!(q_rename, "/q/rename", Renamed);
ep_query!(q_flat, "/q/flat", Flat);
ep_query!(q_flatnum, "/q/flatnum", FlatNum);
ep_query!(q_new, "/q/new", QNew);
ep_query!(q_tier, "/q/tier", QTier);
ep_query!(q_ints, "/q/ints", QInts);
ep_query!(q_uuid, "/q/uuid", QUuid);
ep_query!(q_nz, "/q/nz", QNz);

// typed bodies
ep_body!(b_inner, "/b/inner", Inner);
ep_body!(b_bill_item, "/b/bill_item", bill::Item);
ep_body!(b_inv_item, "/b/inv_item", inv::Item);
ep_body!(b_outer, "/b/outer", Outer);
ep_body!(b_dflt, "/b/dflt", Dflt);
ep_body!(b_rename, "/b/rename", Renamed);
ep_body!(b_flat, "/b/flat", Flat);
ep_body!(b_flatnum, "/b/flatnum", FlatNum);
ep_body!(b_vec, "/b/vec", Vec<Inner>);
ep_body!(b_map, "/b/map", BTreeMap<String, u8>);
ep_body!(b_enum, "/b/enum", BEnum);
ep_body!(b_new, "/b/new", NewU);
ep_body!(b_widths, "/b/widths", Widths);
ep_body!(b_optinner, "/b/optinner", BOptInner);
ep_body!(b_opts, "/b/opts", Opts);

ep_sample!(ra_shape, "/ra/shape", Shape);
ep_sample!(ra_sub, "/ra/sub", Sub);
ep_sample!(ra_numorstr, "/ra/numorstr", NumOrStr);
ep_sample!(ra_ext, "/ra/ext", External);
ep_sample!(ra_int, "/ra/int", Internal);
ep_sample!(ra_adj, "/ra/adj", Adjacent);
ep_sample!(ra_docenum, "/ra/docenum", DocEnum);
ep_body!(b_shape, "/b/shape", Shape);
ep_body!(b_sub, "/b/sub", Sub);
ep_body!(b_numorstr, "/b/numorstr", NumOrStr);

// extractor tuples: every body extractor with one and with two other extractors
#[endpoint { method = PUT, path = "/t/json/pb/{id}" }]
async fn t_json_pb(_rq: Ctx, _p: Path<PU32>, b: TypedBody<Inner>) -> Result<HttpResponseOk<Inner>, HttpError> {
    Ok(HttpResponseOk(b.into_inner()))
}
#[endpoint { method = POST, path = "/t/json/qb" }]
async fn t_json_qb(_rq: Ctx, _q: Query<QVerbose>, b: TypedBody<Inner>) -> Result<HttpResponseOk<Inner>, HttpError> {
    Ok(HttpResponseOk(b.into_inner()))
}
#[endpoint { method = PUT, path = "/t/json/pqb/{id}" }]
async fn t_json_pqb(
    _rq: Ctx,
    _p: Path<PU32>,
    _q: Query<QVerbose>,
    b: TypedBody<Inner>,
) -> Result<HttpResponseOk<Inner>, HttpError> {
    Ok(HttpResponseOk(b.into_inner()))
}
#[endpoint { method = PUT, path = "/t/form/pb/{id}", content_type = "application/x-www-form-urlencoded" }]
async fn t_form_pb(_rq: Ctx, _p: Path<PU32>, b: TypedBody<Form>) -> Result<HttpResponseOk<Form>, HttpError> {
    Ok(HttpResponseOk(b.into_inner()))
}
#[endpoint { method = POST, path = "/t/form/qb", content_type = "application/x-www-form-urlencoded" }]
async fn t_form_qb(_rq: Ctx, _q: Query<QVerbose>, b: TypedBody<Form>) -> Result<HttpResponseOk<Form>, HttpError> {
    Ok(HttpResponseOk(b.into_inner()))
}
#[endpoint { method = PUT, path = "/t/form/pqb/{id}", content_type = "application/x-www-form-urlencoded" }]
async fn t_form_pqb(
    _rq: Ctx,
    _p: Path<PU32>,
    _q: Query<QVerbose>,
    b: TypedBody<Form>,
) -> Result<HttpResponseOk<Form>, HttpError> {
    Ok(HttpResponseOk(b.into_inner()))
}
async fn count_fields(mut body: MultipartBody) -> Result<HttpResponseOk<u32>, HttpError> {
    let mut n = 0u32;
    loop {
        match body.content.next_field().await {
            Ok(Some(f)) => {
                f.bytes().await.map_err(|e| HttpError::for_bad_request(None, e.to_string()))?;
                n += 1;
            }
            Ok(None) => break,
            Err(e) => return Err(HttpError::for_bad_request(None, e.to_string())),
        }
    }
    Ok(HttpResponseOk(n))
}
#[endpoint { method = POST, path = "/t/multi/b" }]
async fn t_multi_b(_rq: Ctx, b: MultipartBody) -> Result<HttpResponseOk<u32>, HttpError> {
    count_fields(b).await
}
#[endpoint { method = PUT, path = "/t/multi/pb/{id}" }]
async fn t_multi_pb(_rq: Ctx, _p: Path<PU32>, b: MultipartBody) -> Result<HttpResponseOk<u32>, HttpError> {
    count_fields(b).await
}
#[endpoint { method = POST, path = "/t/multi/qb" }]
async fn t_multi_qb(_rq: Ctx, _q: Query<QVerbose>, b: MultipartBody) -> Result<HttpResponseOk<u32>, HttpError> {
    count_fields(b).await
}
#[endpoint { method = PUT, path = "/t/multi/pqb/{id}" }]
async fn t_multi_pqb(
    _rq: Ctx,
    _p: Path<PU32>,
    _q: Query<QVerbose>,
    b: MultipartBody,
) -> Result<HttpResponseOk<u32>, HttpError> {
    count_fields(b).await
}
#[endpoint { method = POST, path = "/t/bytes/b" }]
async fn t_bytes_b(_rq: Ctx, b: UntypedBody) -> Result<HttpResponseOk<u32>, HttpError> {
    Ok(HttpResponseOk(b.as_bytes().len() as u32))
}
#[endpoint { method = PUT, path = "/t/bytes/pb/{id}" }]
async fn t_bytes_pb(_rq: Ctx, _p: Path<PU32>, b: UntypedBody) -> Result<HttpResponseOk<u32>, HttpError> {
    Ok(HttpResponseOk(b.as_bytes().len() as u32))
}
#[endpoint { method = PUT, path = "/t/bytes/pqb/{id}" }]
async fn t_bytes_pqb(
    _rq: Ctx,
    _p: Path<PU32>,
    _q: Query<QVerbose>,
    b: UntypedBody,
) -> Result<HttpResponseOk<u32>, HttpError> {
    Ok(HttpResponseOk(b.as_bytes().len() as u32))
}

// other response kinds
#[endpoint { method = POST, path = "/k/created" }]
async fn k_created(_rq: Ctx, b: TypedBody<Inner>) -> Result<HttpResponseCreated<Inner>, HttpError> {
    Ok(HttpResponseCreated(b.into_inner()))
}
#[endpoint { method = POST, path = "/k/accepted" }]
async fn k_accepted(_rq: Ctx, q: Query<SampleQ>) -> Result<HttpResponseAccepted<Mode>, HttpError> {
    Ok(HttpResponseAccepted(pick::<Mode>(q.into_inner().n)))
}
#[endpoint { method = DELETE, path = "/k/deleted/{id}" }]
async fn k_deleted(_rq: Ctx, _p: Path<PU32>) -> Result<HttpResponseDeleted, HttpError> {
    Ok(HttpResponseDeleted())
}
#[endpoint { method = PUT, path = "/k/updated/{id}" }]
async fn k_updated(
    _rq: Ctx,
    _p: Path<PU32>,
    _b: TypedBody<Inner>,
) -> Result<HttpResponseUpdatedNoContent, HttpError> {
    Ok(HttpResponseUpdatedNoContent())
}
#[endpoint { method = GET, path = "/k/found" }]
async fn k_found(_rq: Ctx) -> Result<HttpResponseFound, HttpError> {
    dropshot::http_response_found("/ra/bool".to_string())
}
#[endpoint { method = GET, path = "/k/seeother" }]
async fn k_seeother(_rq: Ctx, _q: Query<SampleQ>) -> Result<HttpResponseSeeOther, HttpError> {
    dropshot::http_response_see_other("/ra/u8".to_string())
}
#[endpoint { method = GET, path = "/k/tempredirect" }]
async fn k_tempredirect(_rq: Ctx) -> Result<HttpResponseTemporaryRedirect, HttpError> {
    dropshot::http_response_temporary_redirect("http://example.com/x?y=1".to_string())
}
#[endpoint { method = GET, path = "/k/headers" }]
async fn k_headers(
    _rq: Ctx,
    q: Query<SampleQ>,
) -> Result<HttpResponseHeaders<HttpResponseOk<Inner>, Hdrs>, HttpError> {
    let n = q.into_inner().n;
    Ok(HttpResponseHeaders::new(
        HttpResponseOk(pick::<Inner>(n)),
        Hdrs { x_count: n.unwrap_or(3).to_string(), x_note: format!("note {:?}", n) },
    ))
}
#[endpoint { method = POST, path = "/k/headers_created" }]
async fn k_headers_created(
    _rq: Ctx,
    b: TypedBody<NewU>,
) -> Result<HttpResponseHeaders<HttpResponseCreated<NewU>, Hdrs>, HttpError> {
    Ok(HttpResponseHeaders::new(
        HttpResponseCreated(b.into_inner()),
        Hdrs { x_count: "1".into(), x_note: "created".into() },
    ))
}
// a header struct with a non-string member (to_map refuses it: every response is a 500)
#[endpoint { method = GET, path = "/k/headers_num" }]
async fn k_headers_num(
    _rq: Ctx,
    q: Query<SampleQ>,
) -> Result<HttpResponseHeaders<HttpResponseOk<Inner>, HdrsNum>, HttpError> {
    let n = q.into_inner().n;
    Ok(HttpResponseHeaders::new(HttpResponseOk(pick::<Inner>(n)), HdrsNum { x_num: n.unwrap_or(3) }))
}
// the same with the endpoint's own error type: the 500 the framework generates for the
// failed conversion must be in that type (the operation's documented 5XX schema)
#[endpoint { method = GET, path = "/ce/headers_num" }]
async fn ce_headers_num(
    _rq: Ctx,
    q: Query<SampleQ>,
) -> Result<HttpResponseHeaders<HttpResponseOk<Inner>, HdrsNum>, inst::Error> {
    let n = q.into_inner().n;
    Ok(HttpResponseHeaders::new(HttpResponseOk(pick::<Inner>(n)), HdrsNum { x_num: n.unwrap_or(3) }))
}
// a header value taken from the request: a line feed in it cannot be sent
#[endpoint { method = GET, path = "/ce/headers_note" }]
async fn ce_headers_note(
    _rq: Ctx,
    q: Query<QReq>,
) -> Result<HttpResponseHeaders<HttpResponseOk<QReq>, Hdrs>, disks::Error> {
    let q = q.into_inner();
    let note = q.b.clone();
    Ok(HttpResponseHeaders::new(HttpResponseOk(q), Hdrs { x_count: "1".into(), x_note: note }))
}
// a paginated listing (`ResultsPage<T>`): the first page of a collection of `n` items; the
// empty page (n = 0) and the last page (no `next_page`) are pages like any other
#[derive(Deserialize, Serialize, JsonSchema, Clone)]
struct PgScan {
    n: Option<u8>,
}
#[derive(Deserialize, Serialize, JsonSchema, Clone)]
struct PgSel {
    last: u32,
}
#[endpoint { method = GET, path = "/pg/items" }]
async fn pg_items(
    rqctx: Ctx,
    q: Query<dropshot::PaginationParams<PgScan, PgSel>>,
) -> Result<HttpResponseOk<dropshot::ResultsPage<Inner>>, HttpError> {
    let p = q.into_inner();
    let limit = rqctx.page_limit(&p)?.get() as usize;
    let (scan, start) = match &p.page {
        dropshot::WhichPage::First(s) => (s.clone(), 0u32),
        dropshot::WhichPage::Next(sel) => (PgScan { n: None }, sel.last + 1),
    };
    let n = scan.n.unwrap_or(0) as u32; // no `n`: the empty collection
    let items: Vec<Inner> = (start..n).take(limit).map(|i| Inner { x: i as u8, y: Some(format!("item {}", i)) }).collect();
    Ok(HttpResponseOk(dropshot::ResultsPage::new(items, &scan, |i: &Inner, _| PgSel { last: i.x as u32 })?))
}
// path + query + body together
#[endpoint { method = PUT, path = "/c/{id}" }]
async fn c_all(
    _rq: Ctx,
    _p: Path<PU32>,
    _q: Query<QVerbose>,
    b: TypedBody<Outer>,
) -> Result<HttpResponseOk<Outer>, HttpError> {
    Ok(HttpResponseOk(b.into_inner()))
}
// url-encoded body
#[endpoint { method = POST, path = "/b/form", content_type = "application/x-www-form-urlencoded" }]
async fn b_form(_rq: Ctx, b: TypedBody<Form>) -> Result<HttpResponseOk<Form>, HttpError> {
    Ok(HttpResponseOk(b.into_inner()))
}

fn p() -> Option<Value> {
    Some(PU32::ty())
}
fn q() -> Option<Value> {
    Some(QVerbose::ty())
}
fn bj() -> Option<(Value, &'static str)> {
    Some((Inner::ty(), "json"))
}
fn bf() -> Option<(Value, &'static str)> {
    Some((Form::ty(), "form"))
}
/// endpoints whose body extractor is not `TypedBody` (no body type, fixed media type)
fn raw(ct: &str, pt: Option<Value>, qt: Option<Value>) -> Value {
    let mut v = d(pt, qt, None, Some(u32::ty()), "ok", None);
    v["bodyCt"] = json!(ct);
    v
}

fn build_api() -> (ApiDescription<()>, Vec<Ep>) {
    let mut api = ApiDescription::new();
    let mut eps: Vec<Ep> = Vec::new();
    macro_rules! reg {
        ($f:ident, $m:expr, $path:expr, $desc:expr) => {
            api.register($f).unwrap();
            eps.push(Ep { op: stringify!($f), method: $m, path: $path, desc: || $desc });
        };
    }
    macro_rules! reg_sample {
        ($f:ident, $path:expr, $t:ty) => {
            reg!($f, "get", $path, d(None, Some(SampleQ::ty()), None, Some(<$t>::ty()), "ok", None));
        };
    }
    macro_rules! reg_path {
        ($f:ident, $path:expr, $t:ty) => {
            reg!($f, "get", $path, d(Some(<$t>::ty()), None, None, Some(<$t>::ty()), "ok", None));
        };
    }
    macro_rules! reg_query {
        ($f:ident, $path:expr, $t:ty) => {
            reg!($f, "get", $path, d(None, Some(<$t>::ty()), None, Some(<$t>::ty()), "ok", None));
        };
    }
    macro_rules! reg_body {
        ($f:ident, $path:expr, $t:ty) => {
            reg!($f, "post", $path, d(None, None, Some((<$t>::ty(), "json")), Some(<$t>::ty()), "ok", None));
        };
    }
    reg_sample!(ra_bool, "/ra/bool", bool);
    reg_sample!(ra_u8, "/ra/u8", u8);
    reg_sample!(ra_i8, "/ra/i8", i8);
    reg_sample!(ra_i64, "/ra/i64", i64);
    reg_sample!(ra_u64, "/ra/u64", u64);
    reg_sample!(ra_string, "/ra/string", String);
    reg_sample!(ra_uuid, "/ra/uuid", Uuid);
    reg_sample!(ra_mode, "/ra/mode", Mode);
    reg_sample!(ra_opt_u32, "/ra/opt_u32", Option<u32>);
    reg_sample!(ra_opt_inner, "/ra/opt_inner", Option<Inner>);
    reg_sample!(ra_opt_mode, "/ra/opt_mode", Option<Mode>);
    reg_sample!(ra_vec_u16, "/ra/vec_u16", Vec<u16>);
    reg_sample!(ra_vec_inner, "/ra/vec_inner", Vec<Inner>);
    reg_sample!(ra_map_u8, "/ra/map_u8", BTreeMap<String, u8>);
    reg_sample!(ra_inner, "/ra/inner", Inner);
    reg_sample!(ra_inv_item, "/ra/inv_item", inv::Item);
    reg_sample!(ra_bill_item, "/ra/bill_item", bill::Item);
    reg_sample!(ra_vec_bill, "/ra/vec_bill_item", Vec<bill::Item>);
    reg_sample!(ra_vec_inv, "/ra/vec_inv_item", Vec<inv::Item>);
    reg_sample!(ra_outer, "/ra/outer", Outer);
    reg_sample!(ra_unit, "/ra/unit", ());
    reg_sample!(ra_nz, "/ra/nz", NonZeroU32);
    reg_sample!(ra_newu, "/ra/newu", NewU);
    reg_sample!(ra_news, "/ra/news", NewS);
    reg_sample!(ra_opts, "/ra/opts", Opts);
    reg_sample!(ra_widths, "/ra/widths", Widths);
    reg_path!(p_u32, "/p/u32/{id}", PU32);
    reg_path!(p_uuid, "/p/uuid/{id}", PUuid);
    reg_path!(p_str, "/p/str/{name}", PStr);
    reg_path!(p_two, "/p/two/{a}/x/{b}", PTwo);
    reg_path!(p_nz, "/p/nz/{id}", PNz);
    reg_path!(p_i64, "/p/i64/{v}", PI64);
    reg_path!(p_new, "/p/new/{id}", PNew);
    reg_path!(p_bool, "/p/bool/{flag}", PBool);
    reg_path!(p_flat, "/p/flat/{a}/{b}", PFlat);
    reg_query!(q_req, "/q/req", QReq);
    reg_query!(ce_disks, "/ce/disks", QReq);
    reg_query!(ce_inst, "/ce/inst", QReq);
    reg_query!(q_opt, "/q/opt", QOpt);
    reg_query!(q_dflt, "/q/dflt", QDflt);
    reg_query!(q_rename, "/q/rename", Renamed);
    reg!(q_flat, "get", "/q/flat", {
        let mut v = d(None, Some(Flat::ty()), None, Some(Flat::ty()), "ok", None);
        v["queryFlat"] = json!(["fx", "fy"]);
        v
    });
    reg!(q_flatnum, "get", "/q/flatnum", {
        let mut v = d(None, Some(FlatNum::ty()), None, Some(FlatNum::ty()), "ok", None);
        v["queryFlat"] = json!(["fx", "fy"]);
        v
    });
    reg_query!(q_new, "/q/new", QNew);
    reg_query!(q_tier, "/q/tier", QTier);
    reg_query!(q_ints, "/q/ints", QInts);
    reg_query!(q_uuid, "/q/uuid", QUuid);
    reg_query!(q_nz, "/q/nz", QNz);
    reg_body!(b_inner, "/b/inner", Inner);
    reg_body!(b_bill_item, "/b/bill_item", bill::Item);
    reg_body!(b_inv_item, "/b/inv_item", inv::Item);
    reg_body!(b_outer, "/b/outer", Outer);
    reg_body!(b_dflt, "/b/dflt", Dflt);
    reg_body!(b_rename, "/b/rename", Renamed);
    reg_body!(b_flat, "/b/flat", Flat);
    reg_body!(b_flatnum, "/b/flatnum", FlatNum);
    reg_body!(b_vec, "/b/vec", Vec<Inner>);
    reg_body!(b_map, "/b/map", BTreeMap<String, u8>);
    reg_body!(b_enum, "/b/enum", BEnum);
    reg_body!(b_new, "/b/new", NewU);
    reg_body!(b_widths, "/b/widths", Widths);
    reg_body!(b_optinner, "/b/optinner", BOptInner);
    reg_body!(b_opts, "/b/opts", Opts);
    reg_sample!(ra_shape, "/ra/shape", Shape);
    reg_sample!(ra_sub, "/ra/sub", Sub);
    reg_sample!(ra_numorstr, "/ra/numorstr", NumOrStr);
    macro_rules! reg_opaque {
        ($f:ident, $path:expr) => {
            reg!($f, "get", $path, {
                let mut v = d(None, Some(SampleQ::ty()), None, None, "ok", None);
                v["respOpaque"] = json!(true);
                v
            });
        };
    }
    reg_opaque!(ra_ext, "/ra/ext");
    reg_opaque!(ra_int, "/ra/int");
    reg_opaque!(ra_adj, "/ra/adj");
    reg_opaque!(ra_docenum, "/ra/docenum");
    reg_body!(b_shape, "/b/shape", Shape);
    reg_body!(b_sub, "/b/sub", Sub);
    reg_body!(b_numorstr, "/b/numorstr", NumOrStr);
    reg!(t_json_pb, "put", "/t/json/pb/{id}", d(p(), None, bj(), Some(Inner::ty()), "ok", None));
    reg!(t_json_qb, "post", "/t/json/qb", d(None, q(), bj(), Some(Inner::ty()), "ok", None));
    reg!(t_json_pqb, "put", "/t/json/pqb/{id}", d(p(), q(), bj(), Some(Inner::ty()), "ok", None));
    reg!(t_form_pb, "put", "/t/form/pb/{id}", d(p(), None, bf(), Some(Form::ty()), "ok", None));
    reg!(t_form_qb, "post", "/t/form/qb", d(None, q(), bf(), Some(Form::ty()), "ok", None));
    reg!(t_form_pqb, "put", "/t/form/pqb/{id}", d(p(), q(), bf(), Some(Form::ty()), "ok", None));
    reg!(t_multi_b, "post", "/t/multi/b", raw("multipart", None, None));
    reg!(t_multi_pb, "put", "/t/multi/pb/{id}", raw("multipart", p(), None));
    reg!(t_multi_qb, "post", "/t/multi/qb", raw("multipart", None, q()));
    reg!(t_multi_pqb, "put", "/t/multi/pqb/{id}", raw("multipart", p(), q()));
    reg!(t_bytes_b, "post", "/t/bytes/b", raw("bytes", None, None));
    reg!(t_bytes_pb, "put", "/t/bytes/pb/{id}", raw("bytes", p(), None));
    reg!(t_bytes_pqb, "put", "/t/bytes/pqb/{id}", raw("bytes", p(), q()));
    reg!(k_created, "post", "/k/created",
        d(None, None, Some((Inner::ty(), "json")), Some(Inner::ty()), "created", None));
    reg!(k_accepted, "post", "/k/accepted",
        d(None, Some(SampleQ::ty()), None, Some(Mode::ty()), "accepted", None));
    reg!(k_deleted, "delete", "/k/deleted/{id}", d(Some(PU32::ty()), None, None, None, "deleted", None));
    reg!(k_updated, "put", "/k/updated/{id}",
        d(Some(PU32::ty()), None, Some((Inner::ty(), "json")), None, "updatedNoContent", None));
    reg!(k_found, "get", "/k/found", d(None, None, None, None, "found", None));
    reg!(k_seeother, "get", "/k/seeother", d(None, Some(SampleQ::ty()), None, None, "seeOther", None));
    reg!(k_tempredirect, "get", "/k/tempredirect", d(None, None, None, None, "temporaryRedirect", None));
    reg!(k_headers, "get", "/k/headers",
        d(None, Some(SampleQ::ty()), None, Some(Inner::ty()), "ok", Some(Hdrs::ty())));
    reg!(k_headers_created, "post", "/k/headers_created",
        d(None, None, Some((NewU::ty(), "json")), Some(NewU::ty()), "created", Some(Hdrs::ty())));
    reg!(k_headers_num, "get", "/k/headers_num",
        d(None, Some(SampleQ::ty()), None, Some(Inner::ty()), "ok", Some(HdrsNum::ty())));
    reg!(ce_headers_num, "get", "/ce/headers_num",
        d(None, Some(SampleQ::ty()), None, Some(Inner::ty()), "ok", Some(HdrsNum::ty())));
    reg!(ce_headers_note, "get", "/ce/headers_note", {
        let mut v = d(None, Some(QReq::ty()), None, Some(QReq::ty()), "ok", Some(Hdrs::ty()));
        // the response header x_note carries the query parameter `b` as it was received
        v["hdrFrom"] = json!("b");
        v
    });
    reg!(pg_items, "get", "/pg/items", {
        let q = json!({"struct": [
            ["limit", {"opt": {"nonzero": 32}}, false],
            ["n", {"opt": {"int": [8, false]}}, false],
            ["page_token", {"opt": "str"}, false],
        ]});
        let mut v = d(None, Some(q), None, None, "ok", None);
        // the response is a `ResultsPage`, outside the model's type universe: nothing is predicted
        // about the body, the specification still validates it against the document
        v["respOpaque"] = json!(true);
        // a page token is not something a client makes up from the document
        v["noGen"] = json!(["page_token"]);
        v
    });
    reg!(c_all, "put", "/c/{id}",
        d(Some(PU32::ty()), Some(QVerbose::ty()), Some((Outer::ty(), "json")), Some(Outer::ty()), "ok", None));
    reg!(b_form, "post", "/b/form", d(None, None, Some((Form::ty(), "form")), Some(Form::ty()), "ok", None));
    (api, eps)
}

// ---------------------------------------------------------------------------
// deriving requests from the document alone

struct Doc<'a> {
    root: &'a Value,
}

impl<'a> Doc<'a> {
    fn resolve(&self, s: &'a Value) -> &'a Value {
        let mut cur = s;
        for _ in 0..16 {
            match cur.get("$ref").and_then(|r| r.as_str()) {
                Some(r) => {
                    let mut v = self.root;
                    for seg in r.trim_start_matches("#/").split('/') {
                        v = &v[seg];
                    }
                    cur = v;
                }
                None => return cur,
            }
        }
        cur
    }
}

fn collect_refs(v: &Value, out: &mut Vec<String>) {
    match v {
        Value::Object(m) => {
            for (k, x) in m {
                if k == "$ref" {
                    if let Some(s) = x.as_str() {
                        out.push(s.to_string());
                    }
                } else {
                    collect_refs(x, out);
                }
            }
        }
        Value::Array(a) => a.iter().for_each(|x| collect_refs(x, out)),
        _ => {}
    }
}

/// transitive closure of the component references of `op`
fn closure(doc: &Value, op: &Value) -> Value {
    let mut todo = Vec::new();
    collect_refs(op, &mut todo);
    let mut schemas = JMap::new();
    let mut responses = JMap::new();
    while let Some(r) = todo.pop() {
        let segs: Vec<&str> = r.trim_start_matches("#/").split('/').collect();
        if segs.len() != 3 || segs[0] != "components" {
            continue;
        }
        let target = &doc["components"][segs[1]][segs[2]];
        let map = if segs[1] == "schemas" { &mut schemas } else { &mut responses };
        if !map.contains_key(segs[2]) {
            map.insert(segs[2].to_string(), target.clone());
            collect_refs(target, &mut todo);
        }
    }
    json!({"schemas": schemas, "responses": responses})
}

fn int_range(s: &Value) -> (i128, i128) {
    let (mut lo, mut hi): (i128, i128) = match s.get("format").and_then(|f| f.as_str()) {
        Some("int8") => (-128, 127),
        Some("int16") => (-32768, 32767),
        Some("int32") => (i32::MIN as i128, i32::MAX as i128),
        Some("int64") => (i64::MIN as i128, i64::MAX as i128),
        Some("uint8") => (0, 255),
        Some("uint16") => (0, 65535),
        Some("uint32") => (0, u32::MAX as i128),
        Some("uint64") => (0, u64::MAX as i128),
        _ => (-1000, 1000),
    };
    let num = |k: &str| s.get(k).and_then(|v| v.as_i64().map(|x| x as i128).or(v.as_u64().map(|x| x as i128)));
    if let Some(m) = num("minimum") {
        lo = lo.max(m);
    }
    if let Some(m) = num("maximum") {
        hi = hi.min(m);
    }
    (lo, hi)
}

fn int_value(x: i128) -> Value {
    if x >= 0 {
        json!(x as u64)
    } else {
        json!(x as i64)
    }
}

// (a string schema admits strings that look like numbers, floats or booleans just as well)
const WORDS: [&str; 17] = [
    "a", "zed", "hello world", "x/y", "é✓", "a&b=c", "100%", "q?", "7", "007", "-1", "1e3", "true", "nan", "two\nlines",
    "tab\there", "del\u{7f}",
];

/// a value valid for the schema (as far as the document says), `None` when the
/// schema admits none (`{type: string, enum: [null]}` without nullable).
fn gen_value(doc: &Doc, s: &Value, r: &mut Rng, depth: u32, nonempty: bool) -> Value {
    let s = doc.resolve(s);
    if s.get("nullable") == Some(&json!(true)) && r.chance(1, 4) {
        return Value::Null;
    }
    if let Some(l) = s.get("allOf").and_then(|l| l.as_array()) {
        return gen_value(doc, &l[0], r, depth, nonempty);
    }
    for k in ["oneOf", "anyOf"] {
        if let Some(l) = s.get(k).and_then(|l| l.as_array()) {
            let i = r.below(l.len() as u64) as usize;
            return gen_value(doc, &l[i], r, depth, nonempty);
        }
    }
    if let Some(e) = s.get("enum").and_then(|e| e.as_array()) {
        return e[r.below(e.len() as u64) as usize].clone();
    }
    match s.get("type").and_then(|t| t.as_str()) {
        Some("integer") => {
            let (lo, hi) = int_range(s);
            let x = match r.below(5) {
                0 => lo,
                1 => hi,
                2 => lo + (hi - lo) / 2,
                _ => (lo.max(0) + r.below(100) as i128).min(hi),
            };
            int_value(x)
        }
        Some("number") => json!(r.below(10)),
        Some("boolean") => json!(r.chance(1, 2)),
        Some("string") => {
            if s.get("format").and_then(|f| f.as_str()) == Some("uuid") {
                let u = Uuid::from_u128(((r.next() as u128) << 64) | r.next() as u128);
                json!(u.to_string())
            } else if nonempty || r.chance(9, 10) {
                json!(*r.pick(&WORDS))
            } else {
                json!("")
            }
        }
        Some("array") => {
            let n = if depth == 0 { 0 } else { r.below(3) };
            match s.get("items") {
                Some(it) => Value::Array((0..n).map(|_| gen_value(doc, it, r, depth - 1, false)).collect()),
                None => json!([]),
            }
        }
        Some("object") => {
            let mut m = JMap::new();
            let req: Vec<&str> = s
                .get("required")
                .and_then(|x| x.as_array())
                .map(|a| a.iter().filter_map(|x| x.as_str()).collect())
                .unwrap_or_default();
            if let Some(props) = s.get("properties").and_then(|p| p.as_object()) {
                for (k, ps) in props {
                    if req.contains(&k.as_str()) || (depth > 0 && r.chance(1, 2)) {
                        m.insert(k.clone(), gen_value(doc, ps, r, depth.saturating_sub(1), false));
                    }
                }
            }
            if let Some(ap) = s.get("additionalProperties") {
                if ap.is_object() && depth > 0 {
                    for i in 0..r.below(3) {
                        m.insert(format!("key{}", i), gen_value(doc, ap, r, depth - 1, false));
                    }
                }
            }
            Value::Object(m)
        }
        _ => json!({"free": "form"}),
    }
}

/// one mutation that makes `v` invalid for `s` (as far as the document says)
fn break_value(doc: &Doc, s: &Value, v: &Value, r: &mut Rng) -> Value {
    let s = doc.resolve(s);
    if let (Some(obj), Some(req)) = (v.as_object(), s.get("required").and_then(|x| x.as_array())) {
        if !req.is_empty() && r.chance(1, 2) {
            let k = req[r.below(req.len() as u64) as usize].as_str().unwrap();
            let mut m = obj.clone();
            m.remove(k);
            return Value::Object(m);
        }
        if let Some(props) = s.get("properties").and_then(|p| p.as_object()) {
            let keys: Vec<&String> = props.keys().filter(|k| req.contains(&json!(k))).collect();
            if !keys.is_empty() {
                let k = keys[r.below(keys.len() as u64) as usize];
                let mut m = obj.clone();
                m.insert(k.clone(), json!({"wrong": ["type"]}));
                return Value::Object(m);
            }
        }
    }
    match v {
        Value::Array(a) => {
            let mut a = a.clone();
            a.push(json!({"wrong": ["type"]}));
            Value::Array(a)
        }
        Value::Object(m) => {
            if let Some(ap) = s.get("additionalProperties") {
                if ap.is_object() {
                    let mut m = m.clone();
                    m.insert("bad".into(), json!({"wrong": ["type"]}));
                    return Value::Object(m);
                }
            }
            json!("not an object")
        }
        Value::String(_) => json!(17),
        _ => json!("seventeen"),
    }
}

fn param_string(v: &Value) -> String {
    match v {
        Value::String(s) => s.clone(),
        other => other.to_string(),
    }
}

fn canon_body(body: &[u8], rid: Option<&str>) -> Vec<u8> {
    // error bodies carry a random request id: replace it by a marker when it
    // equals the x-request-id header
    if let (Ok(mut v), Some(rid)) = (serde_json::from_slice::<Value>(body), rid) {
        if v.get("request_id").and_then(|x| x.as_str()) == Some(rid) {
            v["request_id"] = json!("<same-as-x-request-id>");
            return serde_json::to_vec(&v).unwrap();
        }
    }
    body.to_vec()
}

struct Req {
    variant: String,
    /// (name, location, value)
    params: Vec<(String, String, String)>,
    omitted: Option<String>,
    ctype: Option<String>,
    body: Option<Vec<u8>>,
    body_json: Option<Value>,
}

fn main() {
    quiet_panics();
    let rt = tokio::runtime::Builder::new_multi_thread().worker_threads(4).enable_all().build().unwrap();
    let (api, eps) = build_api();
    let doc_value = api.openapi("t", semver::Version::new(1, 0, 0)).json().expect("document");
    let (api2, _) = build_api();
    let server = rt.block_on(async { start_server(api2, (), ServerOpts { default_request_body_max_bytes: 1 << 16, ..Default::default() }) });
    let addr = server.local_addr();
    let doc = Doc { root: &doc_value };
    let mut out = Out::new();
    let mut r = Rng::from_env(7);
    let n_valid = if is_thorough() { 200 } else { 24 };
    let mut id = 0u64;

    let mut n_sent = 0u64;
    for ep in &eps {
        let op = &doc_value["paths"][ep.path][ep.method];
        assert!(op.is_object(), "operation {} {} not in document", ep.method, ep.path);
        let mut opj = op.clone();
        opj["method"] = json!(ep.method);
        opj["path"] = json!(ep.path);
        let comps = closure(&doc_value, op);
        let mut desc = (ep.desc)();
        desc["op"] = json!(ep.op);
        let params: Vec<&Value> = op.get("parameters").and_then(|p| p.as_array()).map(|a| a.iter().collect()).unwrap_or_default();
        let body_doc: Option<(String, &Value)> = op
            .get("requestBody")
            .and_then(|b| b.get("content"))
            .and_then(|c| c.as_object())
            .and_then(|c| c.iter().next())
            .map(|(ct, mt)| (ct.clone(), &mt["schema"]));

        // --- the request variants ------------------------------------------
        let mut reqs: Vec<Req> = Vec::new();
        let mk_valid = |r: &mut Rng, all: Option<bool>| -> Req {
            let mut ps = Vec::new();
            for p in &params {
                let required = p["required"].as_bool().unwrap_or(false);
                let no_gen = desc["noGen"].as_array().map(|a| a.iter().any(|x| x == &p["name"])).unwrap_or(false);
                let include = !no_gen && (required || all.unwrap_or_else(|| r.chance(1, 2)));
                if include {
                    let inpath = p["in"] == "path";
                    let mut v = gen_value(&doc, &p["schema"], r, 1, inpath);
                    if v.is_null() {
                        continue; // a null parameter value cannot be sent; leave it out
                    }
                    if inpath && (v == json!(".") || v == json!("..")) {
                        v = json!("dot");
                    }
                    ps.push((p["name"].as_str().unwrap().to_string(), p["in"].as_str().unwrap().to_string(), param_string(&v)));
                }
            }
            let (ctype, body, body_json) = match &body_doc {
                None => (None, None, None),
                Some((ct, schema)) => {
                    if ct == "multipart/form-data" {
                        // the documented schema is an opaque binary string; the media type needs a boundary
                        let n = r.below(3);
                        let mut b = Vec::new();
                        for i in 0..n {
                            b.extend_from_slice(format!("--XBOUND\r\ncontent-disposition: form-data; name=\"f{}\"\r\n\r\nvalue {}\r\n", i, r.below(100)).as_bytes());
                        }
                        b.extend_from_slice(b"--XBOUND--\r\n");
                        (Some("multipart/form-data; boundary=XBOUND".to_string()), Some(b), Some(json!("<binary>")))
                    } else if ct == "application/octet-stream" {
                        let n = r.below(40);
                        let b: Vec<u8> = (0..n).map(|_| r.below(256) as u8).collect();
                        (Some(ct.clone()), Some(b), Some(json!("<binary>")))
                    } else {
                    let v = gen_value(&doc, schema, r, 3, false);
                    let bytes = if ct == "application/x-www-form-urlencoded" {
                        let m = v.as_object().cloned().unwrap_or_default();
                        let pairs: Vec<(String, String)> = m.iter().filter(|(_, x)| !x.is_null()).map(|(k, x)| (k.clone(), param_string(x))).collect();
                        serde_urlencoded::to_string(&pairs).unwrap().into_bytes()
                    } else {
                        serde_json::to_vec(&v).unwrap()
                    };
                    (Some(ct.clone()), Some(bytes), Some(v))
                    }
                }
            };
            Req { variant: "valid".into(), params: ps, omitted: None, ctype, body, body_json }
        };
        reqs.push(mk_valid(&mut r, Some(false)));
        reqs.push(mk_valid(&mut r, Some(true)));
        for _ in 0..n_valid {
            reqs.push(mk_valid(&mut r, None));
        }
        // JSON bodies without a Content-Type header are documented as JSON too
        if let Some((ct, _)) = &body_doc {
            if ct == "application/json" {
                let mut q = mk_valid(&mut r, None);
                q.variant = "valid-noct".into();
                q.ctype = None;
                reqs.push(q);
            }
        }
        for p in &params {
            if p["required"].as_bool().unwrap_or(false) {
                let name = p["name"].as_str().unwrap();
                for _ in 0..2 {
                    let mut q = mk_valid(&mut r, None);
                    q.variant = "omit".into();
                    q.params.retain(|(n, _, _)| n != name);
                    q.omitted = Some(name.to_string());
                    reqs.push(q);
                }
            }
        }
        if let Some((ct, schema)) = &body_doc {
            let typed = ct == "application/json" || ct == "application/x-www-form-urlencoded";
            for k in 0..(if typed { 4 } else { 0 }) {
                let mut q = mk_valid(&mut r, None);
                q.variant = "badbody".into();
                if k == 3 {
                    q.body = Some(b"{oops".to_vec());
                    q.body_json = None;
                } else if let Some(v) = &q.body_json {
                    let b = break_value(&doc, schema, v, &mut r);
                    q.body = Some(if ct == "application/x-www-form-urlencoded" {
                        b"zzz=1".to_vec()
                    } else {
                        serde_json::to_vec(&b).unwrap()
                    });
                    q.body_json = if ct == "application/x-www-form-urlencoded" { Some(json!({"zzz": "1"})) } else { Some(b) };
                }
                reqs.push(q);
            }
            // other media types than the documented one
            for wrong in ["text/plain", "application/octet-stream", "application/x-www-form-urlencoded", "application/json", "multipart/form-data; boundary=XBOUND", "multipart/form-data"] {
                if wrong.split(';').next().unwrap() == ct && wrong != "multipart/form-data" {
                    continue;
                }
                let mut q = mk_valid(&mut r, None);
                q.variant = "ctype".into();
                q.ctype = Some(wrong.to_string());
                reqs.push(q);
            }
            // legal spellings of the documented media type: all must be accepted
            let same: &[&str] = match ct.as_str() {
                "application/json" => &[
                    "application/json;charset=utf-8", "application/json;charset=UTF-8",
                    "application/json; charset=utf-8", "application/json ;charset=utf-8",
                    "Application/JSON", "APPLICATION/JSON;charset=utf-8", "application/json;",
                ],
                "application/x-www-form-urlencoded" => &[
                    "application/x-www-form-urlencoded;charset=UTF-8",
                    "application/x-www-form-urlencoded; charset=UTF-8",
                    "Application/X-WWW-Form-Urlencoded",
                    "APPLICATION/X-WWW-FORM-URLENCODED;charset=utf-8",
                ],
                "multipart/form-data" => &[
                    "multipart/form-data;boundary=XBOUND", "Multipart/Form-Data; boundary=XBOUND",
                    "multipart/form-data; charset=utf-8; boundary=\"XBOUND\"",
                    "multipart/form-data; BOUNDARY=XBOUND",
                ],
                _ => &["application/octet-stream;x=y", "APPLICATION/OCTET-STREAM"],
            };
            for sp in same {
                for _ in 0..2 {
                    let mut q = mk_valid(&mut r, None);
                    q.variant = "ctype-same".into();
                    q.ctype = Some(sp.to_string());
                    reqs.push(q);
                }
            }
        }

        // --- send ----------------------------------------------------------
        for q in reqs {
            let mut target = String::new();
            for seg in ep.path.split('/').skip(1) {
                target.push('/');
                if seg.starts_with('{') {
                    let name = &seg[1..seg.len() - 1];
                    if let Some((_, _, v)) = q.params.iter().find(|(n, l, _)| n == name && l == "path") {
                        target.push_str(&pct_encode(v.as_bytes()));
                    }
                } else {
                    target.push_str(seg);
                }
            }
            let qs: Vec<String> = q
                .params
                .iter()
                .filter(|(_, l, _)| l == "query")
                .map(|(n, _, v)| format!("{}={}", pct_encode(n.as_bytes()), pct_encode(v.as_bytes())))
                .collect();
            if !qs.is_empty() {
                target.push('?');
                target.push_str(&qs.join("&"));
            }
            let mut headers: Vec<(&str, &str)> = vec![("host", "localhost")];
            if let Some(ct) = &q.ctype {
                headers.push(("content-type", ct));
            }
            let body = q.body.clone().unwrap_or_default();
            // how the body is framed is not the document's business: every third request with a
            // body goes out chunked (no Content-Length), every third of those over HTTP/2 as a
            // stream of DATA frames without a length
            n_sent += 1;
            let unannounced = q.body.is_some() && !body.is_empty() && n_sent % 3 == 0;
            let raw = if unannounced {
                let hs: Vec<(&str, &str)> = headers.iter().filter(|(n, _)| *n != "host").cloned().collect();
                build_chunked_request(&ep.method.to_uppercase(), &target, &hs, &body, &[7, 1, 64, 4096])
            } else {
                build_request(&ep.method.to_uppercase(), &target, &headers, &body)
            };
            let over_h2 = unannounced
                && n_sent % 9 == 0
                && format!("http://localhost{}", target).parse::<http::Uri>().is_ok()
                && headers.iter().all(|(_, v)| http::HeaderValue::from_str(v).map(|h| !v.starts_with(' ') && !v.ends_with(' ') && h.len() == v.len()).unwrap_or(false));
            let resp = if over_h2 {
                let hs: Vec<(&str, &str)> = headers.iter().filter(|(n, _)| *n != "host").cloned().collect();
                h2_roundtrip(addr, &ep.method.to_uppercase(), &target, &hs, &body, false).expect("response over HTTP/2")
            } else {
                let mut got = None;
                for _ in 0..3 {
                    got = roundtrip(addr, &raw, false);
                    if got.is_some() {
                        break;
                    }
                }
                got.expect("response")
            };
            let rid = resp.header("x-request-id");
            let rbody = canon_body(&resp.body, rid);
            let mut hdrs = JMap::new();
            for (n, v) in &resp.headers {
                if !["content-type", "content-length", "date", "x-request-id", "transfer-encoding"].contains(&n.as_str()) {
                    hdrs.insert(n.clone(), json!(v));
                }
            }
            let reqj = json!({
                "target": target,
                "params": q.params.iter().map(|(n, l, v)| json!([n, l, v])).collect::<Vec<_>>(),
                "omitted": q.omitted,
                "ctype": q.ctype,
                "body": q.body_json,
                "hasBody": q.body.is_some(),
                "boundary": q.ctype.as_ref().map(|c| c.to_lowercase().contains("boundary=")).unwrap_or(false),
            });
            out.line(&format!(
                "rq {} {} {} {} {} {} => {} {} {} {}",
                id,
                q.variant,
                hex(desc.to_string().as_bytes()),
                hex(opj.to_string().as_bytes()),
                hex(comps.to_string().as_bytes()),
                hex(reqj.to_string().as_bytes()),
                resp.status,
                hex(resp.header("content-type").unwrap_or("").as_bytes()),
                hex(&rbody),
                hex(Value::Object(hdrs).to_string().as_bytes()),
            ));
            id += 1;
        }
    }
    out.flush();
    rt.block_on(async { server.close().await.unwrap() });
}
