//! C05 correspondence harness: version ranges, overlap, from_until, the semver
//! crate contract, the header version policy, and the observable
//! register/lookup route.  One case per line: `<stream> <id> <input…> => <impl…>`.

use dropshot::verif_hooks as hooks;
use dropshot::ApiDescription;
use dropshot::ApiEndpoint;
use dropshot::ApiEndpointVersions as R;
use dropshot::ClientSpecifiesVersionInHeader;
use dropshot::DynamicVersionPolicy;
use dropshot::HttpError;
use dropshot::HttpResponseOk;
use dropshot::StubContext;
use dsharness::util::*;
use semver::Version;

#[derive(Clone, Debug)]
enum Rg {
    All,
    From(String),
    FromUntil(String, String),
    Until(String),
}

impl Rg {
    fn enc(&self) -> String {
        match self {
            Rg::All => "A".into(),
            Rg::From(a) => format!("F:{}", a),
            Rg::FromUntil(a, b) => format!("FU:{}:{}", a, b),
            Rg::Until(b) => format!("U:{}", b),
        }
    }
    /// Build the real range; `None` when `from_until` refuses the pair.
    fn real(&self) -> Option<R> {
        let v = |s: &String| Version::parse(s).unwrap();
        match self {
            Rg::All => Some(R::all()),
            Rg::From(a) => Some(R::from(v(a))),
            Rg::FromUntil(a, b) => R::from_until(v(a), v(b)).ok(),
            Rg::Until(b) => Some(R::until(v(b))),
        }
    }
}

fn all_ranges(ends: &[&str]) -> Vec<Rg> {
    let mut out = vec![Rg::All];
    for a in ends {
        out.push(Rg::From(a.to_string()));
    }
    for b in ends {
        out.push(Rg::Until(b.to_string()));
    }
    for (i, a) in ends.iter().enumerate() {
        for b in &ends[i..] {
            out.push(Rg::FromUntil(a.to_string(), b.to_string()));
        }
    }
    out
}

fn endpoint(op: &str, r: R) -> ApiEndpoint<StubContext> {
    endpoint_at(op, r, "/x")
}

fn endpoint_at(op: &str, r: R, path: &str) -> ApiEndpoint<StubContext> {
    ApiEndpoint::new_for_types::<(), Result<HttpResponseOk<()>, HttpError>>(
        op.to_string(),
        http::Method::GET,
        "application/json",
        path,
        r,
    )
}

/// The operation id the document for version `v` lists for `GET <path>` ("404": none).
fn documented(api: &ApiDescription<StubContext>, v: &Version, path: &str) -> String {
    match api.openapi("t", v.clone()).json() {
        Ok(j) => j["paths"][path]["get"]["operationId"].as_str().unwrap_or("404").to_string(),
        Err(_) => "error".to_string(),
    }
}

/// Observable route: register h1 then h2 on the same method and path; is the
/// second accepted, and which handler does a lookup at `probe` reach?
fn rg_case(r1: &Rg, r2: &Rg, probe: Option<&str>) -> Option<String> {
    let (a, b) = (r1.real()?, r2.real()?);
    let accepted = catch(move || {
        let mut api = ApiDescription::<StubContext>::new();
        api.register(endpoint("h1", a)).unwrap();
        api.register(endpoint("h2", b)).unwrap();
        api
    });
    let (acc, api) = match accepted {
        Ok(api) => (1, api),
        Err(_) => {
            let mut api = ApiDescription::<StubContext>::new();
            api.register(endpoint("h1", r1.real()?)).unwrap();
            (0, api)
        }
    };
    let pv = probe.map(|p| Version::parse(p).unwrap());
    // the same ranges mean the same thing in the document, on an ordinary path and on the
    // root path (the same endpoints registered once more at "/", ids r1 / r2)
    let doc = match &pv {
        None => "na na".to_string(),
        Some(v) => {
            let mut api_root = ApiDescription::<StubContext>::new();
            api_root.register(endpoint_at("r1", r1.real()?, "/")).unwrap();
            if acc == 1 {
                api_root.register(endpoint_at("r2", r2.real()?, "/")).unwrap();
            }
            format!("{} {}", documented(&api, v, "/x"), documented(&api_root, v, "/"))
        }
    };
    let router = api.into_router();
    let hit = match router.lookup_route(&http::Method::GET, "/x".into(), pv.as_ref()) {
        Ok(res) => res.endpoint.operation_id.clone(),
        Err(e) => format!("{}", e.status_code.as_u16()),
    };
    Some(format!("{} {} {}", acc, hit, doc))
}

/// Three endpoints on one method and path: which registrations are accepted
/// (a refused one is skipped and the next is tried on the accepted set), and
/// which handler a lookup at `probe` reaches.
fn rg3_case(rs: &[&Rg; 3], probe: &str) -> Option<String> {
    let mut accepted: Vec<usize> = vec![];
    let mut flags = vec![];
    for i in 0..3 {
        let mut trial = accepted.clone();
        trial.push(i);
        let reals: Option<Vec<R>> = trial.iter().map(|j| rs[*j].real()).collect();
        let reals = reals?;
        let ok = catch(move || {
            let mut api = ApiDescription::<StubContext>::new();
            for (k, r) in trial.iter().zip(reals.into_iter()) {
                api.register(endpoint(&format!("h{}", k + 1), r)).unwrap();
            }
        })
        .is_ok();
        flags.push(ok as u8);
        if ok {
            accepted.push(i);
        }
    }
    let mut api = ApiDescription::<StubContext>::new();
    for j in &accepted {
        api.register(endpoint(&format!("h{}", j + 1), rs[*j].real()?)).unwrap();
    }
    let router = api.into_router();
    let pv = Version::parse(probe).unwrap();
    let hit = match router.lookup_route(&http::Method::GET, "/x".into(), Some(&pv)) {
        Ok(res) => res.endpoint.operation_id.clone(),
        Err(e) => format!("{}", e.status_code.as_u16()),
    };
    Some(format!("{}{}{} {}", flags[0], flags[1], flags[2], hit))
}

const NUMS: &[&str] = &["0", "1", "2", "9", "10", "18446744073709551615"];
const PRE_IDS: &[&str] = &[
    "0", "1", "2", "10", "99", "100", "alpha", "beta", "rc", "a", "A", "-", "0a", "a0", "x-y", "00a",
];
const BUILD_IDS: &[&str] = &["0", "00", "1", "01", "001", "a", "build", "7", "-"];

fn gen_semver(rng: &mut Rng) -> String {
    let mut s = format!("{}.{}.{}", rng.pick(NUMS), rng.pick(NUMS), rng.pick(NUMS));
    if rng.chance(1, 2) {
        let n = rng.range(1, 3);
        let ids: Vec<&str> = (0..n).map(|_| *rng.pick(PRE_IDS)).collect();
        s.push('-');
        s.push_str(&ids.join("."));
    }
    if rng.chance(1, 3) {
        let n = rng.range(1, 2);
        let ids: Vec<&str> = (0..n).map(|_| *rng.pick(BUILD_IDS)).collect();
        s.push('+');
        s.push_str(&ids.join("."));
    }
    s
}

/// A string near the grammar: mostly one edit away from a valid version.
fn gen_near_semver(rng: &mut Rng) -> String {
    let mut s: Vec<char> = gen_semver(rng).chars().collect();
    let edits = rng.range(0, 2);
    const INS: &[char] = &['0', '1', '.', '-', '+', ' ', 'a', 'v', '_', '\t', 'é', '9', '~'];
    for _ in 0..edits {
        let pos = rng.below(s.len() as u64 + 1) as usize;
        match rng.below(3) {
            0 => s.insert(pos, *rng.pick(INS)),
            1 => {
                if pos < s.len() {
                    s.remove(pos);
                }
            }
            _ => {
                if pos < s.len() {
                    s[pos] = *rng.pick(INS);
                }
            }
        }
    }
    s.into_iter().collect()
}

fn sv_case(out: &mut Out, id: &mut u64, x: &str, y: &str) {
    let px = Version::parse(x);
    let py = Version::parse(y);
    let c = match (&px, &py) {
        (Ok(a), Ok(b)) => match a.cmp(b) {
            std::cmp::Ordering::Less => "lt",
            std::cmp::Ordering::Equal => "eq",
            std::cmp::Ordering::Greater => "gt",
        },
        _ => "na",
    };
    let rx = match &px {
        Ok(a) => a.to_string(),
        Err(_) => "!".to_string(),
    };
    *id += 1;
    out.line(&format!(
        "sv {} {} {} => {} {} {} {}",
        id,
        hex(x.as_bytes()),
        hex(y.as_bytes()),
        px.is_ok() as u8,
        py.is_ok() as u8,
        c,
        rx
    ));
}

fn hd_case(out: &mut Out, id: &mut u64, values: &[Vec<u8>], max: &str, log: &slog::Logger) {
    let name = http::HeaderName::from_static("api-version");
    let mut b = hyper::Request::builder().method("GET").uri("/x");
    for v in values {
        let Ok(hv) = http::HeaderValue::from_bytes(v) else { return };
        b = b.header(&name, hv);
    }
    let req = b.body(dropshot::Body::empty()).unwrap();
    let policy = ClientSpecifiesVersionInHeader::new(name, Version::parse(max).unwrap());
    let got = match policy.request_extract_version(&req, log) {
        Ok(v) => format!("ok:{}", v),
        Err(e) => format!("err:{}", e.status_code.as_u16()),
    };
    let first = match values.first() {
        None => "none".to_string(),
        Some(v) => hex(v),
    };
    *id += 1;
    out.line(&format!("hd {} {} {} => {}", id, first, max, got));
}

fn main() {
    quiet_panics();
    let mut out = Out::new();
    let mut rng = Rng::from_env(5);
    let mut id: u64 = 0;
    let thorough = is_thorough();
    let log = slog::Logger::root(slog::Discard, slog::o!());

    // ---- exhaustive small scope: a 4-chain of endpoints, probes on and between them
    let pool = [
        "0.0.0-0", "0.1.0", "1.0.0-alpha", "1.0.0-alpha.1", "1.0.0", "1.0.0+b", "1.2.0",
        "2.0.0-rc.1", "2.0.0",
    ];
    let ends = [pool[1], pool[3], pool[5], pool[7]];
    let mut ranges = all_ranges(&ends);
    // the empty range `until ⊥` and friends (finding K2 lives here)
    ranges.push(Rg::Until(pool[0].to_string()));
    ranges.push(Rg::From(pool[0].to_string()));
    ranges.push(Rg::FromUntil(pool[0].to_string(), pool[0].to_string()));
    for r in &ranges {
        let real = r.real().unwrap();
        for p in pool.iter() {
            let v = Version::parse(p).unwrap();
            id += 1;
            out.line(&format!("vm {} {} {} => {}", id, r.enc(), p, hooks::versions_matches(&real, Some(&v)) as u8));
        }
        id += 1;
        out.line(&format!("vm {} {} N => {}", id, r.enc(), hooks::versions_matches(&real, None) as u8));
    }
    for r in &ranges {
        for s in &ranges {
            let (a, b) = (r.real().unwrap(), s.real().unwrap());
            id += 1;
            out.line(&format!("vo {} {} {} => {}", id, r.enc(), s.enc(), hooks::versions_overlaps_with(&a, &b) as u8));
        }
    }
    for a in pool.iter() {
        for b in pool.iter() {
            let ok = R::from_until(Version::parse(a).unwrap(), Version::parse(b).unwrap()).is_ok();
            id += 1;
            out.line(&format!("fu {} {} {} => {}", id, a, b, if ok { "ok" } else { "err" }));
        }
    }
    for r in &ranges {
        for s in &ranges {
            for p in pool.iter() {
                if let Some(res) = rg_case(r, s, Some(p)) {
                    id += 1;
                    out.line(&format!("rg {} {} {} {} => {}", id, r.enc(), s.enc(), p, res));
                }
            }
        }
    }

    // ---- three registrations on one path: a conflict with an *earlier* endpoint
    // must be found whatever was registered in between
    let n3 = if thorough { 30000 } else { 3000 };
    for _ in 0..n3 {
        let a = rng.pick(&ranges).clone();
        let b = rng.pick(&ranges).clone();
        let c = rng.pick(&ranges).clone();
        let p = *rng.pick(&pool);
        if let Some(res) = rg3_case(&[&a, &b, &c], p) {
            id += 1;
            out.line(&format!("rg3 {} {} {} {} {} => {}", id, a.enc(), b.enc(), c.enc(), p, res));
        }
    }

    // ---- random ranges over a generated semver pool
    let n_rand = if thorough { 40000 } else { 4000 };
    for _ in 0..n_rand {
        let mut vs: Vec<String> = (0..4).map(|_| gen_semver(&mut rng)).collect();
        // make coincidences likely
        if rng.chance(1, 3) {
            vs[1] = vs[0].clone();
        }
        if rng.chance(1, 4) {
            vs[3] = vs[2].clone();
        }
        let mk = |rng: &mut Rng, vs: &Vec<String>| -> Rg {
            match rng.below(4) {
                0 => Rg::All,
                1 => Rg::From(rng.pick(vs).clone()),
                2 => Rg::Until(rng.pick(vs).clone()),
                _ => {
                    let a = rng.pick(vs).clone();
                    let b = rng.pick(vs).clone();
                    Rg::FromUntil(a, b)
                }
            }
        };
        let r = mk(&mut rng, &vs);
        let s = mk(&mut rng, &vs);
        for x in [&r, &s] {
            if let Rg::FromUntil(a, b) = x {
                let ok = R::from_until(Version::parse(a).unwrap(), Version::parse(b).unwrap()).is_ok();
                id += 1;
                out.line(&format!("fu {} {} {} => {}", id, a, b, if ok { "ok" } else { "err" }));
            }
        }
        let (Some(a), Some(b)) = (r.real(), s.real()) else { continue };
        id += 1;
        out.line(&format!("vo {} {} {} => {}", id, r.enc(), s.enc(), hooks::versions_overlaps_with(&a, &b) as u8));
        let p = rng.pick(&vs).clone();
        let pv = Version::parse(&p).unwrap();
        id += 1;
        out.line(&format!("vm {} {} {} => {}", id, r.enc(), p, hooks::versions_matches(&a, Some(&pv)) as u8));
        if let Some(res) = rg_case(&r, &s, Some(&p)) {
            id += 1;
            out.line(&format!("rg {} {} {} {} => {}", id, r.enc(), s.enc(), p, res));
        }
    }

    // ---- the semver crate contract: parse and precedence
    let chain = [
        "1.0.0-alpha", "1.0.0-alpha.1", "1.0.0-alpha.beta", "1.0.0-beta", "1.0.0-beta.2",
        "1.0.0-beta.11", "1.0.0-rc.1", "1.0.0", "1.0.0+0", "1.0.0+00", "1.0.0+1", "1.0.0+01",
        "1.0.0+a", "1.0.0+a.b",
    ];
    for x in chain.iter() {
        for y in chain.iter() {
            sv_case(&mut out, &mut id, x, y);
        }
    }
    let fixed_bad = [
        "", "1", "1.0", "1.0.0.0", "01.0.0", "1.00.0", "1.0.00", "1.0.0-", "1.0.0+", "1.0.0-01",
        "1.0.0-a..b", "1.0.0-a.", "1.0.0+a..b", " 1.0.0", "1.0.0 ", "v1.0.0", "1.0.0-α",
        "18446744073709551616.0.0", "1.0.0-0.0", "1.0.0-00", "1.0.0+00", "1.0.0-+a", "1.0.0+a+b",
        "1.0.0-a+b-c", "+1.0.0", "-1.0.0", "1.-0.0", "1..0", ".1.0.0", "1.0.0.",
    ];
    for x in fixed_bad.iter() {
        sv_case(&mut out, &mut id, x, "1.0.0");
        sv_case(&mut out, &mut id, "1.0.0", x);
    }
    let n_sv = if thorough { 60000 } else { 6000 };
    for i in 0..n_sv {
        let x = if i % 3 == 0 { gen_near_semver(&mut rng) } else { gen_semver(&mut rng) };
        let y = if i % 5 == 0 { gen_near_semver(&mut rng) } else { gen_semver(&mut rng) };
        sv_case(&mut out, &mut id, &x, &y);
    }

    // ---- header policy
    let maxes = ["2.0.0", "1.0.0", "1.0.0-rc.1", "0.0.0-0", "18446744073709551615.0.0"];
    for max in maxes.iter() {
        hd_case(&mut out, &mut id, &[], max, &log);
        for v in [
            "1.0.0", "2.0.0", "2.0.1", "2.0.0-rc.1", "2.0.0+b", "1.0.0-rc.1", "1.0.0-rc.2", "0.0.0-0",
            "", " 1.0.0", "1.0.0 ", "\t1.0.0", "1.0", "01.0.0", "v1.0.0", "1.0.0,1.0.0", "latest", "*",
        ] {
            hd_case(&mut out, &mut id, &[v.as_bytes().to_vec()], max, &log);
        }
        // obs-text bytes (legal in a header value, not ASCII)
        hd_case(&mut out, &mut id, &[vec![b'1', b'.', b'0', b'.', b'0', 0xe9]], max, &log);
        hd_case(&mut out, &mut id, &[vec![0xff]], max, &log);
        // two header lines: the first decides
        hd_case(&mut out, &mut id, &[b"1.0.0".to_vec(), b"9.9.9".to_vec()], max, &log);
        hd_case(&mut out, &mut id, &[b"9.9.9".to_vec(), b"1.0.0".to_vec()], max, &log);
        hd_case(&mut out, &mut id, &[b"bogus".to_vec(), b"1.0.0".to_vec()], max, &log);
    }
    let n_hd = if thorough { 30000 } else { 3000 };
    for i in 0..n_hd {
        let max = gen_semver(&mut rng);
        let v = match i % 4 {
            0 => gen_near_semver(&mut rng).into_bytes(),
            1 => max.clone().into_bytes(),
            _ => gen_semver(&mut rng).into_bytes(),
        };
        hd_case(&mut out, &mut id, &[v], &max, &log);
    }
    out.flush();
}
