fn main() {
    for ct in ["multipart/form-data; boundary=XYZ", "multipart/form-data; boundary=\"XYZ\"", "multipart/form-data; boundary=\"X Y\\\"Z\"", "multipart/form-data; boundary=XYZ; charset=utf-8", "multipart/form-data; Boundary=XYZ", "multipart/form-data;boundary=XYZ", "multipart/form-data ;  boundary=XYZ", "Multipart/Form-Data; boundary=XYZ", "multipart/mixed; boundary=XYZ", "text/plain; boundary=XYZ", "multipart/form-data; charset=utf-8; boundary=XYZ", "multipart/form-data", "multipart/form-data; boundary=", "multipart/form-data; boundary=a=b"] {
        println!("{:?} -> {:?}", ct, multer::parse_boundary(ct));
    }
}
