//! Router-core correspondence harness (C01, C02, C04, C06).
//!   router lk [c01|c04]   lookups on accepted tables
//!   router reg            registration sequences (accept / refusal kind)
//!   router rc             reachability witnesses on accepted tables
//!   router doc            OpenAPI operations per version, permutation stability
//! Line formats are documented in lean/Driver/C0{1,2,4,6}.lean.

use dsharness::table::*;
use dsharness::util::*;
use semver::Version;
use std::collections::HashMap;

/// (the last two hold a percent sign: a template's literal is matched as it is written,
/// against the request's *decoded* segment, so only `/a%2520b` reaches `/a%20b`)
const LITS: &[&str] = &["a", "b", "c", "users", "v1", "a", "b", "c", "users", "v1", "a%20b", "50%25"];
const VARS: &[&str] = &["x", "y", "z"];
const WILDS: &[&str] = &["r", "x"];
const METHODS: &[&str] = &["GET", "PUT", "POST", "DELETE"];
const CHAIN: &[&str] = &["1.0.0", "2.0.0", "3.0.0"];
const PROBES: &[&str] = &["0.5.0", "1.0.0", "1.5.0", "2.0.0", "2.5.0", "3.0.0", "3.5.0", "2.0.0-rc.1", "2.0.0+a", "2.0.0+a.1", "2.0.0+b"];

#[derive(Clone)]
enum Choice {
    Lits,
    Var(String),
    Wild(String),
}

/// Generates templates that mostly agree with each other on the kind of
/// segment at each prefix (so that large tables are accepted), with a
/// controlled rate of disagreement (so that every conflict kind occurs).
struct TemplateGen {
    choices: HashMap<String, Choice>,
    follow_pct: u64,
}

impl TemplateGen {
    fn new(follow_pct: u64) -> Self {
        TemplateGen { choices: HashMap::new(), follow_pct }
    }
    fn random_choice(rng: &mut Rng) -> Choice {
        match rng.below(10) {
            0..=5 => Choice::Lits,
            6..=8 => Choice::Var(rng.pick(VARS).to_string()),
            _ => Choice::Wild(rng.pick(WILDS).to_string()),
        }
    }
    fn gen(&mut self, rng: &mut Rng) -> String {
        let depth = rng.below(5);
        let mut prefix = String::new();
        for _ in 0..depth {
            let ch = match self.choices.get(&prefix) {
                Some(c) if rng.chance(self.follow_pct, 100) => c.clone(),
                Some(_) => Self::random_choice(rng),
                None => {
                    let c = Self::random_choice(rng);
                    self.choices.insert(prefix.clone(), c.clone());
                    c
                }
            };
            match ch {
                Choice::Lits => {
                    prefix.push('/');
                    prefix.push_str(rng.pick_s(LITS));
                }
                Choice::Var(n) => {
                    prefix.push_str(&format!("/{{{}}}", n));
                }
                Choice::Wild(n) => {
                    prefix.push_str(&format!("/{{{}:.*}}", n));
                    if rng.chance(97, 100) {
                        break;
                    }
                }
            }
        }
        if prefix.is_empty() {
            prefix.push('/');
        } else if rng.chance(1, 12) {
            prefix.push('/'); // a trailing slash is dropped by the router
        }
        prefix
    }
}

fn gen_range(rng: &mut Rng, versioned_pct: u64) -> Rg {
    if !rng.chance(versioned_pct, 100) {
        return Rg::All;
    }
    let pool: Vec<&str> = match rng.below(10) {
        0 => vec!["1.0.0", "2.0.0-rc.1", "2.0.0", "3.0.0"],
        // bounds that differ in build metadata only (the `semver` crate orders them)
        1 => vec!["1.0.0", "2.0.0+a", "2.0.0+b", "3.0.0"],
        _ => CHAIN.to_vec(),
    };
    match rng.below(3) {
        0 => Rg::From(rng.pick(&pool).to_string()),
        1 => Rg::Until(rng.pick(&pool).to_string()),
        _ => {
            let i = rng.below(pool.len() as u64) as usize;
            let j = rng.range(i as u64, pool.len() as u64 - 1) as usize;
            Rg::FromUntil(pool[i].to_string(), pool[j].to_string())
        }
    }
}

fn gen_method(rng: &mut Rng) -> String {
    let m = rng.pick(METHODS).to_string();
    if rng.chance(1, 25) {
        m.to_lowercase() // an extension method that upper-cases to a standard one
    } else {
        m
    }
}

/// Grow an accepted table: candidates refused by the real router are dropped.
fn gen_accepted_table(rng: &mut Rng, target: usize, versioned_pct: u64, same_path_pct: u64) -> Vec<Ep> {
    let mut tg = TemplateGen::new(92);
    let mut eps: Vec<Ep> = vec![];
    let mut tries = 0;
    while eps.len() < target && tries < target * 6 {
        tries += 1;
        let path = if !eps.is_empty() && rng.chance(same_path_pct, 100) {
            eps[rng.below(eps.len() as u64) as usize].path.clone()
        } else {
            tg.gen(rng)
        };
        let cand = Ep {
            id: eps.len(),
            method: gen_method(rng),
            path,
            range: gen_range(rng, versioned_pct),
            visible: !rng.chance(1, 6),
        };
        if cand.range.real().is_none() {
            continue;
        }
        let mut attempt = eps.clone();
        attempt.push(cand);
        let (k, _, _) = register_all(&attempt);
        if k == attempt.len() {
            eps = attempt;
        }
    }
    eps
}

const PCT_VALUES: &[&str] = &[
    "a%2Fb", "%2F", "%2f%2F", "x%2f..", "..%2Fy", ".%2F.", "%61", "%41%2fb%2Fc", "a%252Fb", "%2e%2e", "%2E", "a%20b", "%C3%A9",
    "..%2F..%2Fetc", "%2Fa", "a%2F",
];

fn instantiate(rng: &mut Rng, template: &str) -> String {
    let mut out = String::new();
    for seg in template.split('/').filter(|s| !s.is_empty()) {
        if seg.starts_with('{') {
            if seg.contains(':') {
                let n = rng.below(4);
                for _ in 0..n {
                    out.push('/');
                    if rng.chance(1, 5) {
                        // percent-encoded spellings: an encoded slash stays inside its
                        // component, an encoded letter is that letter
                        out.push_str(rng.pick_s(PCT_VALUES));
                    } else {
                        out.push_str(rng.pick_s(&["a", "b", "q", "x", "users"]));
                    }
                }
            } else {
                out.push('/');
                if rng.chance(1, 8) {
                    out.push_str(rng.pick_s(PCT_VALUES));
                } else {
                    out.push_str(rng.pick_s(&["a", "b", "q", "x", "42"]));
                }
            }
        } else {
            out.push('/');
            // a literal with a percent sign in it is reached by escaping that sign (mostly done)
            if seg.contains('%') && !rng.chance(1, 4) {
                out.push_str(&seg.replace('%', "%25"));
            } else {
                out.push_str(seg);
            }
        }
    }
    out
}

fn perturb_path(rng: &mut Rng, p: &str) -> String {
    let mut segs: Vec<String> = p.split('/').filter(|s| !s.is_empty()).map(|s| s.to_string()).collect();
    match rng.below(6) {
        0 => {
            if !segs.is_empty() {
                segs.pop();
            }
        }
        1 => segs.push(rng.pick(&["a", "b", "q"]).to_string()),
        2 => {
            if !segs.is_empty() {
                let i = rng.below(segs.len() as u64) as usize;
                segs[i] = rng.pick(&["a", "b", "c", "q", "users"]).to_string();
            }
        }
        _ => {}
    }
    // random extra slashes (equivalent spellings)
    let mut out = String::new();
    if segs.is_empty() {
        return if rng.chance(1, 3) { "//".to_string() } else { "/".to_string() };
    }
    for s in &segs {
        out.push('/');
        if rng.chance(1, 10) {
            out.push('/');
        }
        out.push_str(s);
    }
    if rng.chance(1, 6) {
        out.push('/');
    }
    out
}

fn gen_requests(rng: &mut Rng, eps: &[Ep], n: usize) -> Vec<(String, String, Option<Version>)> {
    let all_unversioned = eps.iter().all(|e| e.range == Rg::All);
    let mut reqs = vec![];
    for _ in 0..n {
        let path = if eps.is_empty() || rng.chance(1, 10) {
            { let b = rng.pick_s(&["/", "/a", "/a/b", "/q/q/q"]); perturb_path(rng, b) }
        } else {
            let e = &eps[rng.below(eps.len() as u64) as usize];
            let p = instantiate(rng, &e.path);
            perturb_path(rng, &p)
        };
        let method = match rng.below(10) {
            // methods no table holds: an extension method and two the framework might be
            // tempted to treat specially
            0 => rng.pick(&["PATCH", "PATCH", "TRACE", "OPTIONS", "HEAD", "HEAD"]).to_string(),
            1 => rng.pick(METHODS).to_lowercase(),
            _ => {
                if !eps.is_empty() && rng.chance(2, 3) {
                    eps[rng.below(eps.len() as u64) as usize].method.clone()
                } else {
                    rng.pick(METHODS).to_string()
                }
            }
        };
        let version = if all_unversioned && rng.chance(1, 2) {
            None
        } else {
            Some(Version::parse(rng.pick_s(PROBES)).unwrap())
        };
        reqs.push((method, path, version));
    }
    reqs
}

fn emit_lookups(out: &mut Out, id: &mut u64, eps: &[Ep], reqs: &[(String, String, Option<Version>)]) {
    let (k, _, api) = register_all(eps);
    if k != eps.len() {
        return;
    }
    let table = enc_table(eps);
    let results = lookups(api, reqs);
    for ((m, p, v), r) in reqs.iter().zip(results.iter()) {
        *id += 1;
        let vs = match v {
            Some(v) => v.to_string(),
            None => "N".to_string(),
        };
        out.line(&format!("lk {} {} {} {} {} => {}", id, table, m, hex(p.as_bytes()), vs, r));
    }
}

fn permute<T: Clone>(rng: &mut Rng, xs: &[T]) -> Vec<T> {
    let mut v = xs.to_vec();
    for i in (1..v.len()).rev() {
        let j = rng.below(i as u64 + 1) as usize;
        v.swap(i, j);
    }
    v
}

/// Small alphabet for the exhaustive block.
fn small_templates() -> Vec<String> {
    let segs = ["a", "b", "{x}", "{y}", "{r:.*}"];
    let mut out = vec!["/".to_string()];
    for s in segs.iter() {
        out.push(format!("/{}", s));
    }
    for s in segs.iter().take(4) {
        for t in segs.iter() {
            out.push(format!("/{}/{}", s, t));
        }
    }
    out
}

fn small_ranges() -> Vec<Rg> {
    vec![
        Rg::All,
        Rg::From("1.0.0".into()),
        Rg::From("2.0.0".into()),
        Rg::Until("1.0.0".into()),
        Rg::Until("2.0.0".into()),
        Rg::FromUntil("1.0.0".into(), "2.0.0".into()),
        Rg::FromUntil("2.0.0".into(), "2.0.0".into()),
        Rg::FromUntil("2.0.0".into(), "3.0.0".into()),
    ]
}

fn small_descriptors() -> Vec<(String, String, Rg)> {
    let mut out = vec![];
    for t in small_templates() {
        for m in ["GET", "PUT"] {
            for r in small_ranges() {
                out.push((m.to_string(), t.clone(), r));
            }
        }
    }
    out
}

fn stream_lk(profile: &str) {
    let mut out = Out::new();
    let mut rng = Rng::from_env(if profile == "c04" { 4 } else { 1 });
    let mut id = 0u64;
    let thorough = is_thorough();
    let (versioned_pct, same_path_pct) = if profile == "c04" { (75, 55) } else { (45, 25) };

    // corpus: the K1 table and the D3 table
    let k1 = vec![
        Ep { id: 0, method: "PUT".into(), path: "/a".into(), range: Rg::All, visible: true },
        Ep { id: 1, method: "GET".into(), path: "/a/{r:.*}".into(), range: Rg::All, visible: true },
        Ep { id: 2, method: "GET".into(), path: "/a".into(), range: Rg::All, visible: true },
    ];
    let reqs: Vec<(String, String, Option<Version>)> = ["PUT", "GET", "DELETE"]
        .iter()
        .flat_map(|m| ["/a", "/a/", "/a/b", "/"].iter().map(move |p| (m.to_string(), p.to_string(), None)))
        .collect();
    emit_lookups(&mut out, &mut id, &k1, &reqs);
    let d3 = vec![
        Ep { id: 0, method: "GET".into(), path: "/m".into(), range: Rg::Until("2.0.0".into()), visible: true },
        Ep { id: 1, method: "PUT".into(), path: "/m".into(), range: Rg::From("2.0.0".into()), visible: true },
        Ep { id: 2, method: "DELETE".into(), path: "/m".into(), range: Rg::All, visible: true },
    ];
    let reqs: Vec<(String, String, Option<Version>)> = ["POST", "GET", "PUT", "DELETE"]
        .iter()
        .flat_map(|m| {
            ["1.0.0", "2.0.0", "3.0.0"]
                .iter()
                .map(move |v| (m.to_string(), "/m".to_string(), Some(Version::parse(v).unwrap())))
        })
        .collect();
    emit_lookups(&mut out, &mut id, &d3, &reqs);

    // exhaustive small scope: sampled pairs in quick, every pair in thorough
    let descs = small_descriptors();
    let probes: Vec<String> = {
        let mut p = vec!["/".to_string()];
        for a in ["a", "b"] {
            p.push(format!("/{}", a));
            for b in ["a", "b"] {
                p.push(format!("/{}/{}", a, b));
                for c in ["a", "b"] {
                    p.push(format!("/{}/{}/{}", a, b, c));
                }
            }
        }
        p
    };
    // quick: a sample of the ordered pairs; thorough: every ordered pair (416 x 416)
    let pair_list: Vec<(usize, usize)> = if thorough {
        (0..descs.len()).flat_map(|i| (0..descs.len()).map(move |j| (i, j))).collect()
    } else {
        (0..1500).map(|_| (rng.below(descs.len() as u64) as usize, rng.below(descs.len() as u64) as usize)).collect()
    };
    for (i1, i2) in pair_list {
        let d1 = descs[i1].clone();
        let d2 = descs[i2].clone();
        let eps = vec![
            Ep { id: 0, method: d1.0, path: d1.1, range: d1.2, visible: true },
            Ep { id: 1, method: d2.0, path: d2.1, range: d2.2, visible: true },
        ];
        let mut reqs = vec![];
        for _ in 0..(if thorough { 8 } else { 12 }) {
            let p = rng.pick(&probes).clone();
            let m = rng.pick(&["GET", "PUT", "POST"]).to_string();
            let v = Version::parse(rng.pick_s(&["0.5.0", "1.0.0", "2.0.0", "3.0.0"])).unwrap();
            reqs.push((m, p, Some(v)));
        }
        emit_lookups(&mut out, &mut id, &eps, &reqs);
    }

    // random larger tables, each also under a permuted registration order
    let n_tables = if thorough { 15000 } else { 500 };
    for _ in 0..n_tables {
        let size = rng.range(1, 9) as usize;
        let eps = gen_accepted_table(&mut rng, size, versioned_pct, same_path_pct);
        let reqs = gen_requests(&mut rng, &eps, 24);
        emit_lookups(&mut out, &mut id, &eps, &reqs);
        let perm = permute(&mut rng, &eps);
        emit_lookups(&mut out, &mut id, &perm, &reqs);
    }
    out.flush();
}

fn stream_reg() {
    let mut out = Out::new();
    let mut rng = Rng::from_env(2);
    let mut id = 0u64;
    let thorough = is_thorough();

    let emit = |out: &mut Out, id: &mut u64, eps: &[Ep]| {
        let (k, kind, _) = register_all(eps);
        *id += 1;
        out.line(&format!("reg {} {} => {} {}", id, enc_table(eps), k, kind));
    };

    // malformed templates, alone and after a good endpoint
    let bad = [
        "", "a", "a/b", "//", "/a//b", "//a", "/a/", "/a/b/", "/{", "/}", "/{}", "/{x", "/x}", "/{x}}", "/{{x}",
        "/{:.*}", "/{x:}", "/{x:.+}", "/{x:.*}/a", "/{x:.*}/{y}", "/{x}/{x}", "/{x}/a/{x:.*}", "/a{x}", "/{x}a",
        "/{x:.*:.*}", "/{x y}", "/%7Bx%7D", "/a b", "/{x}/", "/{x:.*}/",
    ];
    for b in bad.iter() {
        emit(&mut out, &mut id, &[Ep { id: 0, method: "GET".into(), path: b.to_string(), range: Rg::All, visible: true }]);
        emit(
            &mut out,
            &mut id,
            &[
                Ep { id: 0, method: "GET".into(), path: "/ok".into(), range: Rg::All, visible: true },
                Ep { id: 1, method: "GET".into(), path: b.to_string(), range: Rg::All, visible: true },
            ],
        );
    }

    // corpus: K2 (the empty range `until 0.0.0-0` reported as a conflict) and the D2 witness
    for (r1, r2) in [
        (Rg::All, Rg::Until("0.0.0-0".into())),
        (Rg::Until("0.0.0-0".into()), Rg::Until("1.0.0".into())),
        (Rg::From("1.0.0".into()), Rg::FromUntil("1.0.0".into(), "1.0.0".into())),
        (Rg::FromUntil("1.0.0".into(), "1.0.0".into()), Rg::From("1.0.0".into())),
    ] {
        emit(
            &mut out,
            &mut id,
            &[
                Ep { id: 0, method: "GET".into(), path: "/v".into(), range: r1, visible: true },
                Ep { id: 1, method: "GET".into(), path: "/v".into(), range: r2, visible: true },
            ],
        );
    }

    // exhaustive: all ordered pairs of small descriptors (sampled in quick)
    let descs = small_descriptors();
    let every = if thorough { 1 } else { 5 };
    let mut n = 0usize;
    for d1 in descs.iter() {
        for d2 in descs.iter() {
            n += 1;
            if n % every != (rng.0 as usize) % every {
                continue;
            }
            let eps = vec![
                Ep { id: 0, method: d1.0.clone(), path: d1.1.clone(), range: d1.2.clone(), visible: true },
                Ep { id: 1, method: d2.0.clone(), path: d2.1.clone(), range: d2.2.clone(), visible: true },
            ];
            emit(&mut out, &mut id, &eps);
        }
    }

    // random sequences with a high conflict rate
    let n_seq = if thorough { 60000 } else { 6000 };
    for _ in 0..n_seq {
        let mut tg = TemplateGen::new(75);
        let len = rng.range(2, 8) as usize;
        let mut eps = vec![];
        for i in 0..len {
            let path = if i > 0 && rng.chance(1, 3) {
                let p: &Ep = &eps[rng.below(i as u64) as usize];
                p.path.clone()
            } else {
                tg.gen(&mut rng)
            };
            let r = gen_range(&mut rng, 50);
            if r.real().is_none() {
                continue;
            }
            eps.push(Ep { id: i, method: gen_method(&mut rng), path, range: r, visible: true });
        }
        emit(&mut out, &mut id, &eps);
        // and the same endpoints in another order
        let perm = permute(&mut rng, &eps);
        emit(&mut out, &mut id, &perm);
    }
    out.flush();
}

/// Reachability: for every endpoint of an accepted table, the canonical
/// witness request (variables ↦ "x", wildcard ↦ nothing, a version inside
/// its range) must reach it.
fn stream_rc() {
    let mut out = Out::new();
    let mut rng = Rng::from_env(3);
    let mut id = 0u64;
    let thorough = is_thorough();
    let n_tables = if thorough { 8000 } else { 800 };
    let mut tables: Vec<Vec<Ep>> = vec![];
    // corpus: K1 and the empty range `until ⊥` (K2)
    tables.push(vec![
        Ep { id: 0, method: "PUT".into(), path: "/a".into(), range: Rg::All, visible: true },
        Ep { id: 1, method: "GET".into(), path: "/a/{r:.*}".into(), range: Rg::All, visible: true },
    ]);
    tables.push(vec![Ep { id: 0, method: "GET".into(), path: "/e".into(), range: Rg::Until("0.0.0-0".into()), visible: true }]);
    for _ in 0..n_tables {
        let size = rng.range(1, 8) as usize;
        tables.push(gen_accepted_table(&mut rng, size, 50, 30));
    }
    for eps in tables {
        let (k, _, api) = register_all(&eps);
        if k != eps.len() {
            continue;
        }
        let mut reqs = vec![];
        for e in &eps {
            let mut p = String::new();
            for seg in e.path.split('/').filter(|s| !s.is_empty()) {
                if seg.starts_with('{') {
                    if !seg.contains(':') {
                        p.push_str("/x");
                    }
                } else {
                    p.push('/');
                    p.push_str(&seg.replace('%', "%25"));
                }
            }
            if p.is_empty() {
                p.push('/');
            }
            // a version inside the range (its own lower end, or just below its upper end)
            let v = match &e.range {
                Rg::All => "1.0.0".to_string(),
                Rg::From(a) => a.clone(),
                Rg::FromUntil(a, _) => a.clone(),
                Rg::Until(_) => "0.0.0-0".to_string(),
            };
            reqs.push((e.method.clone(), p, Some(Version::parse(&v).unwrap())));
        }
        let table = enc_table(&eps);
        let results = lookups(api, &reqs);
        for ((e, (m, p, v)), r) in eps.iter().zip(reqs.iter()).zip(results.iter()) {
            id += 1;
            out.line(&format!(
                "rc {} {} {} {} {} {} => {}",
                id,
                table,
                e.id,
                m,
                hex(p.as_bytes()),
                v.as_ref().unwrap(),
                r
            ));
        }
    }
    out.flush();
}

fn stream_doc() {
    let mut out = Out::new();
    let mut rng = Rng::from_env(6);
    let mut id = 0u64;
    let thorough = is_thorough();
    let n_tables = if thorough { 5000 } else { 500 };
    for _ in 0..n_tables {
        let size = rng.range(0, 9) as usize;
        // the document generator only knows the standard methods
        let eps: Vec<Ep> = gen_accepted_table(&mut rng, size, 60, 30);
        let (k, _, api) = register_all(&eps);
        if k != eps.len() {
            continue;
        }
        let perms: Vec<Vec<Ep>> = (0..3).map(|_| permute(&mut rng, &eps)).collect();
        let mut perm_apis: Vec<_> = perms.iter().map(|p| register_all(p)).collect();
        const DOC_VERSIONS: [&str; 7] = ["0.5.0", "1.0.0", "1.5.0", "2.0.0", "2.0.0-rc.1", "3.0.0", "4.0.0"];
        // a fourth history: the same endpoints (original order), with documents generated
        // at every version before the first and after each registration - the final
        // documents must not depend on which documents were asked for along the way
        {
            let mut api_h = dropshot::ApiDescription::<dropshot::StubContext>::new();
            let mut k = 0;
            for e in eps.iter() {
                for v in DOC_VERSIONS {
                    let _ = doc_ops(&api_h, v);
                }
                match real_endpoint(e).map(|r| api_h.register(r)) {
                    Some(Ok(())) => k += 1,
                    _ => break,
                }
            }
            for v in DOC_VERSIONS {
                let _ = doc_ops(&api_h, v);
            }
            perm_apis.push((k, "history".to_string(), api_h));
        }
        for v in DOC_VERSIONS {
            let (ops, bytes) = doc_ops(&api, v);
            let (_, bytes2) = doc_ops(&api, v);
            let mut distinct = 1;
            let mut perm_ok = true;
            for (pk, _, papi) in perm_apis.iter() {
                if *pk != eps.len() {
                    perm_ok = false;
                    continue;
                }
                let (_, pb) = doc_ops(papi, v);
                if pb != bytes {
                    distinct += 1;
                }
            }
            let json: serde_json::Value = serde_json::from_slice(&bytes).unwrap();
            let mut refs = vec![];
            collect_refs(&json, &mut refs);
            let unresolved = refs.iter().filter(|r| !ref_resolves(&json, r)).count();
            let mut ops_s: Vec<String> =
                ops.iter().map(|(p, m, o)| format!("{};{};{}", hex(p.as_bytes()), m, o)).collect();
            ops_s.sort();
            id += 1;
            out.line(&format!(
                "doc {} {} {} => {} {} {} {} {} {} {}",
                id,
                enc_table(&eps),
                v,
                ops_s.len(),
                if ops_s.is_empty() { "-".to_string() } else { ops_s.join(",") },
                distinct,
                (bytes == bytes2) as u8,
                perm_ok as u8,
                unresolved,
                {
                    let t = doc_tags(&bytes);
                    if t.is_empty() { "-".to_string() } else { t.join(",") }
                }
            ));
        }
    }
    out.flush();
}

fn gen_shape(rng: &mut Rng, depth: u32, dep_names: &[String]) -> Shape {
    match rng.below(if depth == 0 { 6 } else { 10 }) {
        0..=3 => Shape::Typed(*rng.pick(&['b', 'n', 's', 'i', 's', 's', 'a', 'o', 'z']), !rng.chance(1, 8)),
        4 => Shape::Other,
        5 => {
            if dep_names.is_empty() {
                Shape::Typed('s', true)
            } else {
                Shape::Ref(rng.pick(dep_names).clone())
            }
        }
        6 => Shape::ArrayOf(Box::new(gen_shape(rng, depth - 1, dep_names))),
        _ => {
            let k = *rng.pick(&['a', 'y', 'o']);
            let n = rng.range(1, 3);
            Shape::Sub(k, (0..n).map(|_| gen_shape(rng, depth - 1, dep_names)).collect())
        }
    }
}

/// Tag policy and parameter validation through `ApiDescription::register`.
fn stream_pv() {
    let mut out = Out::new();
    let mut rng = Rng::from_env(7);
    let mut id = 0u64;
    let n = if is_thorough() { 80000 } else { 8000 };
    let paths = ["/a", "/a/{x}", "/{x}/{y}", "/a/{r:.*}", "/{x}/b/{r:.*}", "/"];
    for i in 0..n {
        // definitions never refer forward to themselves: dep k may only reference deps < k
        let mut deps: Vec<(String, Shape)> = vec![];
        for k in 0..rng.below(3) {
            let names: Vec<String> = deps.iter().map(|d| d.0.clone()).collect();
            deps.push((format!("D{}", k), gen_shape(&mut rng, 2, &names)));
        }
        let dep_names: Vec<String> = deps.iter().map(|d| d.0.clone()).collect();
        let path = rng.pick_s(&paths).to_string();
        let mut params = vec![];
        // mostly the right path parameters with the right types
        for (name, wild) in template_vars(&path) {
            if rng.chance(1, 12) {
                continue; // dropped: mismatch
            }
            let shape = if rng.chance(3, 4) {
                if wild { Shape::ArrayOf(Box::new(Shape::Typed('s', true))) } else { Shape::Typed(*rng.pick(&['s', 'i', 'b', 'n']), true) }
            } else {
                gen_shape(&mut rng, 2, &dep_names)
            };
            params.push(PvParam { loc: 'p', name, shape });
        }
        if rng.chance(1, 12) {
            params.push(PvParam { loc: 'p', name: "extra".into(), shape: Shape::Typed('s', true) });
        }
        for _ in 0..rng.below(3) {
            let name = rng.pick_s(&["q", "limit", "x", "r", "y"]).to_string();
            let shape = if rng.chance(2, 3) { Shape::Typed(*rng.pick(&['s', 'i', 'b', 'n']), true) } else { gen_shape(&mut rng, 2, &dep_names) };
            params.push(PvParam { loc: 'q', name, shape });
        }
        let all_tags = ["t1", "t2", "t3"];
        let defined: Vec<String> = all_tags.iter().filter(|_| rng.chance(1, 2)).map(|s| s.to_string()).collect();
        let ntags = if i % 3 == 0 { rng.below(3) } else { 1 };
        let tags: Vec<String> = (0..ntags).map(|_| rng.pick_s(&all_tags).to_string()).collect();
        let case = PvCase {
            policy: *rng.pick(&['n', 'a', 'e']),
            allow_other: rng.chance(1, 2),
            defined,
            visible: !rng.chance(1, 5),
            tags,
            path,
            deps,
            params,
        };
        let res = case.run();
        id += 1;
        out.line(&format!("pv {} {} => {}", id, case.enc(), res));
    }
    out.flush();
}

/// The same lookups through a live versioned server (`http_request_handle`:
/// header policy -> resolved version -> router -> handler -> response).
fn stream_sv(profile: &str) {
    let mut out = Out::new();
    let mut rng = Rng::from_env(if profile == "c04" { 14 } else { 11 });
    let mut id = 0u64;
    let (versioned_pct, same_path_pct) = if profile == "c04" { (75, 55) } else { (55, 30) };
    let n_tables = if is_thorough() { 1500 } else { 150 };
    let rt = tokio::runtime::Builder::new_multi_thread().worker_threads(4).enable_all().build().unwrap();
    for _ in 0..n_tables {
        let size = rng.range(1, 8) as usize;
        let eps = gen_accepted_table(&mut rng, size, versioned_pct, same_path_pct);
        // every request carries a version (the policy refuses requests without one)
        let reqs: Vec<(String, String, Option<Version>)> = gen_requests(&mut rng, &eps, 16)
            .into_iter()
            .map(|(m, p, v)| {
                let v = v.unwrap_or_else(|| Version::parse(rng.pick_s(PROBES)).unwrap());
                // a lower-case method token on the wire is an extension method; keep it
                (m, p, Some(v))
            })
            .collect();
        let Some(results) = rt.block_on(live_lookups(&eps, &reqs, "3.5.0")) else { continue };
        let table = enc_table(&eps);
        for ((m, p, v), r) in reqs.iter().zip(results.iter()) {
            id += 1;
            out.line(&format!("lk {} {} {} {} {} => {}", id, table, m, hex(p.as_bytes()), v.as_ref().unwrap(), r));
        }
    }
    out.flush();
}

/// Header version policy on a live server: `hd` lines for the C05 driver.
/// A 200 is reported as `ok:<the version the header spells>` only if the
/// handler that ran is the one whose bracket contains that version.
fn stream_hv() {
    use dsharness::server::*;
    let mut out = Out::new();
    let mut rng = Rng::from_env(15);
    let mut id = 0u64;
    let rt = tokio::runtime::Builder::new_multi_thread().worker_threads(4).enable_all().build().unwrap();
    let eps = vec![
        Ep { id: 0, method: "GET".into(), path: "/v".into(), range: Rg::Until("1.0.0".into()), visible: true },
        Ep { id: 1, method: "GET".into(), path: "/v".into(), range: Rg::FromUntil("1.0.0".into(), "2.0.0".into()), visible: true },
        Ep { id: 2, method: "GET".into(), path: "/v".into(), range: Rg::From("2.0.0".into()), visible: true },
    ];
    let n = if is_thorough() { 6000 } else { 600 };
    // the policy must also be enforced when no endpoint is version-restricted
    // (one unrestricted endpoint answers every version: bracket "0")
    let eps_unrestricted =
        vec![Ep { id: 0, method: "GET".into(), path: "/v".into(), range: Rg::All, visible: true }];
    for (max, restricted) in [("2.5.0", true), ("1.0.0", true), ("1.0.0-rc.1", true), ("2.5.0", false), ("1.0.0-rc.1", false)] {
        let eps: &Vec<Ep> = if restricted { &eps } else { &eps_unrestricted };
        let mut api = dropshot::ApiDescription::<()>::new();
        for e in eps {
            api.register(live_endpoint(e).unwrap()).unwrap();
        }
        let policy = dropshot::VersionPolicy::Dynamic(Box::new(dropshot::ClientSpecifiesVersionInHeader::new(
            http::HeaderName::from_static("api-version"),
            Version::parse(max).unwrap(),
        )));
        let server = rt.block_on(async { start_server(api, (), ServerOpts { version_policy: Some(policy), ..Default::default() }) });
        let addr = server.local_addr();
        let mut cases: Vec<Option<Vec<u8>>> = vec![None];
        for v in ["0.5.0", "1.0.0", "1.5.0", "2.0.0", "2.5.0", "2.5.1", "3.0.0", "1.0.0-rc.1", "1.0.0-rc.2", "2.0.0-alpha",
                  "1.0.0+b", "2.5.0+b", "", "1.0", "01.0.0", "v1.0.0", "1.0.0,1.0.0", "latest", "1.0.0 ", "\t1.0.0"] {
            cases.push(Some(v.replace("\\t", "\t").into_bytes()));
        }
        cases.push(Some(vec![b'1', b'.', b'0', b'.', b'0', 0xe9]));
        for _ in 0..n / 3 {
            let mut v = format!("{}.{}.{}", rng.below(4), rng.below(3), rng.below(3));
            if rng.chance(1, 4) {
                v.push_str(rng.pick_s(&["-rc.1", "-0", "+x", "-", "+", ".0", " "]));
            }
            cases.push(Some(v.into_bytes()));
        }
        for c in cases {
            let mut req = b"GET /v HTTP/1.1\r\nhost: localhost\r\n".to_vec();
            if let Some(v) = &c {
                req.extend_from_slice(b"api-version: ");
                req.extend_from_slice(v);
                req.extend_from_slice(b"\r\n");
            }
            req.extend_from_slice(b"\r\n");
            let Some(resp) = roundtrip(addr, &req, false) else { continue };
            // hyper trims optional whitespace around a header value before dropshot sees it
            let seen: Option<Vec<u8>> = c.as_ref().map(|v| {
                let s: &[u8] = v;
                let start = s.iter().position(|b| *b != b' ' && *b != b'\t').unwrap_or(s.len());
                let end = s.iter().rposition(|b| *b != b' ' && *b != b'\t').map(|i| i + 1).unwrap_or(start);
                s[start..end].to_vec()
            });
            let got = if resp.status == 200 {
                let body = String::from_utf8_lossy(&resp.body).to_string();
                let parsed = seen.as_ref().and_then(|v| std::str::from_utf8(v).ok().map(|s| s.to_string())).and_then(|s| Version::parse(&s).ok());
                match parsed {
                    Some(v) => {
                        let bracket = if !restricted || v < Version::parse("1.0.0").unwrap() { "0" } else if v < Version::parse("2.0.0").unwrap() { "1" } else { "2" };
                        if body.starts_with(&format!("ok:{}:", bracket)) { format!("ok:{}", v) } else { format!("ok:wrong-handler:{}", body) }
                    }
                    None => "ok:unparsable-but-served".to_string(),
                }
            } else {
                format!("err:{}", resp.status)
            };
            id += 1;
            out.line(&format!("hd {} {} {} => {}", id, match &seen { None => "none".to_string(), Some(v) => hex(v) }, max, got));
        }
        rt.block_on(async { server.close().await.unwrap() });
    }
    out.flush();
}

/// An unversioned server must refuse to start over any table with a
/// version-restricted endpoint, whatever the registration order; when it does
/// start, every request is routed without a version.
fn stream_us() {
    use dsharness::server::*;
    let mut out = Out::new();
    let mut rng = Rng::from_env(16);
    let mut id = 0u64;
    let n_tables = if is_thorough() { 3000 } else { 300 };
    let rt = tokio::runtime::Builder::new_multi_thread().worker_threads(2).enable_all().build().unwrap();
    for i in 0..n_tables {
        let size = rng.range(1, 6) as usize;
        // few versioned endpoints, so that "the last one registered is unrestricted" is common
        let eps = gen_accepted_table(&mut rng, size, if i % 3 == 0 { 0 } else { 30 }, 30);
        for order in 0..3 {
            let eps = if order == 0 { eps.clone() } else { permute(&mut rng, &eps) };
            let mut api = dropshot::ApiDescription::<()>::new();
            let mut ok = true;
            for e in &eps {
                match live_endpoint(e) {
                    Some(ep) => {
                        if api.register(ep).is_err() {
                            ok = false;
                        }
                    }
                    None => ok = false,
                }
            }
            if !ok {
                continue;
            }
            let res = rt.block_on(async {
                match dropshot::ServerBuilder::new(api, (), discard_log())
                    .config(dropshot::ConfigDropshot { bind_address: "127.0.0.1:0".parse().unwrap(), ..Default::default() })
                    .start()
                {
                    Ok(server) => {
                        server.close().await.ok();
                        "started".to_string()
                    }
                    Err(e) => {
                        let m = format!("{}", e);
                        if m.contains("unversioned servers cannot have endpoints with specific versions") {
                            "refused".to_string()
                        } else {
                            format!("error:{}", hex(m.as_bytes()))
                        }
                    }
                }
            });
            id += 1;
            out.line(&format!("us {} {} => {}", id, enc_table(&eps), res));
        }
    }
    out.flush();
}

fn main() {
    quiet_panics();
    let args: Vec<String> = std::env::args().collect();
    match args.get(1).map(|s| s.as_str()) {
        Some("lk") => stream_lk(args.get(2).map(|s| s.as_str()).unwrap_or("c01")),
        Some("reg") => stream_reg(),
        Some("rc") => stream_rc(),
        Some("doc") => stream_doc(),
        Some("pv") => stream_pv(),
        Some("us") => stream_us(),
        Some("hv") => stream_hv(),
        Some("sv") => stream_sv(args.get(2).map(|s| s.as_str()).unwrap_or("c01")),
        _ => {
            eprintln!("usage: router lk [c01|c04] | reg | rc | doc");
            std::process::exit(2);
        }
    }
}
