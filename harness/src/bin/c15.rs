//! C15 correspondence harness: follow next-page tokens on live paginated
//! endpoints until none is returned and print every page.
//!
//! The handlers are this harness's own keyset handlers over in-memory
//! `BTreeMap`s, modelled on dropshot's `examples/pagination-basic.rs` and
//! `examples/pagination-multiple-sorts.rs`; dropshot's own pieces in the loop
//! are the `Query<PaginationParams<..>>` extractor (token codec),
//! `RequestContext::page_limit`, and `ResultsPage::new`.
//!
//! One line per scan:
//!   scan <id> <mode> <n> <limit|none> => <npages> <page> <page> …
//! page = `T:<runs>` (a next_page token came with it) or `E:<runs>` (none);
//! <runs> = comma-separated ranks / rank ranges `a-b` (rank = position of the
//! item in the mode's ascending key order), `-` for an empty page;
//! `X<status>` if a request did not return 200; `RUNAWAY` if the scan did not
//! stop after n+5 pages.

use dropshot::endpoint;
use dropshot::ApiDescription;
use dropshot::EmptyScanParams;
use dropshot::HttpError;
use dropshot::HttpResponseOk;
use dropshot::PaginationOrder;
use dropshot::PaginationOrder::Ascending;
use dropshot::PaginationOrder::Descending;
use dropshot::PaginationParams;
use dropshot::Path;
use dropshot::Query;
use dropshot::RequestContext;
use dropshot::ResultsPage;
use dropshot::WhichPage;
use dsharness::server::*;
use dsharness::util::*;
use schemars::JsonSchema;
use serde::Deserialize;
use serde::Serialize;
use std::collections::BTreeMap;
use std::collections::HashMap;
use std::io::Write;
use std::ops::Bound;
use std::sync::Arc;

#[derive(Clone, Serialize, Deserialize, JsonSchema)]
struct Item {
    idx: u64,
    key: u64,
    name: String,
    mtime: i64,
}

struct Coll {
    by_key: BTreeMap<u64, Arc<Item>>,
    by_name: BTreeMap<String, Arc<Item>>,
    by_mtime: BTreeMap<(i64, String), Arc<Item>>,
}

/// Dictionary-style names: decimal spellings (so "10" sorts before "9") with
/// a few longer and non-ASCII ones.
fn name_of(i: u64) -> String {
    match i % 11 {
        3 => format!("{}-é{}", i * 7 + 3, i),
        // bytes whose base64 uses the two symbols that differ between the
        // standard and the URL-safe alphabet ('~', '?', '>' and most non-ASCII text)
        5 => format!("{}~?>{}", i * 7 + 3, "?".repeat((i % 3) as usize)),
        9 => format!("{}日本語{}", i * 7 + 3, "~".repeat((i % 3) as usize)),
        7 => format!("z{:03}", i),
        _ => format!("{}", i * 7 + 3),
    }
}

impl Coll {
    fn new(n: u64) -> Coll {
        let mut c = Coll { by_key: BTreeMap::new(), by_name: BTreeMap::new(), by_mtime: BTreeMap::new() };
        for i in 0..n {
            let it = Arc::new(Item {
                idx: i,
                key: 3 * i + 1,
                name: name_of(i),
                // many ties, so the name breaks them
                mtime: ((i * 7919) % 13) as i64 - 6,
            });
            c.by_key.insert(it.key, it.clone());
            c.by_name.insert(it.name.clone(), it.clone());
            c.by_mtime.insert((it.mtime, it.name.clone()), it);
        }
        c
    }
}

struct Ctx {
    colls: BTreeMap<u64, Coll>,
}

#[derive(Deserialize, JsonSchema)]
struct CollPath {
    n: u64,
}

/// The page selector of the integer-key endpoints is a 128-bit marker that
/// straddles 2^64 (`key + KEY_OFFSET`), as an id space wider than 64 bits would.
///
/// `pad` makes the token as long as a token may be: the envelope
/// `{"v":"v1","page_start":{"last":<20 digits>,"pad":"…"}}` is 382 to 384 bytes
/// of JSON, i.e. exactly 512 (= the maximum) base64 characters - every token these
/// endpoints issue sits on the bound and must still be accepted back, beside a
/// limit and beside other parameters.
#[derive(Serialize, Deserialize)]
struct SelKey {
    last: u128,
    pad: String,
}
const KEY_OFFSET: u128 = (1u128 << 64) - 20;
const PAD_LEN: usize = 384 - 31 - 20 - 8 - 3;
fn sel_of(key: u64) -> SelKey {
    // the envelope is 384, 383 or 382 bytes long (by the key): a token of exactly 512 characters
    // ending in nothing, `=` or `==` - on the bound with and without base64 padding
    SelKey { last: key as u128 + KEY_OFFSET, pad: "p".repeat(PAD_LEN - (key % 3) as usize) }
}
fn key_of(sel: &SelKey) -> u64 {
    (sel.last - KEY_OFFSET) as u64
}

fn coll<'a>(rqctx: &'a RequestContext<Ctx>, n: u64) -> Result<&'a Coll, HttpError> {
    rqctx.context().colls.get(&n).ok_or_else(|| HttpError::for_not_found(None, "no such collection".into()))
}

#[endpoint { method = GET, path = "/asc/{n}" }]
async fn list_asc(
    rqctx: RequestContext<Ctx>,
    path: Path<CollPath>,
    query: Query<PaginationParams<EmptyScanParams, SelKey>>,
) -> Result<HttpResponseOk<ResultsPage<Item>>, HttpError> {
    let p = query.into_inner();
    let limit = rqctx.page_limit(&p)?.get() as usize;
    let c = coll(&rqctx, path.into_inner().n)?;
    let items: Vec<Item> = match &p.page {
        WhichPage::First(_) => c.by_key.values().take(limit).map(|i| (**i).clone()).collect(),
        WhichPage::Next(sel) => c
            .by_key
            .range((Bound::Excluded(key_of(sel)), Bound::Unbounded))
            .take(limit)
            .map(|(_, i)| (**i).clone())
            .collect(),
    };
    Ok(HttpResponseOk(ResultsPage::new(items, &EmptyScanParams {}, |i: &Item, _| sel_of(i.key))?))
}

#[endpoint { method = GET, path = "/desc/{n}" }]
async fn list_desc(
    rqctx: RequestContext<Ctx>,
    path: Path<CollPath>,
    query: Query<PaginationParams<EmptyScanParams, SelKey>>,
) -> Result<HttpResponseOk<ResultsPage<Item>>, HttpError> {
    let p = query.into_inner();
    let limit = rqctx.page_limit(&p)?.get() as usize;
    let c = coll(&rqctx, path.into_inner().n)?;
    let items: Vec<Item> = match &p.page {
        WhichPage::First(_) => c.by_key.values().rev().take(limit).map(|i| (**i).clone()).collect(),
        WhichPage::Next(sel) => c
            .by_key
            .range((Bound::Unbounded, Bound::Excluded(key_of(sel))))
            .rev()
            .take(limit)
            .map(|(_, i)| (**i).clone())
            .collect(),
    };
    Ok(HttpResponseOk(ResultsPage::new(items, &EmptyScanParams {}, |i: &Item, _| sel_of(i.key))?))
}

// ---- two sort keys, four sort modes (examples/pagination-multiple-sorts.rs)

#[derive(Clone, Deserialize, JsonSchema, Serialize)]
struct ProjScan {
    #[serde(default = "default_sort")]
    sort: ProjSort,
}
fn default_sort() -> ProjSort {
    ProjSort::ByNameAscending
}

#[derive(Deserialize, Clone, JsonSchema, Serialize)]
#[serde(rename_all = "kebab-case")]
enum ProjSort {
    ByNameAscending,
    ByNameDescending,
    ByMtimeAscending,
    ByMtimeDescending,
}

#[derive(Deserialize, Serialize)]
#[serde(rename_all = "kebab-case")]
enum ProjSel {
    Name(PaginationOrder, String),
    MtimeName(PaginationOrder, i64, String),
}

fn proj_selector(last: &Item, scan: &ProjScan) -> ProjSel {
    match scan.sort {
        ProjSort::ByNameAscending => ProjSel::Name(Ascending, last.name.clone()),
        ProjSort::ByNameDescending => ProjSel::Name(Descending, last.name.clone()),
        ProjSort::ByMtimeAscending => ProjSel::MtimeName(Ascending, last.mtime, last.name.clone()),
        ProjSort::ByMtimeDescending => ProjSel::MtimeName(Descending, last.mtime, last.name.clone()),
    }
}

#[endpoint { method = GET, path = "/proj/{n}" }]
async fn list_proj(
    rqctx: RequestContext<Ctx>,
    path: Path<CollPath>,
    query: Query<PaginationParams<ProjScan, ProjSel>>,
) -> Result<HttpResponseOk<ResultsPage<Item>>, HttpError> {
    let p = query.into_inner();
    let limit = rqctx.page_limit(&p)?.get() as usize;
    let c = coll(&rqctx, path.into_inner().n)?;
    let scan = ProjScan {
        sort: match &p.page {
            WhichPage::First(ProjScan { sort }) => sort.clone(),
            WhichPage::Next(ProjSel::Name(Ascending, ..)) => ProjSort::ByNameAscending,
            WhichPage::Next(ProjSel::Name(Descending, ..)) => ProjSort::ByNameDescending,
            WhichPage::Next(ProjSel::MtimeName(Ascending, ..)) => ProjSort::ByMtimeAscending,
            WhichPage::Next(ProjSel::MtimeName(Descending, ..)) => ProjSort::ByMtimeDescending,
        },
    };
    let it: Box<dyn Iterator<Item = &Arc<Item>>> = match &p.page {
        WhichPage::First(_) => match scan.sort {
            ProjSort::ByNameAscending => Box::new(c.by_name.values()),
            ProjSort::ByNameDescending => Box::new(c.by_name.values().rev()),
            ProjSort::ByMtimeAscending => Box::new(c.by_mtime.values()),
            ProjSort::ByMtimeDescending => Box::new(c.by_mtime.values().rev()),
        },
        WhichPage::Next(ProjSel::Name(Ascending, name)) => {
            Box::new(c.by_name.range((Bound::Excluded(name.clone()), Bound::Unbounded)).map(|(_, v)| v))
        }
        WhichPage::Next(ProjSel::Name(Descending, name)) => {
            Box::new(c.by_name.range((Bound::Unbounded, Bound::Excluded(name.clone()))).rev().map(|(_, v)| v))
        }
        WhichPage::Next(ProjSel::MtimeName(Ascending, m, name)) => {
            Box::new(c.by_mtime.range((Bound::Excluded((*m, name.clone())), Bound::Unbounded)).map(|(_, v)| v))
        }
        WhichPage::Next(ProjSel::MtimeName(Descending, m, name)) => Box::new(
            c.by_mtime.range((Bound::Unbounded, Bound::Excluded((*m, name.clone())))).rev().map(|(_, v)| v),
        ),
    };
    let items: Vec<Item> = it.take(limit).map(|i| (**i).clone()).collect();
    Ok(HttpResponseOk(ResultsPage::new(items, &scan, proj_selector)?))
}

// ---- a listing whose page token cannot be issued (selector too long for the
// 512-character token bound): every non-empty page is a 500.  Used as
// background traffic: other clients' failures must not disturb a scan.

#[derive(Deserialize, Serialize)]
struct LongSel {
    name: String,
}

#[endpoint { method = GET, path = "/long" }]
async fn list_long(
    rqctx: RequestContext<Ctx>,
    query: Query<PaginationParams<EmptyScanParams, LongSel>>,
) -> Result<HttpResponseOk<ResultsPage<Item>>, HttpError> {
    let p = query.into_inner();
    let _ = rqctx.page_limit(&p)?;
    let items = vec![Item { idx: 0, key: 0, name: "n".repeat(600), mtime: 0 }];
    Ok(HttpResponseOk(ResultsPage::new(items, &EmptyScanParams {}, |i: &Item, _| LongSel { name: i.name.clone() })?))
}

// ---- a listing one of whose items cannot be serialised (the failure comes after part of the
// page has been written out): a 500, and nothing of it may reach any other response.

#[derive(Clone)]
struct Fragile {
    idx: u64,
}
impl Serialize for Fragile {
    fn serialize<S: serde::Serializer>(&self, s: S) -> Result<S::Ok, S::Error> {
        if self.idx >= 2 {
            return Err(serde::ser::Error::custom("this item cannot be serialised"));
        }
        use serde::ser::SerializeStruct;
        let mut st = s.serialize_struct("Fragile", 2)?;
        st.serialize_field("idx", &self.idx)?;
        st.serialize_field("name", &format!("fragile item number {}", self.idx))?;
        st.end()
    }
}
impl JsonSchema for Fragile {
    fn schema_name() -> String {
        "Fragile".to_string()
    }
    fn json_schema(g: &mut schemars::gen::SchemaGenerator) -> schemars::schema::Schema {
        g.subschema_for::<Item>()
    }
}

#[endpoint { method = GET, path = "/fragile" }]
async fn list_fragile(
    rqctx: RequestContext<Ctx>,
    query: Query<PaginationParams<EmptyScanParams, LongSel>>,
) -> Result<HttpResponseOk<ResultsPage<Fragile>>, HttpError> {
    let p = query.into_inner();
    let _ = rqctx.page_limit(&p)?;
    let items: Vec<Fragile> = (0..4).map(|idx| Fragile { idx }).collect();
    Ok(HttpResponseOk(ResultsPage::new(items, &EmptyScanParams {}, |i: &Fragile, _| LongSel { name: i.idx.to_string() })?))
}

// ---------------------------------------------------------------- client

#[derive(Deserialize)]
struct PageOut {
    next_page: Option<String>,
    items: Vec<Item>,
}

fn runs(ranks: &[u64]) -> String {
    if ranks.is_empty() {
        return "-".into();
    }
    let mut out: Vec<String> = Vec::new();
    let mut i = 0;
    while i < ranks.len() {
        let mut j = i;
        if j + 1 < ranks.len() && (ranks[j + 1] == ranks[j] + 1 || ranks[j + 1] + 1 == ranks[j]) {
            let up = ranks[j + 1] == ranks[j] + 1;
            while j + 1 < ranks.len() && ((up && ranks[j + 1] == ranks[j] + 1) || (!up && ranks[j + 1] + 1 == ranks[j])) {
                j += 1;
            }
            out.push(format!("{}-{}", ranks[i], ranks[j]));
        } else {
            out.push(format!("{}", ranks[i]));
        }
        i = j + 1;
    }
    out.join(",")
}

struct Mode {
    label: &'static str,
    path: &'static str,
    first_query: &'static str,
    /// sent beside the token on later requests (must be ignored)
    beside_token: &'static str,
}

const MODES: [Mode; 6] = [
    Mode { label: "key-asc", path: "asc", first_query: "", beside_token: "" },
    Mode { label: "key-desc", path: "desc", first_query: "", beside_token: "bogus=1" },
    Mode { label: "name-asc", path: "proj", first_query: "", beside_token: "sort=by-name-descending" },
    Mode { label: "name-desc", path: "proj", first_query: "sort=by-name-descending", beside_token: "" },
    Mode { label: "mtime-asc", path: "proj", first_query: "sort=by-mtime-ascending", beside_token: "sort=nonsense" },
    Mode { label: "mtime-desc", path: "proj", first_query: "sort=by-mtime-descending", beside_token: "sort=by-name-ascending" },
];

fn rank_map(c: &Coll, label: &str) -> HashMap<u64, u64> {
    let order: Vec<u64> = match label {
        "key-asc" | "key-desc" => c.by_key.values().map(|i| i.idx).collect(),
        "name-asc" | "name-desc" => c.by_name.values().map(|i| i.idx).collect(),
        _ => c.by_mtime.values().map(|i| i.idx).collect(),
    };
    order.iter().enumerate().map(|(r, idx)| (*idx, r as u64)).collect()
}

struct Client {
    addr: std::net::SocketAddr,
    rr: Option<RespReader>,
    /// how requests are put on the wire: 0 = HTTP/1.1 with an origin-form target,
    /// 1 = HTTP/1.1 with an absolute-form target (`GET http://localhost/… HTTP/1.1`),
    /// 2 = HTTP/2 (one connection per request)
    form: u8,
    /// a second instance of the same service (another process serving the same collections):
    /// when given, consecutive pages of a scan are asked of the two instances alternately -
    /// a page token is a position in the collection, not something held by the instance
    /// that issued it
    replica: Option<std::net::SocketAddr>,
    flip: bool,
}

impl Client {
    fn get(&mut self, target: &str) -> Option<RawResponse> {
        if self.form == 2 {
            for _attempt in 0..3 {
                if let Some(r) = h2_roundtrip(self.addr, "GET", target, &[], b"", true) {
                    return Some(r);
                }
            }
            return None;
        }
        let target_owned = if self.form == 1 { format!("http://localhost{}", target) } else { target.to_string() };
        let target = target_owned.as_str();
        let addr = match self.replica {
            Some(r) => {
                self.flip = !self.flip;
                self.rr = None;
                if self.flip {
                    self.addr
                } else {
                    r
                }
            }
            None => self.addr,
        };
        for _attempt in 0..4 {
            if self.rr.is_none() {
                match connect(addr) {
                    Ok(s) => {
                        let _ = s.set_read_timeout(Some(std::time::Duration::from_secs(60)));
                        self.rr = Some(RespReader::new(s));
                    }
                    Err(_) => {
                        std::thread::sleep(std::time::Duration::from_millis(50));
                        continue;
                    }
                }
            }
            let rr = self.rr.as_mut().unwrap();
            let req = build_request("GET", target, &[], b"");
            if rr.stream.write_all(&req).is_err() {
                self.rr = None;
                continue;
            }
            match rr.read_response(false) {
                Some(r) if r.well_formed => return Some(r),
                _ => {
                    self.rr = None;
                }
            }
        }
        None
    }
}

fn scan(cl: &mut Client, m: &Mode, n: u64, limit: Option<u64>, ranks: &HashMap<u64, u64>) -> String {
    let mut pages: Vec<String> = Vec::new();
    let mut token: Option<String> = None;
    let cap = n + 5;
    loop {
        if pages.len() as u64 > cap {
            pages.push("RUNAWAY".into());
            break;
        }
        let mut parts: Vec<String> = Vec::new();
        match &token {
            None => {
                if !m.first_query.is_empty() {
                    parts.push(m.first_query.to_string());
                }
            }
            Some(t) => {
                if !m.beside_token.is_empty() {
                    parts.push(m.beside_token.to_string());
                }
                parts.push(format!("page_token={}", pct_encode(t.as_bytes())));
            }
        }
        if let Some(l) = limit {
            parts.push(format!("limit={}", l));
        }
        let target =
            if parts.is_empty() { format!("/{}/{}", m.path, n) } else { format!("/{}/{}?{}", m.path, n, parts.join("&")) };
        let Some(r) = cl.get(&target) else {
            pages.push("X0".into());
            break;
        };
        if r.status != 200 {
            pages.push(format!("X{}", r.status));
            break;
        }
        let Ok(p) = serde_json::from_slice::<PageOut>(&r.body) else {
            pages.push("Xbody".into());
            break;
        };
        let rs: Vec<u64> = p.items.iter().map(|i| *ranks.get(&i.idx).unwrap_or(&u64::MAX)).collect();
        pages.push(format!("{}:{}", if p.next_page.is_some() { "T" } else { "E" }, runs(&rs)));
        match p.next_page {
            Some(t) => token = Some(t),
            None => break,
        }
    }
    format!("{} {}", pages.len(), pages.join(" "))
}

fn main() {
    quiet_panics();
    let is_replica = std::env::args().any(|a| a == "replica");
    let mut out = Out::new();
    let big: Vec<u64> = vec![99, 100, 101, 9999, 10000, 10001, 25000];
    let mut sizes: Vec<u64> = (0..=40).collect();
    sizes.extend(big.iter());
    if is_thorough() {
        sizes.extend([41, 63, 64, 65, 127, 128, 199, 200, 201, 1000, 19999, 20000, 20001, 30000]);
    }
    let mut colls = BTreeMap::new();
    for n in &sizes {
        colls.insert(*n, Coll::new(*n));
    }
    // rank maps before the collections move into the server
    let mut ranks: HashMap<(u64, &'static str), HashMap<u64, u64>> = HashMap::new();
    for n in &sizes {
        for m in &MODES {
            ranks.insert((*n, m.label), rank_map(&colls[n], m.label));
        }
    }
    let rt = tokio::runtime::Builder::new_multi_thread().worker_threads(4).enable_all().build().unwrap();
    let server = rt.block_on(async {
        let mut api = ApiDescription::new();
        api.register(list_asc).unwrap();
        api.register(list_desc).unwrap();
        api.register(list_proj).unwrap();
        api.register(list_long).unwrap();
        api.register(list_fragile).unwrap();
        start_server(api, Ctx { colls }, ServerOpts::default())
    });
    let addr = server.local_addr();
    if is_replica {
        // the second instance: say where, then serve until the parent closes our stdin
        println!("{}", addr.port());
        let _ = std::io::Write::flush(&mut std::io::stdout());
        let mut sink = String::new();
        let _ = std::io::Read::read_to_string(&mut std::io::stdin(), &mut sink);
        return;
    }
    let mut replica_proc = std::env::current_exe().ok().and_then(|exe| {
        std::process::Command::new(exe)
            .arg("replica")
            .stdin(std::process::Stdio::piped())
            .stdout(std::process::Stdio::piped())
            .stderr(std::process::Stdio::null())
            .spawn()
            .ok()
    });
    let replica_addr: Option<std::net::SocketAddr> = replica_proc.as_mut().and_then(|c| {
        let mut line = String::new();
        let so = c.stdout.as_mut()?;
        std::io::BufRead::read_line(&mut std::io::BufReader::new(so), &mut line).ok()?;
        let port: u16 = line.trim().parse().ok()?;
        Some(std::net::SocketAddr::from(([127, 0, 0, 1], port)))
    });
    if replica_addr.is_none() {
        eprintln!("c15: no second instance (scans are asked of one instance only)");
    }
    let mut rng = Rng::from_env(15);
    let mut id = 0u64;

    // one client connection per mode, modes in parallel threads, output in fixed order
    let mut jobs: Vec<(usize, u64, Option<u64>)> = Vec::new();
    for (mi, _m) in MODES.iter().enumerate() {
        for &n in &sizes {
            let small = n <= 40 || (is_thorough() && n <= 201);
            let mut limits: Vec<Option<u64>> = if small {
                let mut v = vec![None, Some(1), Some(2), Some(3), Some(7), Some(n + 1)];
                if n >= 2 {
                    v.push(Some(n - 1));
                }
                if n >= 1 {
                    v.push(Some(n));
                }
                // one seeded extra limit per size
                v.push(Some(1 + rng.below(n + 3)));
                v
            } else {
                vec![None, Some(9999), Some(10000), Some(10001), Some(4294967295)]
            };
            limits.sort();
            limits.dedup();
            // the 25000-item collection on three of the modes in the quick tier
            if n >= 25000 && !is_thorough() && !(mi == 0 || mi == 3 || mi == 5) {
                continue;
            }
            for l in limits {
                jobs.push((mi, n, l));
            }
        }
    }
    let ranks = Arc::new(ranks);
    // background traffic while the scans run: listings that fail at token issue time (500)
    let stop = Arc::new(std::sync::atomic::AtomicBool::new(false));
    let noise = {
        let stop = stop.clone();
        std::thread::spawn(move || {
            let (mut n500, mut other, mut sent) = (0u64, 0u64, 0u64);
            while !stop.load(std::sync::atomic::Ordering::SeqCst) || sent < 40 {
                sent += 1;
                // alternately: the token cannot be issued / an item cannot be serialised
                let target = if sent % 2 == 0 { "/long" } else { "/fragile" };
                match roundtrip(addr, &build_request("GET", target, &[("connection", "close")], b""), false) {
                    Some(r) if r.status == 500 => n500 += 1,
                    _ => other += 1,
                }
                std::thread::sleep(std::time::Duration::from_millis(3));
                if sent >= 4000 {
                    break;
                }
            }
            (sent, n500, other)
        })
    };
    let mut handles = Vec::new();
    for mi in 0..MODES.len() {
        let my: Vec<(usize, u64, Option<u64>)> = jobs.iter().filter(|j| j.0 == mi).cloned().collect();
        let ranks = ranks.clone();
        handles.push(std::thread::spawn(move || {
            let mut cl = Client { addr, rr: None, form: 0, replica: None, flip: false };
            let m = &MODES[mi];
            let mut res = Vec::new();
            for (k, (_, n, l)) in my.into_iter().enumerate() {
                // the protocol version and the form of the request target do not matter to a scan:
                // some scans use absolute-form targets, some HTTP/2 (not the 25000-item ones: one
                // connection per request)
                cl.form = match k % 7 {
                    3 => 1,
                    5 if n <= 10001 => 2,
                    _ => 0,
                };
                // some scans alternate between the two instances of the service
                cl.replica = if k % 7 == 6 && n <= 10001 { replica_addr } else { None };
                cl.flip = false;
                cl.rr = None;
                let r = scan(&mut cl, m, n, l, &ranks[&(n, m.label)]);
                res.push((m.label, n, l, r, if cl.replica.is_some() { 3 } else { cl.form }));
            }
            res
        }));
    }
    for h in handles {
        for (label, n, l, r, form) in h.join().unwrap() {
            id += 1;
            out.line(&format!(
                "scan c{}{} {} {} {} => {}",
                ["", "abs", "h2", "rep"][form as usize],
                id,
                label,
                n,
                l.map(|x| x.to_string()).unwrap_or("none".into()),
                r
            ));
        }
    }
    stop.store(true, std::sync::atomic::Ordering::SeqCst);
    if let Some(mut c) = replica_proc.take() {
        drop(c.stdin.take());
        let _ = c.wait();
    }
    let (sent, n500, other) = noise.join().unwrap();
    out.line(&format!("noise z1 long {} => {} {}", if sent >= 40 { "many" } else { "few" }, (n500 == sent) as u8, other));
    out.flush();
    rt.block_on(async {
        let _ = server.close().await;
    });
}
