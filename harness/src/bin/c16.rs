//! C16 trace-validation harness: client disconnects vs. handler task mode.
//!
//! Every scenario starts a real dropshot server (one of the two
//! `HandlerTaskMode`s), drives 1..32 raw-TCP client connections through a
//! per-connection plan (where and how the client disconnects), collects the
//! event log and prints
//!
//!   lc <id> <mode> n=<conns> reqs=<r>:<c>:<kind>;... <event log> => health=<0|1> closed=<0|1> late=<n> resp=<r>:<status>;...
//!
//! The Lean driver (Driver/C16.lean) runs the monitor `Lifecycle.accepts` on
//! the log and evaluates the property predicates on it.

#[path = "../lc_common.rs"]
mod lc;

use dropshot::HandlerTaskMode;
use dsharness::util::*;
use lc::*;
use std::io::Write;
use std::net::SocketAddr;
use std::sync::atomic::{AtomicUsize, Ordering};
use std::sync::{Arc, Mutex};
use std::time::Duration;

/// "eventually": how long we wait for hyper to notice a disconnect.
const DEADLINE: Duration = Duration::from_secs(10);
const BARRIER: Duration = Duration::from_secs(40);
const BIG: usize = 24 << 20;

#[derive(Clone, Copy, Debug, PartialEq, Eq)]
enum Plan {
    /// part of the request line, then disconnect
    PartialLine(How),
    /// request line and one header, no blank line, then disconnect
    PartialHeaders(How),
    /// complete request, disconnect at once (the handler may or may not start)
    Immediately(How),
    /// complete GET; disconnect while the handler waits
    Waiting(How),
    /// complete POST whose body the extractor consumed; disconnect while the handler waits
    WaitingBody(How),
    /// complete GET to the handler that drops its RequestContext before it waits; disconnect
    /// while it waits.  The scenario's server is then closed with the gates still shut.
    WaitingDropCtx(How),
    /// complete GET carrying `Upgrade: h2c` (as `curl --http2` sends on a plain connection; the
    /// server ignores the offer); disconnect while the handler waits
    WaitingUpgradeHdr(How),
    /// handler released, large response being written, client never reads, disconnect
    Writing(How),
    /// stays connected; its handler runs across the other clients' disconnects
    Stay,
    /// keep-alive: two requests one after the other, both answered
    StayReuse,
    /// keep-alive: first request answered, second one disconnected while waiting
    ReuseThenWaiting(How),
    /// handler panics
    Panic,
    /// complete GET followed by a pipelined second request; disconnect while the first handler waits
    Pipelined(How),
    /// complete POST with a body that the handler never reads; disconnect while the handler waits
    UnreadBody(How),
}

impl Plan {
    fn name(&self) -> String {
        match self {
            Plan::PartialLine(h) => format!("pline-{}", h.name()),
            Plan::PartialHeaders(h) => format!("phdr-{}", h.name()),
            Plan::Immediately(h) => format!("imm-{}", h.name()),
            Plan::Waiting(h) => format!("wait-{}", h.name()),
            Plan::WaitingBody(h) => format!("waitbody-{}", h.name()),
            Plan::WaitingDropCtx(h) => format!("waitdropctx-{}", h.name()),
            Plan::WaitingUpgradeHdr(h) => format!("waitupgrade-{}", h.name()),
            Plan::Writing(h) => format!("write-{}", h.name()),
            Plan::Stay => "stay".into(),
            Plan::StayReuse => "stayreuse".into(),
            Plan::ReuseThenWaiting(h) => format!("reusewait-{}", h.name()),
            Plan::Panic => "panic".into(),
            Plan::Pipelined(h) => format!("pipe-{}", h.name()),
            Plan::UnreadBody(h) => format!("unread-{}", h.name()),
        }
    }
    fn is_stay(&self) -> bool {
        matches!(self, Plan::Stay | Plan::StayReuse)
    }
}

struct Shared {
    ctx: Arc<Ctx>,
    addr: SocketAddr,
    rt: Arc<tokio::runtime::Runtime>,
    mode: HandlerTaskMode,
    n_stay: usize,
    n_other: usize,
    stay_started: AtomicUsize,
    other_done: AtomicUsize,
    late: AtomicUsize,
    /// a cancel-mode handler was not dropped within DEADLINE
    expired: AtomicUsize,
    resp: Mutex<Vec<(u32, u16)>>,
    reqs: Mutex<Vec<(u32, u32, String)>>,
}

impl Shared {
    fn req(&self, r: u32, c: u32, kind: &str) {
        self.reqs.lock().unwrap().push((r, c, kind.to_string()));
    }
    fn wait_stays_started(&self) {
        if !wait_until(BARRIER, || self.stay_started.load(Ordering::SeqCst) >= self.n_stay) {
            self.late.fetch_add(1, Ordering::SeqCst);
        }
    }
    fn wait_others_done(&self) {
        if !wait_until(BARRIER, || self.other_done.load(Ordering::SeqCst) >= self.n_other) {
            self.late.fetch_add(1, Ordering::SeqCst);
        }
    }
    /// Read one response for request `r`; log RespDelivered when complete and 200.
    fn read_resp(&self, s: &std::net::TcpStream, r: u32, want_len: usize) -> bool {
        match read_one(s) {
            Some(resp) if resp.well_formed => {
                self.resp.lock().unwrap().push((r, resp.status));
                if resp.status == 200 && resp.body.len() == want_len {
                    self.ctx.log(Ev::RespDelivered(r));
                    true
                } else {
                    false
                }
            }
            _ => {
                self.resp.lock().unwrap().push((r, 0));
                false
            }
        }
    }
}

/// Wait for the handler to have started, give up the connection, and in
/// cancel mode wait (deadline) until the handler future was dropped.
fn disconnect_while_waiting(sh: &Shared, s: std::net::TcpStream, c: u32, r: u32, how: How) -> Option<std::net::TcpStream> {
    if !sh.ctx.wait_for(&Ev::Start(r), DEADLINE) {
        sh.late.fetch_add(1, Ordering::SeqCst);
    }
    sh.wait_stays_started();
    sh.ctx.log(Ev::Disconnect(c));
    let keep = disconnect(&sh.rt, s, how);
    if sh.mode == HandlerTaskMode::CancelOnDisconnect {
        // "eventually": polled, never a fixed sleep.  When the deadline passes
        // the handler is released at the end of the scenario and the trace
        // shows Done after Disconnect, which the specification rejects.
        if !sh.ctx.wait_for(&Ev::Drop(r), DEADLINE) {
            sh.expired.fetch_add(1, Ordering::SeqCst);
        }
    }
    keep
}

fn run_conn(sh: &Shared, c: u32, plan: Plan) -> Option<std::net::TcpStream> {
    let r1 = 2 * c;
    let r2 = 2 * c + 1;
    let Some(mut s) = open(sh.addr) else {
        sh.late.fetch_add(1, Ordering::SeqCst);
        return None;
    };
    let ctx = &sh.ctx;
    match plan {
        Plan::PartialLine(how) => {
            let _ = s.write_all(format!("GET /w/{}", r1).as_bytes());
            sh.wait_stays_started();
            ctx.log(Ev::Disconnect(c));
            disconnect(&sh.rt, s, how)
        }
        Plan::PartialHeaders(how) => {
            let _ = s.write_all(format!("GET /w/{} HTTP/1.1\r\nhost: localhost\r\nx-a: b", r1).as_bytes());
            sh.wait_stays_started();
            ctx.log(Ev::Disconnect(c));
            disconnect(&sh.rt, s, how)
        }
        Plan::Immediately(how) => {
            sh.req(r1, c, "imm");
            sh.wait_stays_started();
            let _ = send_logged(ctx, &mut s, &get(&format!("/w/{}", r1)), Ev::ReqSent(c, r1));
            ctx.log(Ev::Disconnect(c));
            disconnect(&sh.rt, s, how)
        }
        Plan::Waiting(how) => {
            sh.req(r1, c, "wait");
            if sh.n_stay >= 200 {
                // the scenario with many handlers in flight: the clients that will leave come
                // only once all those handlers are running (the point is what happens to a
                // request that arrives on top of that load)
                sh.wait_stays_started();
            }
            let _ = send_logged(ctx, &mut s, &get(&format!("/w/{}", r1)), Ev::ReqSent(c, r1));
            disconnect_while_waiting(sh, s, c, r1, how)
        }
        Plan::WaitingUpgradeHdr(how) => {
            sh.req(r1, c, "wait");
            let req = dsharness::server::build_request(
                "GET",
                &format!("/w/{}", r1),
                &[("connection", "Upgrade, HTTP2-Settings"), ("upgrade", "h2c"), ("http2-settings", "AAMAAABkAAQCAAAAAAIAAAAA")],
                b"",
            );
            let _ = send_logged(ctx, &mut s, &req, Ev::ReqSent(c, r1));
            disconnect_while_waiting(sh, s, c, r1, how)
        }
        Plan::WaitingDropCtx(how) => {
            sh.req(r1, c, "wait");
            let _ = send_logged(ctx, &mut s, &get(&format!("/wd/{}", r1)), Ev::ReqSent(c, r1));
            disconnect_while_waiting(sh, s, c, r1, how)
        }
        Plan::WaitingBody(how) => {
            sh.req(r1, c, "waitbody");
            let req = dsharness::server::build_request("POST", &format!("/wb/{}", r1), &[], b"0123456789");
            let _ = send_logged(ctx, &mut s, &req, Ev::ReqSent(c, r1));
            disconnect_while_waiting(sh, s, c, r1, how)
        }
        Plan::Writing(how) => {
            sh.req(r1, c, "write");
            let _ = send_logged(ctx, &mut s, &get(&format!("/w/{}?big={}", r1, BIG)), Ev::ReqSent(c, r1));
            if !ctx.wait_for(&Ev::Start(r1), DEADLINE) {
                sh.late.fetch_add(1, Ordering::SeqCst);
            }
            ctx.release(r1);
            if !ctx.wait_for(&Ev::Done(r1), DEADLINE) {
                sh.late.fetch_add(1, Ordering::SeqCst);
            }
            sh.wait_stays_started();
            // the response does not fit the socket buffers and we never read
            ctx.log(Ev::Disconnect(c));
            disconnect(&sh.rt, s, how)
        }
        Plan::Stay => {
            sh.req(r1, c, "stay");
            let _ = send_logged(ctx, &mut s, &get(&format!("/w/{}", r1)), Ev::ReqSent(c, r1));
            if !ctx.wait_for(&Ev::Start(r1), DEADLINE) {
                sh.late.fetch_add(1, Ordering::SeqCst);
            }
            sh.stay_started.fetch_add(1, Ordering::SeqCst);
            sh.wait_others_done();
            ctx.release(r1);
            sh.read_resp(&s, r1, 2);
            Some(s)
        }
        Plan::StayReuse => {
            sh.req(r1, c, "stay");
            sh.req(r2, c, "stay");
            ctx.release(r1);
            let _ = send_logged(ctx, &mut s, &get(&format!("/w/{}", r1)), Ev::ReqSent(c, r1));
            sh.read_resp(&s, r1, 2);
            let _ = send_logged(ctx, &mut s, &get(&format!("/w/{}", r2)), Ev::ReqSent(c, r2));
            if !ctx.wait_for(&Ev::Start(r2), DEADLINE) {
                sh.late.fetch_add(1, Ordering::SeqCst);
            }
            sh.stay_started.fetch_add(1, Ordering::SeqCst);
            sh.wait_others_done();
            ctx.release(r2);
            sh.read_resp(&s, r2, 2);
            Some(s)
        }
        Plan::ReuseThenWaiting(how) => {
            sh.req(r1, c, "first");
            sh.req(r2, c, "wait");
            ctx.release(r1);
            let _ = send_logged(ctx, &mut s, &get(&format!("/w/{}", r1)), Ev::ReqSent(c, r1));
            sh.read_resp(&s, r1, 2);
            let _ = send_logged(ctx, &mut s, &get(&format!("/w/{}", r2)), Ev::ReqSent(c, r2));
            disconnect_while_waiting(sh, s, c, r2, how)
        }
        Plan::Panic => {
            sh.req(r1, c, "panic");
            sh.wait_stays_started();
            let _ = send_logged(ctx, &mut s, &get(&format!("/p/{}", r1)), Ev::ReqSent(c, r1));
            // the connection task dies with the panic: EOF or reset, no response
            match read_one(&s) {
                Some(resp) if resp.well_formed => sh.resp.lock().unwrap().push((r1, resp.status)),
                _ => sh.resp.lock().unwrap().push((r1, 0)),
            }
            Some(s)
        }
        Plan::Pipelined(how) => {
            sh.req(r1, c, "pipe");
            sh.req(r2, c, "pipe2");
            let mut bytes = get(&format!("/w/{}", r1));
            ctx.log(Ev::ReqSent(c, r1));
            bytes.extend_from_slice(&get(&format!("/w/{}", r2)));
            let _ = send_logged(ctx, &mut s, &bytes, Ev::ReqSent(c, r2));
            disconnect_while_waiting(sh, s, c, r1, how)
        }
        Plan::UnreadBody(how) => {
            sh.req(r1, c, "unread");
            let req = dsharness::server::build_request("POST", &format!("/wn/{}", r1), &[], b"0123456789");
            let _ = send_logged(ctx, &mut s, &req, Ev::ReqSent(c, r1));
            disconnect_while_waiting(sh, s, c, r1, how)
        }
    }
}

fn run_scenario(rt: &Arc<tokio::runtime::Runtime>, id: &str, mode: HandlerTaskMode, plans: &[Plan]) -> String {
    let ctx = Ctx::new();
    let server = start(rt, &ctx, mode);
    let addr = server.local_addr();
    let n_stay = plans.iter().filter(|p| p.is_stay()).count();
    let sh = Arc::new(Shared {
        ctx: ctx.clone(),
        addr,
        rt: rt.clone(),
        mode,
        n_stay,
        n_other: plans.len() - n_stay,
        stay_started: AtomicUsize::new(0),
        other_done: AtomicUsize::new(0),
        late: AtomicUsize::new(0),
        expired: AtomicUsize::new(0),
        resp: Mutex::new(Vec::new()),
        reqs: Mutex::new(Vec::new()),
    });
    let mut threads = Vec::new();
    for (i, plan) in plans.iter().enumerate() {
        let sh = sh.clone();
        let plan = *plan;
        let c = (i + 1) as u32;
        threads.push(std::thread::spawn(move || {
            let keep = run_conn(&sh, c, plan);
            if !plan.is_stay() {
                sh.other_done.fetch_add(1, Ordering::SeqCst);
            }
            keep
        }));
    }
    let mut kept = Vec::new();
    for t in threads {
        if let Ok(k) = t.join() {
            kept.push(k);
        }
    }
    // A fresh connection is served while the sockets of the scenario are still around.
    let healthy = health(addr);
    // Drop all client sockets and shut the server down: when close() has
    // returned every connection task and every detached handler is finished, so
    // the log is final.  Detached: handlers whose client left are still at
    // their gate and must be let through first.  Cancel: every handler still
    // gated belongs to a client that left (also one that left before its
    // handler started); it must disappear by cancellation, so the gates stay
    // shut until close() returned or the "eventually" deadline has passed.
    drop(kept);
    // Detached, with a handler that gave up its RequestContext: close() is requested while
    // that handler is still at its gate.  It must not return before the handler has finished
    // ("early": it did, within 1.5 s, with a started handler neither done nor panicked).
    let gated_detached = mode == HandlerTaskMode::Detached && plans.iter().any(|p| matches!(p, Plan::WaitingDropCtx(_)));
    let mut early = false;
    let closed = if mode == HandlerTaskMode::CancelOnDisconnect && sh.expired.load(Ordering::SeqCst) == 0 {
        close_then_release(rt, server, &ctx, DEADLINE, Duration::from_secs(60))
    } else if gated_detached {
        let ctx2 = ctx.clone();
        rt.block_on(async {
            let fut = server.close();
            tokio::pin!(fut);
            match tokio::time::timeout(Duration::from_millis(1500), &mut fut).await {
                Ok(r) => {
                    let log = ctx2.snapshot();
                    early = log.iter().any(|e| match e {
                        Ev::Start(r) => !log.iter().any(|x| matches!(x, Ev::Done(d) | Ev::Panic(d) | Ev::Drop(d) if d == r)),
                        _ => false,
                    });
                    Some(r)
                }
                Err(_) => {
                    ctx2.release_all();
                    tokio::time::timeout(Duration::from_secs(60), &mut fut).await.ok()
                }
            }
        })
    } else {
        ctx.release_all();
        close_with_deadline(rt, server, Duration::from_secs(60))
    };
    ctx.release_all();
    if early {
        // give the abandoned handlers a moment, so that the log says what became of them
        std::thread::sleep(Duration::from_millis(200));
    }
    let log = ctx.snapshot();
    let mut reqs = sh.reqs.lock().unwrap().clone();
    reqs.sort();
    let mut resp = sh.resp.lock().unwrap().clone();
    resp.sort();
    let reqs_s = if reqs.is_empty() {
        "-".to_string()
    } else {
        reqs.iter().map(|(r, c, k)| format!("{}:{}:{}", r, c, k)).collect::<Vec<_>>().join(";")
    };
    let resp_s = if resp.is_empty() {
        "-".to_string()
    } else {
        resp.iter().map(|(r, st)| format!("{}:{}", r, st)).collect::<Vec<_>>().join(";")
    };
    let plans_s = plans.iter().map(|p| p.name()).collect::<Vec<_>>().join(";");
    format!(
        "lc {} {} n={} plans={} reqs={} {} => health={} closed={} late={} resp={} early={}",
        id,
        mode_name(mode),
        plans.len(),
        plans_s,
        reqs_s,
        enc_log(&log),
        healthy as u8,
        matches!(closed, Some(Ok(()))) as u8,
        sh.late.load(Ordering::SeqCst),
        resp_s,
        early as u8
    )
}

/// What the HTTP/2 client does while its streams' handlers wait.
#[derive(Clone, Copy, Debug, PartialEq, Eq)]
enum H2Variant {
    /// nothing: all streams are answered
    Stay,
    /// RST_STREAM on the first `resets` streams (their response futures are
    /// dropped); the connection and the other streams go on
    Reset(usize),
    /// the TCP connection is dropped under all streams
    DropConn,
}

impl H2Variant {
    fn name(&self) -> String {
        match self {
            H2Variant::Stay => "h2-stay".into(),
            H2Variant::Reset(n) => format!("h2-reset{}", n),
            H2Variant::DropConn => "h2-dropconn".into(),
        }
    }
}

async fn wait_for_async(ctx: &Ctx, e: &Ev, deadline: Duration) -> bool {
    let t0 = std::time::Instant::now();
    loop {
        if ctx.has(e) {
            return true;
        }
        if t0.elapsed() >= deadline {
            return false;
        }
        tokio::time::sleep(Duration::from_millis(2)).await;
    }
}

/// HTTP/2 (prior knowledge, plain port): `k` concurrent streams on one TCP
/// connection, plus an HTTP/1.1 control with identical timing (connection 1
/// does to its TCP connection what the h2 client does to its streams,
/// connection 2 stays).  In the LTS every h2 stream is its own "connection"
/// (the unit whose loss cancels the handler): a stream reset is `Disconnect`
/// of that stream, a TCP drop is `Disconnect` of all its streams.
fn run_h2_scenario(rt: &Arc<tokio::runtime::Runtime>, id: &str, mode: HandlerTaskMode, variant: H2Variant, k: usize) -> String {
    use http_body_util::BodyExt;
    use hyper_util::rt::{TokioExecutor, TokioIo};
    let ctx = Ctx::new();
    let server = start(rt, &ctx, mode);
    let addr = server.local_addr();
    let mut reqs: Vec<(u32, u32, String)> = Vec::new();
    let mut resp: Vec<(u32, u16)> = Vec::new();
    let mut late = 0usize;
    let mut expired = false;
    let cancel = mode == HandlerTaskMode::CancelOnDisconnect;
    // which h2 streams lose their client
    let lost = |i: usize| match variant {
        H2Variant::Stay => false,
        H2Variant::Reset(n) => i < n,
        H2Variant::DropConn => true,
    };
    let h1_leaves = variant != H2Variant::Stay;
    let kept: Vec<std::net::TcpStream> = rt.block_on(async {
        let mut kept = Vec::new();
        // --- HTTP/1.1 control connections 1 (same fate as the lost streams) and 2 (stays)
        let mut h1: Vec<Option<std::net::TcpStream>> = Vec::new();
        for c in [1u32, 2] {
            let r = 2 * c;
            let leaves = c == 1 && h1_leaves;
            reqs.push((r, c, if leaves { "wait".into() } else { "stay".into() }));
            match open(addr) {
                Some(mut s) => {
                    let _ = send_logged(&ctx, &mut s, &get(&format!("/w/{}", r)), Ev::ReqSent(c, r));
                    h1.push(Some(s));
                }
                None => {
                    late += 1;
                    h1.push(None);
                }
            }
        }
        // --- HTTP/2 connection
        let Ok(tcp) = tokio::net::TcpStream::connect(addr).await else {
            late += 1;
            return kept;
        };
        let Ok((mut sender, conn)) =
            hyper::client::conn::http2::handshake::<_, _, http_body_util::Empty<bytes::Bytes>>(TokioExecutor::new(), TokioIo::new(tcp)).await
        else {
            late += 1;
            return kept;
        };
        let conn_task = tokio::spawn(conn);
        let mut futs = Vec::new();
        for i in 0..k {
            let c = 10 + i as u32;
            let r = 2 * c;
            reqs.push((r, c, if lost(i) { "wait".into() } else { "stay".into() }));
            if sender.ready().await.is_err() {
                late += 1;
                futs.push(None);
                continue;
            }
            let req = http::Request::builder()
                .method("GET")
                .uri(format!("http://localhost/w/{}", r))
                .body(http_body_util::Empty::<bytes::Bytes>::new())
                .unwrap();
            ctx.log(Ev::ReqSent(c, r));
            futs.push(Some(Box::pin(sender.send_request(req))));
        }
        // every handler is running
        for (r, _, _) in reqs.clone() {
            if !wait_for_async(&ctx, &Ev::Start(r), DEADLINE).await {
                late += 1;
            }
        }
        // --- the clients act, all at the same moment
        if h1_leaves {
            ctx.log(Ev::Disconnect(1));
        }
        for i in 0..k {
            if lost(i) {
                ctx.log(Ev::Disconnect(10 + i as u32));
            }
        }
        if h1_leaves {
            if let Some(s) = h1[0].take() {
                if let Some(k) = disconnect(rt, s, How::Close) {
                    kept.push(k);
                }
            }
        }
        match variant {
            H2Variant::Stay => {}
            H2Variant::Reset(n) => {
                for f in futs.iter_mut().take(n) {
                    *f = None; // dropping the response future resets the stream
                }
            }
            H2Variant::DropConn => {
                // kill the TCP connection first (no RST_STREAM frames), then forget the streams
                conn_task.abort();
                let _ = (&mut Box::pin(async {})).await;
                for f in futs.iter_mut() {
                    *f = None;
                }
            }
        }
        // --- cancel mode: the handlers of lost streams / of the h1 control are dropped, eventually
        if cancel {
            for (r, _, kind) in reqs.clone() {
                if kind == "wait" && !wait_for_async(&ctx, &Ev::Drop(r), DEADLINE).await {
                    expired = true;
                }
            }
        }
        // --- everybody who stayed is released and answered
        for (r, _, kind) in reqs.clone() {
            if kind == "stay" {
                ctx.release(r);
            }
        }
        for (i, f) in futs.iter_mut().enumerate() {
            let r = 2 * (10 + i as u32);
            if let Some(fut) = f.take() {
                match tokio::time::timeout(DEADLINE, fut).await {
                    Ok(Ok(rsp)) => {
                        let st = rsp.status().as_u16();
                        match tokio::time::timeout(DEADLINE, rsp.into_body().collect()).await {
                            Ok(Ok(body)) => {
                                resp.push((r, st));
                                if st == 200 && body.to_bytes().as_ref() == b"ok" {
                                    ctx.log(Ev::RespDelivered(r));
                                }
                            }
                            _ => resp.push((r, 0)),
                        }
                    }
                    _ => resp.push((r, 0)),
                }
            }
        }
        // --- a client that reset some of its streams is still there: one more request on the
        // same HTTP/2 connection is served like any other
        if let H2Variant::Reset(n) = variant {
            if n > 0 {
                let c = 10 + k as u32;
                let r = 2 * c;
                reqs.push((r, c, "stay".into()));
                if sender.ready().await.is_ok() {
                    let req = http::Request::builder()
                        .method("GET")
                        .uri(format!("http://localhost/w/{}", r))
                        .body(http_body_util::Empty::<bytes::Bytes>::new())
                        .unwrap();
                    ctx.log(Ev::ReqSent(c, r));
                    ctx.release(r);
                    match tokio::time::timeout(DEADLINE, sender.send_request(req)).await {
                        Ok(Ok(rsp)) => {
                            let st = rsp.status().as_u16();
                            match tokio::time::timeout(DEADLINE, rsp.into_body().collect()).await {
                                Ok(Ok(body)) => {
                                    resp.push((r, st));
                                    if st == 200 && body.to_bytes().as_ref() == b"ok" {
                                        ctx.log(Ev::RespDelivered(r));
                                    }
                                }
                                _ => resp.push((r, 0)),
                            }
                        }
                        _ => resp.push((r, 0)),
                    }
                } else {
                    late += 1;
                }
            }
        }
        for (idx, c) in [(0usize, 1u32), (1, 2)] {
            if let Some(s) = h1[idx].take() {
                let r = 2 * c;
                match read_one(&s) {
                    Some(rsp) if rsp.well_formed => {
                        resp.push((r, rsp.status));
                        if rsp.status == 200 && rsp.body == b"ok" {
                            ctx.log(Ev::RespDelivered(r));
                        }
                    }
                    _ => resp.push((r, 0)),
                }
                kept.push(s);
            }
        }
        drop(sender);
        conn_task.abort();
        kept
    });
    let healthy = health(addr);
    drop(kept);
    let closed = if cancel && !expired {
        close_then_release(rt, server, &ctx, DEADLINE, Duration::from_secs(60))
    } else {
        ctx.release_all();
        close_with_deadline(rt, server, Duration::from_secs(60))
    };
    ctx.release_all();
    let log = ctx.snapshot();
    reqs.sort();
    resp.sort();
    let reqs_s = reqs.iter().map(|(r, c, k)| format!("{}:{}:{}", r, c, k)).collect::<Vec<_>>().join(";");
    let resp_s = if resp.is_empty() {
        "-".to_string()
    } else {
        resp.iter().map(|(r, st)| format!("{}:{}", r, st)).collect::<Vec<_>>().join(";")
    };
    format!(
        "lc {} {} n=1 plans={}-k{} reqs={} {} => health={} closed={} late={} resp={}",
        id,
        mode_name(mode),
        variant.name(),
        k,
        reqs_s,
        enc_log(&log),
        healthy as u8,
        matches!(closed, Some(Ok(()))) as u8,
        late,
        resp_s
    )
}

/// HTTPS (HTTP/1.1 over TLS): `k` clients, the first `leavers` of them give up
/// their connection (`how`; `notify` = a TLS close_notify first) while their handler
/// waits, the others stay and are answered.  Same line format as the plain scenarios.
fn run_tls_scenario(
    rt: &Arc<tokio::runtime::Runtime>,
    id: &str,
    mode: HandlerTaskMode,
    kit: &TlsKit,
    k: usize,
    leavers: usize,
    how: How,
    notify: bool,
) -> String {
    let ctx = Ctx::new();
    let server = start_opts(rt, &ctx, mode, Some(kit.server.clone()));
    let addr = server.local_addr();
    let cancel = mode == HandlerTaskMode::CancelOnDisconnect;
    let mut reqs: Vec<(u32, u32, String)> = Vec::new();
    let mut resp: Vec<(u32, u16)> = Vec::new();
    let mut late = 0usize;
    let mut expired = false;
    let mut conns: Vec<Option<TlsStream>> = Vec::new();
    for i in 0..k {
        let c = 1 + i as u32;
        let r = 2 * c;
        reqs.push((r, c, if i < leavers { "wait".into() } else { "stay".into() }));
        match tls_connect(addr, kit) {
            Some(mut s) => {
                let _ = s.sock.set_read_timeout(Some(DEADLINE));
                ctx.log(Ev::ReqSent(c, r));
                if s.write_all(&get(&format!("/w/{}", r))).is_err() || s.flush().is_err() {
                    late += 1;
                }
                conns.push(Some(s));
            }
            None => {
                late += 1;
                conns.push(None);
            }
        }
    }
    for (r, _, _) in reqs.clone() {
        if !ctx.wait_for(&Ev::Start(r), DEADLINE) {
            late += 1;
        }
    }
    let mut kept: Vec<std::net::TcpStream> = Vec::new();
    for i in 0..leavers.min(k) {
        let c = 1 + i as u32;
        ctx.log(Ev::Disconnect(c));
        if let Some(mut s) = conns[i].take() {
            if notify {
                s.conn.send_close_notify();
                let _ = s.flush();
            }
            let rustls::StreamOwned { conn: _, sock } = s;
            if let Some(kp) = disconnect(rt, sock, how) {
                kept.push(kp);
            }
        }
    }
    if cancel {
        for (r, _, kind) in reqs.clone() {
            if kind == "wait" && !ctx.wait_for(&Ev::Drop(r), DEADLINE) {
                expired = true;
            }
        }
    }
    for (r, _, kind) in reqs.clone() {
        if kind == "stay" {
            ctx.release(r);
        }
    }
    for i in leavers.min(k)..k {
        let r = 2 * (1 + i as u32);
        if let Some(mut s) = conns[i].take() {
            // one small response: head, then the two body bytes
            let mut got = Vec::new();
            let mut buf = [0u8; 4096];
            loop {
                if let Some(p) = got.windows(4).position(|w| w == b"\r\n\r\n") {
                    if got.len() >= p + 4 + 2 {
                        break;
                    }
                }
                match std::io::Read::read(&mut s, &mut buf) {
                    Ok(0) | Err(_) => break,
                    Ok(n) => got.extend_from_slice(&buf[..n]),
                }
            }
            if got.starts_with(b"HTTP/1.1 200") && got.ends_with(b"ok") {
                resp.push((r, 200));
                ctx.log(Ev::RespDelivered(r));
            } else {
                resp.push((r, 0));
            }
        }
    }
    let healthy = tls_health(addr, kit);
    drop(kept);
    let closed = if cancel && !expired {
        close_then_release(rt, server, &ctx, DEADLINE, Duration::from_secs(60))
    } else {
        ctx.release_all();
        close_with_deadline(rt, server, Duration::from_secs(60))
    };
    ctx.release_all();
    let log = ctx.snapshot();
    reqs.sort();
    resp.sort();
    let reqs_s = reqs.iter().map(|(r, c, k)| format!("{}:{}:{}", r, c, k)).collect::<Vec<_>>().join(";");
    let resp_s = if resp.is_empty() {
        "-".to_string()
    } else {
        resp.iter().map(|(r, st)| format!("{}:{}", r, st)).collect::<Vec<_>>().join(";")
    };
    format!(
        "lc {} {} n=1 plans=tls-{}{}-k{}-l{} reqs={} {} => health={} closed={} late={} resp={}",
        id,
        mode_name(mode),
        how.name(),
        if notify { "-notify" } else { "" },
        k,
        leavers.min(k),
        reqs_s,
        enc_log(&log),
        healthy as u8,
        matches!(closed, Some(Ok(()))) as u8,
        late,
        resp_s
    )
}

fn random_plan(rng: &mut Rng, writers: &mut usize) -> Plan {
    let how = *rng.pick(&How::ALL);
    loop {
        let p = match rng.below(20) {
            0 => Plan::PartialLine(how),
            1 => Plan::PartialHeaders(how),
            2 | 3 => Plan::Immediately(how),
            4..=7 => Plan::Waiting(how),
            8 | 9 => Plan::WaitingBody(how),
            10 => Plan::Writing(how),
            11..=13 => Plan::Stay,
            14 | 15 => Plan::StayReuse,
            16 | 17 => Plan::ReuseThenWaiting(how),
            _ => Plan::Panic,
        };
        if let Plan::Writing(_) = p {
            if *writers >= 2 {
                continue;
            }
            *writers += 1;
        }
        return p;
    }
}

/// `cf` / `cs` lines: `ConfigDropshot` read from JSON text and written out as JSON (the task
/// mode in force is the one the deployment's configuration says).
///   cf <id> <json text, hex> => ok <bind hex> <max> <mode> <log header hex,…|-> | err
///   cs <id> <bind hex> <max> <mode> <log header hex,…|-> => <json text, hex>
fn config_lines(lines: &mut Vec<String>) {
    use dropshot::ConfigDropshot;
    let mut rng = Rng::from_env(1616);
    const ADDRS: &[&str] = &["127.0.0.1:0", "0.0.0.0:8080", "[::1]:443", "192.168.1.20:65535", "[::]:12220"];
    const MODES: &[&str] = &[
        "\"cancel-on-disconnect\"", "\"detached\"", "\"cancel-on-disconnect\"", "\"detached\"",
        "{\"detached\":null}", "{\"cancel-on-disconnect\":null}", "\"Detached\"", "\"cancel_on_disconnect\"",
        "\"CancelOnDisconnect\"", "\"cancel\"", "\"\"", "null", "0", "true", "[\"detached\"]", "{\"detached\":1}",
        "{\"detached\":null,\"cancel-on-disconnect\":null}", "{}",
    ];
    const MAXES: &[&str] = &[
        "0", "1", "1024", "4294967296", "18446744073709551615", "18446744073709551616", "-1", "\"1024\"", "null", "true",
        "[1024]", "99999999999999999999999999",
    ];
    const HDRS: &[&str] = &["[]", "[\"x-request-id\"]", "[\"a\",\"B\",\"a\"]", "[\"\"]", "[1]", "[null]", "\"a\"", "null", "{}", "[[\"a\"]]"];
    const OTHER: &[(&str, &str)] = &[
        ("request_body_max_bytes", "1024"),
        ("request_body_max_bytes", "null"),
        ("request_body_max_bytes", "\"x\""),
        ("unknown", "1"),
        ("tls", "{\"cert_file\":\"c\"}"),
        ("Default_handler_task_mode", "\"cancel-on-disconnect\""),
        ("default-handler-task-mode", "\"cancel-on-disconnect\""),
        ("default_handler_task_mode ", "\"cancel-on-disconnect\""),
        ("bind-address", "\"127.0.0.1:0\""),
    ];
    let mode_name = |m: HandlerTaskMode| if m == HandlerTaskMode::Detached { "detached" } else { "cancel" };
    let hdrs_enc = |h: &[String]| if h.is_empty() { "-".to_string() } else { h.iter().map(|x| format!("s{}", hex(x.as_bytes()))).collect::<Vec<_>>().join(",") };
    let mut id = 0u64;
    let n = if is_thorough() { 40000 } else { 4000 };
    for i in 0..n {
        let mut pairs: Vec<(String, String)> = Vec::new();
        // each known key: absent, present once (mostly with a good value), or twice
        let mut put = |pairs: &mut Vec<(String, String)>, rng: &mut Rng, key: &str, pool: &[&str], good: usize| {
            let times = match rng.below(10) {
                0 | 1 | 2 => 0,
                9 => 2,
                _ => 1,
            };
            for _ in 0..times {
                let v = if rng.chance(2, 3) { pool[rng.below(good as u64) as usize] } else { *rng.pick(pool) };
                pairs.push((key.to_string(), v.to_string()));
            }
        };
        let quoted: Vec<String> = ADDRS.iter().map(|a| format!("\"{}\"", a)).collect();
        let mut addr_pool: Vec<&str> = quoted.iter().map(|s| s.as_str()).collect();
        addr_pool.extend_from_slice(&["8080", "null", "[\"127.0.0.1:0\"]"]);
        put(&mut pairs, &mut rng, "bind_address", &addr_pool, ADDRS.len());
        put(&mut pairs, &mut rng, "default_request_body_max_bytes", MAXES, 5);
        put(&mut pairs, &mut rng, "default_handler_task_mode", MODES, 6);
        put(&mut pairs, &mut rng, "log_headers", HDRS, 4);
        if rng.chance(1, 4) {
            let (k, v) = *rng.pick(OTHER);
            pairs.push((k.to_string(), v.to_string()));
        }
        for k in (1..pairs.len()).rev() {
            let j = rng.below(k as u64 + 1) as usize;
            pairs.swap(k, j);
        }
        let text = if i % 97 == 96 {
            rng.pick(&["null", "3", "\"detached\"", "true"]).to_string()
        } else {
            format!("{{{}}}", pairs.iter().map(|(k, v)| format!("\"{}\":{}", k, v)).collect::<Vec<_>>().join(","))
        };
        let got = match serde_json::from_str::<ConfigDropshot>(&text) {
            Ok(c) => format!(
                "ok {} {} {} {}",
                hex(c.bind_address.to_string().as_bytes()),
                c.default_request_body_max_bytes,
                mode_name(c.default_handler_task_mode),
                hdrs_enc(&c.log_headers)
            ),
            Err(_) => "err".to_string(),
        };
        id += 1;
        lines.push(format!("cf {} {} => {}", id, hex(text.as_bytes()), got));
    }
    for _ in 0..(n / 4) {
        let c = ConfigDropshot {
            bind_address: rng.pick(ADDRS).parse().unwrap(),
            default_request_body_max_bytes: *rng.pick(&[0usize, 1, 1024, 1 << 32, usize::MAX]),
            default_handler_task_mode: if rng.chance(1, 2) { HandlerTaskMode::Detached } else { HandlerTaskMode::CancelOnDisconnect },
            log_headers: (0..rng.below(3)).map(|_| rng.pick(&["x-request-id", "a", "", "B\"q\""]).to_string()).collect(),
        };
        let text = serde_json::to_string(&c).expect("configuration serialises");
        id += 1;
        lines.push(format!(
            "cs {} {} {} {} {} => {}",
            id,
            hex(c.bind_address.to_string().as_bytes()),
            c.default_request_body_max_bytes,
            mode_name(c.default_handler_task_mode),
            hdrs_enc(&c.log_headers),
            hex(text.as_bytes())
        ));
    }
}

fn main() {
    quiet_handler_panics();
    let rt = Arc::new(
        tokio::runtime::Builder::new_multi_thread().worker_threads(8).enable_all().build().unwrap(),
    );
    let mut rng = Rng::from_env(16);
    let modes = [HandlerTaskMode::Detached, HandlerTaskMode::CancelOnDisconnect];
    let mut scenarios: Vec<(String, HandlerTaskMode, Vec<Plan>)> = Vec::new();
    let mut k = 0;
    let mut add = |sc: &mut Vec<(String, HandlerTaskMode, Vec<Plan>)>, tag: &str, m: HandlerTaskMode, p: Vec<Plan>| {
        k += 1;
        sc.push((format!("{}{}", tag, k), m, p));
    };
    // 1. systematic: every disconnect point x every way of disconnecting x both modes,
    //    alone and next to a client that stays connected.
    for &m in &modes {
        for &h in &How::ALL {
            for p in [
                Plan::PartialLine(h),
                Plan::PartialHeaders(h),
                Plan::Immediately(h),
                Plan::Waiting(h),
                Plan::WaitingUpgradeHdr(h),
                Plan::WaitingDropCtx(h),
                Plan::WaitingBody(h),
                Plan::Writing(h),
                Plan::ReuseThenWaiting(h),
            ] {
                add(&mut scenarios, "s", m, vec![p]);
                add(&mut scenarios, "s", m, vec![Plan::Stay, p, Plan::StayReuse]);
            }
        }
        add(&mut scenarios, "s", m, vec![Plan::Stay]);
        add(&mut scenarios, "s", m, vec![Plan::StayReuse]);
        add(&mut scenarios, "s", m, vec![Plan::Panic]);
        add(&mut scenarios, "s", m, vec![Plan::Stay, Plan::Panic, Plan::StayReuse, Plan::Panic]);
    }
    // 2. known-finding candidates (hyper does not look for EOF while unread
    //    bytes are buffered / a request body is pending)
    for &m in &modes {
        for &h in &[How::Fin, How::Rst] {
            add(&mut scenarios, "k", m, vec![Plan::Pipelined(h), Plan::Stay]);
            add(&mut scenarios, "k", m, vec![Plan::UnreadBody(h), Plan::Stay]);
        }
    }
    // 3. random mixes, 1..32 concurrent connections
    let n_random = if is_thorough() { 2400 } else { 120 };
    for i in 0..n_random {
        let m = modes[i % 2];
        let n = match i % 6 {
            0 => 32,
            1 => rng.range(1, 4),
            2 => rng.range(17, 32),
            _ => rng.range(2, 16),
        } as usize;
        let mut writers = 0;
        let plans: Vec<Plan> = (0..n).map(|_| random_plan(&mut rng, &mut writers)).collect();
        add(&mut scenarios, "r", m, plans);
    }

    // 3b. many handlers in flight at once: 280 clients that stay, then 40 that leave while
    //     their handler waits (the promise of the task mode does not depend on the load)
    for &m in &modes {
        let mut plans: Vec<Plan> = (0..280).map(|_| Plan::Stay).collect();
        for i in 0..40 {
            plans.push(Plan::Waiting(How::ALL[i % How::ALL.len()]));
        }
        add(&mut scenarios, "big", m, plans);
    }

    // 4. HTTP/2: k concurrent streams on one connection (each with an HTTP/1.1 control)
    enum Job {
        H1(String, HandlerTaskMode, Vec<Plan>),
        H2(String, HandlerTaskMode, H2Variant, usize),
        Tls(String, HandlerTaskMode, usize, usize, How, bool),
    }
    let mut jobs: Vec<Job> = Vec::new();
    let mut hk = 0;
    let n_h2_random = if is_thorough() { 200 } else { 16 };
    for &m in &modes {
        for v in [H2Variant::Stay, H2Variant::Reset(1), H2Variant::Reset(2), H2Variant::DropConn] {
            for kk in [1usize, 4] {
                if let H2Variant::Reset(n) = v {
                    if n > kk {
                        continue;
                    }
                }
                hk += 1;
                jobs.push(Job::H2(format!("h{}", hk), m, v, kk));
            }
        }
    }
    for i in 0..n_h2_random {
        let kk = rng.range(2, 12) as usize;
        let v = match rng.below(4) {
            0 => H2Variant::Stay,
            1 => H2Variant::DropConn,
            _ => H2Variant::Reset(rng.range(1, kk as u64) as usize),
        };
        hk += 1;
        jobs.push(Job::H2(format!("h{}", hk), modes[i % 2], v, kk));
    }
    // 5. HTTPS: clients leave / stay while their handlers wait
    let kit = Arc::new(tls_kit());
    let mut tk = 0;
    for &m in &modes {
        for how in How::ALL {
            for (kk, ll, notify) in [(1usize, 1usize, false), (4, 2, false), (3, 3, true), (2, 0, false)] {
                tk += 1;
                jobs.push(Job::Tls(format!("t{}", tk), m, kk, ll, how, notify));
            }
        }
    }
    for i in 0..(if is_thorough() { 120 } else { 12 }) {
        let kk = rng.range(1, 10) as usize;
        tk += 1;
        jobs.push(Job::Tls(format!("t{}", tk), modes[i % 2], kk, rng.below(kk as u64 + 1) as usize, *rng.pick(&How::ALL), rng.chance(1, 3)));
    }
    for (id, m, p) in scenarios {
        jobs.push(Job::H1(id, m, p));
    }
    let total = jobs.len();
    let scenarios = Arc::new(jobs);
    let next = Arc::new(AtomicUsize::new(0));
    let results: Arc<Mutex<Vec<Option<String>>>> = Arc::new(Mutex::new(vec![None; total]));
    let workers = 12;
    let mut ws = Vec::new();
    for _ in 0..workers {
        let (scenarios, next, results, rt) = (scenarios.clone(), next.clone(), results.clone(), rt.clone());
        let kit = kit.clone();
        ws.push(std::thread::spawn(move || loop {
            let i = next.fetch_add(1, Ordering::SeqCst);
            if i >= scenarios.len() {
                break;
            }
            let line = match &scenarios[i] {
                Job::H1(id, m, plans) => run_scenario(&rt, id, *m, plans),
                Job::H2(id, m, v, kk) => run_h2_scenario(&rt, id, *m, *v, *kk),
                Job::Tls(id, m, kk, ll, how, notify) => run_tls_scenario(&rt, id, *m, &kit, *kk, *ll, *how, *notify),
            };
            results.lock().unwrap()[i] = Some(line);
        }));
    }
    for w in ws {
        w.join().unwrap();
    }
    let mut out = std::io::BufWriter::new(std::io::stdout());
    for l in results.lock().unwrap().iter() {
        writeln!(out, "{}", l.as_ref().expect("scenario ran")).unwrap();
    }
    let mut cfg_lines = Vec::new();
    config_lines(&mut cfg_lines);
    for l in cfg_lines {
        writeln!(out, "{}", l).unwrap();
    }
    out.flush().unwrap();
}
