//! C17 trace-validation harness: graceful and complete shutdown.
//!
//! Scenario = (mode) x (in-flight handlers: released before / after close() is
//! called, client stays or has left) x (idle keep-alive connections, idle
//! connections that never sent a byte) x (waiters polled before close, during
//! close, after close returned) [x half-sent request, thorough tier only].
//!
//!   sd <id> <mode> plan=<...> reqs=<r>:<c>:<kind>;... watch=<c>,... nwait=<n> <event log> => closed=<ok|err|timeout> released=<n>
//!
//! The Lean driver inserts the two unobservable events (AcceptStopped,
//! JoinResolved) immediately before the first released waiter, runs
//! `Shutdown.acceptsSettled` and evaluates the property clauses on the log.

#[path = "../lc_common.rs"]
mod lc;

use dropshot::HandlerTaskMode;
use dsharness::util::*;
use lc::*;
use std::io::{Read, Write};
use std::net::TcpStream;
use std::sync::atomic::{AtomicUsize, Ordering};
use std::sync::{Arc, Mutex};
use std::time::Duration;

const DEADLINE: Duration = Duration::from_secs(10);

#[derive(Clone, Copy, Debug, PartialEq, Eq)]
enum Release {
    /// gate opened before close() is called and Done awaited
    BeforeDone,
    /// gate opened before close() is called, not awaited
    Before,
    /// gate opened only after close() was called (close must wait)
    After,
}

#[derive(Clone, Copy, Debug, PartialEq, Eq)]
enum Client {
    Stays,
    Leaves(How),
}

#[derive(Clone, Debug)]
struct Scn {
    mode: HandlerTaskMode,
    /// (when the gate opens, what the client does, handler drops its RequestContext early)
    inflight: Vec<(Release, Client, bool)>,
    /// after a client left, wait until the server has noticed (its
    /// "request handling cancelled (client disconnected)" log record) before going on
    wait_noticed: bool,
    idle_keepalive: usize,
    idle_fresh: usize,
    half_sent: bool,
    waiters: [usize; 3], // polled before close / while closing / after close returned
    /// > 0: the clients that stay ask for a response of this many bytes, have a small
    /// receive buffer and only start reading (slowly) once close() has been requested:
    /// the response is still in the server's buffers when shutdown begins
    big: usize,
    /// the clients that stay send a second, complete request on the same connection in the
    /// same write as the first (its handler is not gated): bytes of a following request are
    /// already in the server's read buffer while the first one is in flight at shutdown
    pipe: bool,
    /// shutdown is requested by dropping the `HttpServer` instead of calling `close()`;
    /// the result reported for "the closer" is that of a `wait_for_shutdown()` future
    /// taken immediately before the drop
    by_drop: bool,
    /// the handlers released after close() was requested are released only this many
    /// milliseconds later: a request that takes long to finish is waited for all the same
    slow_ms: u64,
}

impl Scn {
    fn describe(&self) -> String {
        let inf = if self.inflight.is_empty() {
            "-".to_string()
        } else {
            self.inflight
                .iter()
                .map(|(r, c, d)| {
                    format!(
                        "{}{}{}",
                        match r {
                            Release::BeforeDone => "bd",
                            Release::Before => "b",
                            Release::After => "a",
                        },
                        if *d { "!" } else { "" },
                        match c {
                            Client::Stays => "S".to_string(),
                            Client::Leaves(h) => format!("L{}", h.name()),
                        }
                    )
                })
                .collect::<Vec<_>>()
                .join("+")
        };
        format!(
            "inflight={},big={},pipe={},bydrop={},noticed={},idle={}/{},half={},waiters={}/{}/{}",
            inf,
            self.big,
            self.pipe as u8,
            self.by_drop as u8,
            self.wait_noticed as u8,
            self.idle_keepalive,
            self.idle_fresh,
            self.half_sent as u8,
            self.waiters[0],
            self.waiters[1],
            self.waiters[2]
        )
    }
}

/// Client side of a connection that stays: optionally read the pending
/// response, then wait for the server to close the connection.
fn watch_conn(ctx: &Ctx, mut s: TcpStream, c: u32, pending: Option<u32>, wait: Duration, big: usize) {
    let _ = s.set_read_timeout(Some(wait));
    if let Some(r) = pending {
        if big > 0 {
            // a slow reader: the head, then the body in small pieces; for an odd number of
            // MiB the client first pauses, so that the response is still being transmitted
            // well after the last handler has returned
            if (big >> 20) % 2 == 1 {
                std::thread::sleep(Duration::from_millis(1400));
            }
            let mut got: Vec<u8> = Vec::new();
            let mut buf = vec![0u8; 32 * 1024];
            let mut need: Option<usize> = None;
            loop {
                if let Some(n) = need {
                    if got.len() >= n {
                        break;
                    }
                }
                match s.read(&mut buf) {
                    Ok(0) | Err(_) => break,
                    Ok(n) => got.extend_from_slice(&buf[..n]),
                }
                if need.is_none() {
                    if let Some(p) = got.windows(4).position(|w| w == b"\r\n\r\n") {
                        need = Some(p + 4 + big);
                    }
                }
                std::thread::sleep(Duration::from_micros(300));
            }
            let complete = need.map(|n| got.len() == n).unwrap_or(false)
                && got.starts_with(b"HTTP/1.1 200")
                && got[got.len() - big..].iter().all(|b| *b == b'x');
            if complete {
                ctx.log(Ev::RespDelivered(r));
            } else {
                return;
            }
        } else {
            match read_one(&s) {
                Some(resp) if resp.well_formed && resp.status == 200 && resp.body == b"ok" => {
                    ctx.log(Ev::RespDelivered(r))
                }
                _ => return,
            }
        }
    }
    let mut b = [0u8; 256];
    loop {
        match s.read(&mut b) {
            Ok(0) => {
                ctx.log(Ev::ConnClosed(c));
                return;
            }
            Ok(_) => continue, // e.g. a 408 for the half-sent request
            Err(e) => match e.kind() {
                std::io::ErrorKind::WouldBlock | std::io::ErrorKind::TimedOut => return,
                std::io::ErrorKind::Interrupted => continue,
                _ => {
                    // reset by peer: closed as well
                    ctx.log(Ev::ConnClosed(c));
                    return;
                }
            },
        }
    }
}

/// A client socket with a small receive buffer (set before connecting, so the window is small).
fn open_small_rcvbuf(rt: &Arc<tokio::runtime::Runtime>, addr: std::net::SocketAddr) -> Option<TcpStream> {
    for _ in 0..50 {
        let r = rt.block_on(async {
            let sock = tokio::net::TcpSocket::new_v4()?;
            sock.set_recv_buffer_size(16 * 1024)?;
            let s = sock.connect(addr).await?;
            s.into_std()
        });
        if let Ok(s) = r {
            let _ = s.set_nonblocking(false);
            let _ = s.set_read_timeout(Some(Duration::from_secs(10)));
            let _ = s.set_write_timeout(Some(Duration::from_secs(10)));
            return Some(s);
        }
        std::thread::sleep(Duration::from_millis(20));
    }
    None
}

fn run_scenario(rt: &Arc<tokio::runtime::Runtime>, id: &str, sc: &Scn) -> String {
    let ctx = Ctx::new();
    let server = start(rt, &ctx, sc.mode);
    let addr = server.local_addr();
    let own_inode = listen_inode(addr);
    let mut reqs: Vec<(u32, u32, String)> = Vec::new();
    let mut late = 0usize;
    let mut c = 0u32;
    // (stream, conn id, pending request) of clients that stay connected
    let mut staying: Vec<(TcpStream, u32, Option<u32>)> = Vec::new();
    let mut fin_kept: Vec<TcpStream> = Vec::new();
    let mut before: Vec<(u32, bool)> = Vec::new();
    let mut after: Vec<u32> = Vec::new();
    let mut big_conns: Vec<u32> = Vec::new();

    // ---- A. connections ------------------------------------------------------
    for _ in 0..sc.idle_keepalive {
        c += 1;
        let r = 10 * c;
        let Some(mut s) = open(addr) else { late += 1; continue };
        ctx.release(r);
        let _ = send_logged(&ctx, &mut s, &get(&format!("/w/{}", r)), Ev::ReqSent(c, r));
        match read_one(&s) {
            Some(resp) if resp.well_formed && resp.status == 200 => ctx.log(Ev::RespDelivered(r)),
            _ => late += 1,
        }
        reqs.push((r, c, "earlier".into()));
        staying.push((s, c, None));
    }
    for _ in 0..sc.idle_fresh {
        c += 1;
        let Some(s) = open(addr) else { late += 1; continue };
        staying.push((s, c, None));
    }
    let mut half_conn = None;
    if sc.half_sent {
        c += 1;
        if let Some(mut s) = open(addr) {
            let _ = s.write_all(b"GET /w/1 HTTP/1.1\r\nhost: localhost\r\nx-half: sen");
            half_conn = Some(c);
            staying.push((s, c, None));
        }
    }
    let mut n_left = 0usize;
    for (rel, cl, dropctx) in &sc.inflight {
        c += 1;
        let r = 10 * c;
        let slow = sc.big > 0 && *cl == Client::Stays && !*dropctx;
        let opened = if slow { open_small_rcvbuf(rt, addr) } else { open(addr) };
        let Some(mut s) = opened else { late += 1; continue };
        let path = if *dropctx {
            format!("/wd/{}", r)
        } else if slow {
            format!("/w/{}?big={}", r, sc.big)
        } else {
            format!("/w/{}", r)
        };
        if slow {
            big_conns.push(c);
        }
        if sc.pipe && *cl == Client::Stays && !slow {
            // two requests in one write; the second handler runs straight through if it is started
            let r2 = r + 1;
            ctx.release(r2);
            let mut both = get(&path);
            both.extend_from_slice(&get(&format!("/w/{}", r2)));
            ctx.log(Ev::ReqSent(c, r));
            ctx.log(Ev::ReqSent(c, r2));
            let _ = s.write_all(&both);
            reqs.push((r2, c, "pipelined".into()));
        } else {
            let _ = send_logged(&ctx, &mut s, &get(&path), Ev::ReqSent(c, r));
        }
        if !ctx.wait_for(&Ev::Start(r), DEADLINE) {
            late += 1;
        }
        match cl {
            Client::Stays => {
                reqs.push((r, c, "stays".into()));
                staying.push((s, c, Some(r)));
            }
            Client::Leaves(how) => {
                reqs.push((r, c, "left".into()));
                ctx.log(Ev::Disconnect(c));
                if let Some(k) = disconnect(rt, s, *how) {
                    fin_kept.push(k);
                }
                if sc.mode == HandlerTaskMode::CancelOnDisconnect && !ctx.wait_for(&Ev::Drop(r), DEADLINE) {
                    late += 1;
                }
                n_left += 1;
                if sc.wait_noticed {
                    // The server has noticed: hyper dropped the service future
                    // (its scopeguard logged the cancellation), so the connection
                    // task and everything it owned are gone; only the handler
                    // (detached mode) is left.  And a fresh connection is served.
                    let noticed = ctx.noticed.clone();
                    if !wait_until(DEADLINE, || noticed.load(Ordering::SeqCst) >= n_left) {
                        late += 1;
                    }
                    if !health(addr) {
                        late += 1;
                    }
                }
            }
        }
        match rel {
            Release::BeforeDone => before.push((r, true)),
            Release::Before => before.push((r, false)),
            Release::After => after.push(r),
        }
    }
    let watch: Vec<u32> = staying.iter().map(|(_, c, _)| *c).collect();

    // ---- B. waiters, handlers released before close -----------------------------
    let n_wait = sc.waiters.iter().sum::<usize>();
    let released = Arc::new(AtomicUsize::new(0));
    let mut futs: Vec<dropshot::ShutdownWaitFuture> = (0..n_wait).map(|_| server.wait_for_shutdown()).collect();
    let mut tasks = Vec::new();
    let mut next_waiter = 1u32;
    let mut spawn_waiters = |n: usize, futs: &mut Vec<dropshot::ShutdownWaitFuture>, tasks: &mut Vec<tokio::task::JoinHandle<()>>| {
        for _ in 0..n {
            let f = futs.pop().unwrap();
            let i = next_waiter;
            next_waiter += 1;
            let (ctx, released) = (ctx.clone(), released.clone());
            tasks.push(rt.spawn(async move {
                let res = f.await;
                ctx.log(Ev::WaiterReleased(i, res.is_ok()));
                released.fetch_add(1, Ordering::SeqCst);
            }));
        }
    };
    spawn_waiters(sc.waiters[0], &mut futs, &mut tasks);
    for (r, wait_done) in &before {
        ctx.release(*r);
        let cancelled = sc.mode == HandlerTaskMode::CancelOnDisconnect && ctx.has(&Ev::Drop(*r));
        if *wait_done && !cancelled && !ctx.wait_for(&Ev::Done(*r), DEADLINE) {
            late += 1;
        }
    }

    // ---- C. close ---------------------------------------------------------------
    ctx.log(Ev::CloseRequested);
    let by_drop = sc.by_drop;
    let close_task = {
        let (ctx, released) = (ctx.clone(), released.clone());
        rt.spawn(async move {
            let res = if by_drop {
                let w = server.wait_for_shutdown();
                drop(server);
                w.await
            } else {
                server.close().await
            };
            ctx.log(Ev::WaiterReleased(0, res.is_ok()));
            released.fetch_add(1, Ordering::SeqCst);
            res
        })
    };
    spawn_waiters(sc.waiters[1], &mut futs, &mut tasks);
    let read_wait = if sc.half_sent || sc.slow_ms > 0 { Duration::from_secs(50) } else { Duration::from_secs(20) };
    let mut readers = Vec::new();
    for (s, c, pending) in staying.drain(..) {
        let ctx = ctx.clone();
        let big = if big_conns.contains(&c) { sc.big } else { 0 };
        readers.push(std::thread::spawn(move || watch_conn(&ctx, s, c, pending, read_wait, big)));
    }
    // Handlers still held (and not yet cancelled) keep shutdown from finishing.
    let holding = after.iter().any(|r| !ctx.has(&Ev::Drop(*r)));
    if holding {
        // Not a correctness assumption: it only gives a wrong implementation
        // (close() returning early) time to show itself in the log.
        std::thread::sleep(Duration::from_millis(30));
        // The listener socket lives until the server task ends, so the kernel
        // still completes handshakes.
        match TcpStream::connect_timeout(&addr, Duration::from_secs(5)) {
            Ok(_) => ctx.log(Ev::ConnectAccepted),
            Err(_) => ctx.log(Ev::ConnectRefused),
        }
    }
    if sc.slow_ms > 0 && holding {
        // a request that takes long to finish after shutdown was requested
        std::thread::sleep(Duration::from_millis(sc.slow_ms));
    }
    for r in &after {
        ctx.release(*r);
    }

    // ---- D. close returned -------------------------------------------------------
    // a half-sent request is bounded by hyper's 30 s header-read timeout:
    // close() must be back within 45 s (else: class half-sent-hang, a spec failure)
    let close_deadline = if sc.half_sent { Duration::from_secs(45) } else { Duration::from_secs(40) };
    let closed = rt.block_on(async {
        match tokio::time::timeout(close_deadline, close_task).await {
            Ok(Ok(Ok(()))) => "ok",
            Ok(Ok(Err(_))) => "err",
            Ok(Err(_)) => "panicked",
            Err(_) => "timeout",
        }
    });
    spawn_waiters(sc.waiters[2], &mut futs, &mut tasks);
    rt.block_on(async {
        for t in tasks {
            let _ = tokio::time::timeout(DEADLINE, t).await;
        }
    });
    if closed != "timeout" {
        // connect() to the old address must fail.  If something accepts on that
        // port, only the closed server itself counts: not a TCP self-connection
        // (ephemeral-port quirk), not another server that was given the port
        // meanwhile (it answers GET /id with another id, or 404).  A peer that
        // accepts but does not answer may be another scenario's server in its own
        // shutdown phase: retry; only a listener that stays mute for the whole
        // retry period is reported as "still accepting".
        let mut verdict = Ev::ConnectAccepted;
        // first of all: this server's own listening socket (identified by its inode when the
        // scenario began) must be gone, before any probe connects to the port
        let own_listener_open = listener_still_open(addr, own_inode, Duration::from_millis(1200));
        for _attempt in 0..30 {
            if own_listener_open {
                break;
            }
            match TcpStream::connect_timeout(&addr, Duration::from_secs(5)) {
                Err(_) => {
                    verdict = Ev::ConnectRefused;
                    break;
                }
                Ok(s) => {
                    let selfconn = match (s.local_addr(), s.peer_addr()) {
                        (Ok(a), Ok(b)) => a == b,
                        _ => false,
                    };
                    if selfconn {
                        verdict = Ev::ConnectRefused;
                        break;
                    }
                    let _ = s.set_read_timeout(Some(Duration::from_millis(400)));
                    let mut s2 = s;
                    let _ = s2.write_all(&get("/id"));
                    match read_one(&s2) {
                        Some(resp) if resp.well_formed => {
                            if resp.body != format!("{}", ctx.id).as_bytes() {
                                verdict = Ev::ConnectRefused;
                            }
                            break;
                        }
                        _ => std::thread::sleep(Duration::from_millis(100)),
                    }
                }
            }
        }
        ctx.log(verdict);
    }
    for t in readers {
        let _ = t.join();
    }
    drop(fin_kept);
    ctx.release_all();
    let log = ctx.snapshot();
    reqs.sort();
    let reqs_s = if reqs.is_empty() {
        "-".to_string()
    } else {
        reqs.iter().map(|(r, c, k)| format!("{}:{}:{}", r, c, k)).collect::<Vec<_>>().join(";")
    };
    let watch_s = if watch.is_empty() {
        "-".to_string()
    } else {
        watch.iter().map(|c| c.to_string()).collect::<Vec<_>>().join(",")
    };
    let _ = half_conn;
    format!(
        "sd {} {} plan={} reqs={} watch={} nwait={} {} => closed={} released={} late={}",
        id,
        mode_name(sc.mode),
        sc.describe(),
        reqs_s,
        watch_s,
        n_wait + 1,
        enc_log(&log),
        closed,
        released.load(Ordering::SeqCst),
        late
    )
}

/// HTTPS: the accept loop has a separate arm for TLS connections, so graceful shutdown is
/// exercised there too.  `before` in-flight requests are released (and done) before close()
/// is requested, `after` only afterwards; `idle` keep-alive connections have been served and
/// stay open.  Every client stays connected.  Same line format as the plain scenarios.
fn run_tls_scenario(
    rt: &Arc<tokio::runtime::Runtime>,
    id: &str,
    mode: HandlerTaskMode,
    kit: &TlsKit,
    before: usize,
    after: usize,
    idle: usize,
) -> String {
    let ctx = Ctx::new();
    let server = start_opts(rt, &ctx, mode, Some(kit.server.clone()));
    let addr = server.local_addr();
    let own_inode = listen_inode(addr);
    let mut reqs: Vec<(u32, u32, String)> = Vec::new();
    let mut late = 0usize;
    let mut c = 0u32;
    let mut staying: Vec<(TlsStream, u32, Option<u32>)> = Vec::new();
    let mut rel_after: Vec<u32> = Vec::new();
    let read_ok = |s: &mut TlsStream| -> bool {
        let mut got = Vec::new();
        let mut buf = [0u8; 4096];
        loop {
            if let Some(p) = got.windows(4).position(|w| w == b"\r\n\r\n") {
                if got.len() >= p + 4 + 2 {
                    break;
                }
            }
            match s.read(&mut buf) {
                Ok(0) | Err(_) => break,
                Ok(n) => got.extend_from_slice(&buf[..n]),
            }
        }
        got.starts_with(b"HTTP/1.1 200") && got.ends_with(b"ok")
    };
    for _ in 0..idle {
        c += 1;
        let r = 10 * c;
        let Some(mut s) = tls_connect(addr, kit) else { late += 1; continue };
        let _ = s.sock.set_read_timeout(Some(Duration::from_secs(20)));
        ctx.release(r);
        ctx.log(Ev::ReqSent(c, r));
        let _ = s.write_all(&get(&format!("/w/{}", r)));
        let _ = s.flush();
        if read_ok(&mut s) {
            ctx.log(Ev::RespDelivered(r));
        } else {
            late += 1;
        }
        reqs.push((r, c, "earlier".into()));
        staying.push((s, c, None));
    }
    for i in 0..(before + after) {
        c += 1;
        let r = 10 * c;
        let Some(mut s) = tls_connect(addr, kit) else { late += 1; continue };
        let _ = s.sock.set_read_timeout(Some(Duration::from_secs(20)));
        ctx.log(Ev::ReqSent(c, r));
        let _ = s.write_all(&get(&format!("/w/{}", r)));
        let _ = s.flush();
        if !ctx.wait_for(&Ev::Start(r), DEADLINE) {
            late += 1;
        }
        reqs.push((r, c, "stays".into()));
        staying.push((s, c, Some(r)));
        if i < before {
            ctx.release(r);
            if !ctx.wait_for(&Ev::Done(r), DEADLINE) {
                late += 1;
            }
        } else {
            rel_after.push(r);
        }
    }
    let watch: Vec<u32> = staying.iter().map(|(_, c, _)| *c).collect();
    let released = Arc::new(AtomicUsize::new(0));
    let mut tasks = Vec::new();
    let mut waiter = |i: u32, tasks: &mut Vec<tokio::task::JoinHandle<()>>| {
        let f = server.wait_for_shutdown();
        let (ctx, released) = (ctx.clone(), released.clone());
        tasks.push(rt.spawn(async move {
            let res = f.await;
            ctx.log(Ev::WaiterReleased(i, res.is_ok()));
            released.fetch_add(1, Ordering::SeqCst);
        }));
    };
    waiter(1, &mut tasks);
    let w2 = server.wait_for_shutdown();
    let w3 = server.wait_for_shutdown();
    ctx.log(Ev::CloseRequested);
    let close_task = {
        let (ctx, released) = (ctx.clone(), released.clone());
        rt.spawn(async move {
            let res = server.close().await;
            ctx.log(Ev::WaiterReleased(0, res.is_ok()));
            released.fetch_add(1, Ordering::SeqCst);
            res
        })
    };
    {
        let (ctx, released) = (ctx.clone(), released.clone());
        tasks.push(rt.spawn(async move {
            let res = w2.await;
            ctx.log(Ev::WaiterReleased(2, res.is_ok()));
            released.fetch_add(1, Ordering::SeqCst);
        }));
    }
    let mut readers = Vec::new();
    for (mut s, c, pending) in staying.drain(..) {
        let ctx = ctx.clone();
        readers.push(std::thread::spawn(move || {
            if let Some(r) = pending {
                let mut got = Vec::new();
                let mut buf = [0u8; 4096];
                loop {
                    if let Some(p) = got.windows(4).position(|w| w == b"\r\n\r\n") {
                        if got.len() >= p + 4 + 2 {
                            break;
                        }
                    }
                    match s.read(&mut buf) {
                        Ok(0) | Err(_) => break,
                        Ok(n) => got.extend_from_slice(&buf[..n]),
                    }
                }
                if got.starts_with(b"HTTP/1.1 200") && got.ends_with(b"ok") {
                    ctx.log(Ev::RespDelivered(r));
                } else {
                    return;
                }
            }
            // then the server closes the connection (close_notify, FIN or reset)
            let mut buf = [0u8; 256];
            loop {
                match s.read(&mut buf) {
                    Ok(0) => {
                        ctx.log(Ev::ConnClosed(c));
                        return;
                    }
                    Ok(_) => continue,
                    Err(e) => match e.kind() {
                        std::io::ErrorKind::WouldBlock | std::io::ErrorKind::TimedOut => return,
                        std::io::ErrorKind::Interrupted => continue,
                        _ => {
                            ctx.log(Ev::ConnClosed(c));
                            return;
                        }
                    },
                }
            }
        }));
    }
    if !rel_after.is_empty() {
        std::thread::sleep(Duration::from_millis(30));
        match TcpStream::connect_timeout(&addr, Duration::from_secs(5)) {
            Ok(_) => ctx.log(Ev::ConnectAccepted),
            Err(_) => ctx.log(Ev::ConnectRefused),
        }
    }
    for r in &rel_after {
        ctx.release(*r);
    }
    let closed = rt.block_on(async {
        match tokio::time::timeout(Duration::from_secs(40), close_task).await {
            Ok(Ok(Ok(()))) => "ok",
            Ok(Ok(Err(_))) => "err",
            Ok(Err(_)) => "panicked",
            Err(_) => "timeout",
        }
    });
    {
        let (ctx, released) = (ctx.clone(), released.clone());
        tasks.push(rt.spawn(async move {
            let res = w3.await;
            ctx.log(Ev::WaiterReleased(3, res.is_ok()));
            released.fetch_add(1, Ordering::SeqCst);
        }));
    }
    rt.block_on(async {
        for t in tasks {
            let _ = tokio::time::timeout(DEADLINE, t).await;
        }
    });
    if closed != "timeout" {
        // the port: a refused connect, or a listener that is not this server (it cannot
        // complete a TLS handshake with our kit and answer /id with this server's id)
        let mut verdict = Ev::ConnectAccepted;
        let own_listener_open = listener_still_open(addr, own_inode, Duration::from_millis(1200));
        for _attempt in 0..30 {
            if own_listener_open {
                break;
            }
            match TcpStream::connect_timeout(&addr, Duration::from_secs(5)) {
                Err(_) => {
                    verdict = Ev::ConnectRefused;
                    break;
                }
                Ok(s) => {
                    let selfconn = match (s.local_addr(), s.peer_addr()) {
                        (Ok(a), Ok(b)) => a == b,
                        _ => false,
                    };
                    drop(s);
                    if selfconn {
                        verdict = Ev::ConnectRefused;
                        break;
                    }
                    match tls_connect(addr, kit) {
                        None => {
                            // accepts TCP but does not speak TLS with us: not this server
                            verdict = Ev::ConnectRefused;
                            break;
                        }
                        Some(mut t) => {
                            let _ = t.sock.set_read_timeout(Some(Duration::from_millis(400)));
                            let _ = t.write_all(&get("/id"));
                            let _ = t.flush();
                            let body = tls_read_to_end(&mut t);
                            if !body.is_empty() {
                                if !body.ends_with(format!("{}", ctx.id).as_bytes()) {
                                    verdict = Ev::ConnectRefused;
                                }
                                break;
                            }
                            std::thread::sleep(Duration::from_millis(100));
                        }
                    }
                }
            }
        }
        ctx.log(verdict);
    }
    for t in readers {
        let _ = t.join();
    }
    ctx.release_all();
    let log = ctx.snapshot();
    reqs.sort();
    let reqs_s = if reqs.is_empty() {
        "-".to_string()
    } else {
        reqs.iter().map(|(r, c, k)| format!("{}:{}:{}", r, c, k)).collect::<Vec<_>>().join(";")
    };
    let watch_s = if watch.is_empty() {
        "-".to_string()
    } else {
        watch.iter().map(|c| c.to_string()).collect::<Vec<_>>().join(",")
    };
    format!(
        "sd {} {} plan=tls,before={},after={},idle={},half=0 reqs={} watch={} nwait=4 {} => closed={} released={} late={}",
        id,
        mode_name(mode),
        before,
        after,
        idle,
        reqs_s,
        watch_s,
        enc_log(&log),
        closed,
        released.load(Ordering::SeqCst),
        late
    )
}

fn main() {
    quiet_handler_panics();
    let rt = Arc::new(
        tokio::runtime::Builder::new_multi_thread().worker_threads(8).enable_all().build().unwrap(),
    );
    let mut rng = Rng::from_env(17);
    let modes = [HandlerTaskMode::Detached, HandlerTaskMode::CancelOnDisconnect];
    let mut scenarios: Vec<(String, Scn)> = Vec::new();
    let mut k = 0;
    let mut add = |v: &mut Vec<(String, Scn)>, tag: &str, s: Scn| {
        k += 1;
        v.push((format!("{}{}", tag, k), s));
    };
    let base = |mode| Scn { mode, inflight: vec![], wait_noticed: false, idle_keepalive: 0, idle_fresh: 0, half_sent: false, waiters: [1, 1, 1], big: 0, pipe: false, by_drop: false, slow_ms: 0 };
    // 1. systematic
    for &m in &modes {
        // nothing in flight
        add(&mut scenarios, "s", base(m));
        add(&mut scenarios, "s", Scn { waiters: [0, 0, 0], ..base(m) });
        add(&mut scenarios, "s", Scn { idle_keepalive: 2, idle_fresh: 2, ..base(m) });
        // one handler, every release moment x client present / gone
        for rel in [Release::BeforeDone, Release::Before, Release::After] {
            add(&mut scenarios, "s", Scn { inflight: vec![(rel, Client::Stays, false)], ..base(m) });
            add(&mut scenarios, "s", Scn { inflight: vec![(rel, Client::Stays, false)], idle_keepalive: 1, idle_fresh: 1, waiters: [2, 2, 2], ..base(m) });
            // a second request already in the server's read buffer while the first is in flight
            add(&mut scenarios, "s", Scn { inflight: vec![(rel, Client::Stays, false)], pipe: true, ..base(m) });
            add(&mut scenarios, "s", Scn { inflight: vec![(rel, Client::Stays, false), (Release::After, Client::Stays, false)], pipe: true, idle_keepalive: 1, ..base(m) });
            // the server handle is dropped instead of closed, with waiters alive
            add(&mut scenarios, "s", Scn { inflight: vec![(rel, Client::Stays, false)], by_drop: true, ..base(m) });
            add(&mut scenarios, "s", Scn { inflight: vec![(rel, Client::Stays, false), (Release::After, Client::Leaves(How::Rst), false)], by_drop: true, idle_keepalive: 1, waiters: [2, 1, 1], ..base(m) });
            // a large response to a slow reader, still being written when shutdown is requested
            add(&mut scenarios, "s", Scn { inflight: vec![(rel, Client::Stays, false)], big: 6 << 20, ..base(m) });
            add(&mut scenarios, "s", Scn { inflight: vec![(rel, Client::Stays, false), (Release::After, Client::Stays, false), (rel, Client::Leaves(How::Rst), false)], big: 3 << 20, idle_keepalive: 1, ..base(m) });
            for h in How::ALL {
                add(&mut scenarios, "s", Scn { inflight: vec![(rel, Client::Leaves(h), false)], ..base(m) });
                // the handler drops its RequestContext early; close() is requested only
                // after the server has noticed that the client is gone
                add(&mut scenarios, "s", Scn { inflight: vec![(rel, Client::Leaves(h), true)], wait_noticed: true, ..base(m) });
                add(&mut scenarios, "s", Scn { inflight: vec![(rel, Client::Leaves(h), false)], wait_noticed: true, ..base(m) });
            }
            add(
                &mut scenarios,
                "s",
                Scn {
                    inflight: vec![(rel, Client::Stays, false), (rel, Client::Leaves(How::Rst), false), (Release::After, Client::Stays, true), (Release::After, Client::Leaves(How::Fin), true), (Release::After, Client::Leaves(How::Close), false)],
                    wait_noticed: true,
                    idle_keepalive: 1,
                    waiters: [1, 2, 1],
                    ..base(m)
                },
            );
        }
    }
    // 2. random
    let n_random = if is_thorough() { 6000 } else { 600 };
    for i in 0..n_random {
        let m = modes[i % 2];
        let n_inf = match i % 5 {
            0 => rng.range(8, 16),
            1 => 0,
            _ => rng.range(1, 6),
        } as usize;
        let inflight = (0..n_inf)
            .map(|_| {
                let rel = *rng.pick(&[Release::BeforeDone, Release::Before, Release::After, Release::After]);
                let cl = if rng.chance(1, 2) { Client::Stays } else { Client::Leaves(*rng.pick(&How::ALL)) };
                (rel, cl, rng.chance(1, 3))
            })
            .collect();
        add(
            &mut scenarios,
            "r",
            Scn {
                mode: m,
                inflight,
                wait_noticed: rng.chance(1, 2),
                idle_keepalive: rng.below(4) as usize,
                idle_fresh: rng.below(3) as usize,
                half_sent: false,
                waiters: [rng.below(4) as usize, rng.below(4) as usize, rng.below(4) as usize],
                big: if i % 10 == 3 { (1 + rng.below(6) as usize) << 20 } else { 0 },
                pipe: i % 10 == 7,
                by_drop: i % 6 == 5,
                slow_ms: 0,
            },
        );
    }
    // 3. half-sent request (incomplete head, client stays connected and silent):
    //    close() is bounded by hyper's 30 s header-read timeout.  One scenario per
    //    mode, each on its own thread concurrently with everything else, so the
    //    run costs max(~31 s, rest).
    let mut half_threads = Vec::new();
    for (i, &m) in modes.iter().enumerate() {
        let rt = rt.clone();
        let sc = Scn { half_sent: true, inflight: vec![(Release::After, Client::Stays, false)], ..base(m) };
        half_threads.push(std::thread::spawn(move || run_scenario(&rt, &format!("half{}", i + 1), &sc)));
    }

    // 4. a handler that goes on for 13 s after shutdown was requested (client connected): one
    //    scenario per mode, concurrently with everything else like the half-sent ones
    for (i, &m) in modes.iter().enumerate() {
        let rt = rt.clone();
        let sc = Scn { slow_ms: 13_000, inflight: vec![(Release::After, Client::Stays, false), (Release::Before, Client::Stays, false)], idle_keepalive: 1, ..base(m) };
        half_threads.push(std::thread::spawn(move || run_scenario(&rt, &format!("slow{}", i + 1), &sc)));
    }

    let total = scenarios.len();
    let scenarios = Arc::new(scenarios);
    let next = Arc::new(AtomicUsize::new(0));
    let results: Arc<Mutex<Vec<Option<String>>>> = Arc::new(Mutex::new(vec![None; total]));
    let mut ws = Vec::new();
    for _ in 0..10 {
        let (scenarios, next, results, rt) = (scenarios.clone(), next.clone(), results.clone(), rt.clone());
        ws.push(std::thread::spawn(move || loop {
            let i = next.fetch_add(1, Ordering::SeqCst);
            if i >= scenarios.len() {
                break;
            }
            let (id, sc) = &scenarios[i];
            let line = run_scenario(&rt, id, sc);
            results.lock().unwrap()[i] = Some(line);
        }));
    }
    for w in ws {
        w.join().unwrap();
    }
    let mut out = std::io::BufWriter::new(std::io::stdout());
    for l in results.lock().unwrap().iter() {
        writeln!(out, "{}", l.as_ref().expect("scenario ran")).unwrap();
    }
    // HTTPS servers, one scenario at a time after everything else (their port check cannot
    // be confused by, or confuse, a plain server that was given the same port meanwhile)
    {
        let kit = tls_kit();
        let mut tk = 0;
        for &m in &modes {
            for (b, a, idle) in [(0usize, 0usize, 0usize), (1, 0, 1), (0, 1, 0), (0, 3, 2), (2, 2, 1)] {
                tk += 1;
                writeln!(out, "{}", run_tls_scenario(&rt, &format!("t{}", tk), m, &kit, b, a, idle)).unwrap();
            }
        }
        if is_thorough() {
            for i in 0..40 {
                tk += 1;
                let (b, a, idle) = (rng.below(4) as usize, rng.below(5) as usize, rng.below(3) as usize);
                writeln!(out, "{}", run_tls_scenario(&rt, &format!("t{}", tk), modes[i % 2], &kit, b, a, idle)).unwrap();
            }
        }
    }
    for t in half_threads {
        writeln!(out, "{}", t.join().expect("half-sent scenario ran")).unwrap();
    }
    out.flush().unwrap();
}
