//! C06 `refs` stream: every `$ref` in a generated document must resolve inside
//! it.  A fixed family of real `#[endpoint]`s whose parameter, header, body,
//! response and error types exercise the reference bookkeeping of
//! `gen_openapi` (generator definitions, `Static` dependencies collected by
//! `ReferenceVisitor`, error responses): nested and recursive named types,
//! bare-alias newtypes and alias chains, documented newtypes (allOf), named
//! enums in path/query/header position, same-named types from two modules.
//! Line: `refs <id> <version> <order> => <operations> <refs> <unresolved> <schemas> <hex list of unresolved>`

use dropshot::{
    endpoint, ApiDescription, HttpError, HttpResponseCreated, HttpResponseHeaders, HttpResponseOk, Path, Query,
    RequestContext, TypedBody,
};
use dsharness::table::{collect_refs, ref_resolves};
use dsharness::util::*;
use schemars::JsonSchema;
use serde::{Deserialize, Serialize};
use std::collections::BTreeMap;

#[derive(Serialize, Deserialize, JsonSchema, Clone)]
pub enum SortOrder {
    Asc,
    Desc,
}
#[derive(Serialize, Deserialize, JsonSchema, Clone)]
pub enum Freshness {
    Fresh,
    Stale,
}
#[derive(Serialize, Deserialize, JsonSchema, Clone)]
pub struct Inner {
    a: u32,
    order: SortOrder,
}
#[derive(Serialize, Deserialize, JsonSchema, Clone)]
pub struct Outer {
    inner: Inner,
    list: Vec<Inner>,
    opt: Option<Inner>,
    map: BTreeMap<String, Inner>,
}
#[derive(Serialize, Deserialize, JsonSchema, Clone)]
pub struct Tree {
    children: Vec<Tree>,
    leaf: Option<Box<Tree>>,
    tag: Freshness,
}
// bare alias (no doc comment => the definition is just a $ref)
#[derive(Serialize, Deserialize, JsonSchema, Clone)]
pub struct OrderAlias(SortOrder);
#[derive(Serialize, Deserialize, JsonSchema, Clone)]
pub struct OrderAliasAlias(OrderAlias);
#[derive(Serialize, Deserialize, JsonSchema, Clone)]
pub struct CachePolicy {
    max_age: u32,
    fresh: Freshness,
}
#[derive(Serialize, Deserialize, JsonSchema, Clone)]
pub struct CachePolicyHeader(CachePolicy);
/// A documented newtype (schemars emits allOf + description).
#[derive(Serialize, Deserialize, JsonSchema, Clone)]
pub struct DocOrder(SortOrder);

pub mod a {
    #[derive(serde::Serialize, serde::Deserialize, schemars::JsonSchema, Clone)]
    pub struct Dup {
        pub x: u8,
    }
}
pub mod b {
    #[derive(serde::Serialize, serde::Deserialize, schemars::JsonSchema, Clone)]
    pub struct Dup {
        pub y: String,
        pub inner: super::Inner,
    }
}

#[derive(Serialize, Deserialize, JsonSchema)]
pub struct HdrsAlias {
    x_policy: CachePolicyHeader,
}
#[derive(Serialize, Deserialize, JsonSchema)]
pub struct HdrsChain {
    x_order: OrderAliasAlias,
    x_plain: String,
}
#[derive(Serialize, Deserialize, JsonSchema)]
pub struct HdrsDoc {
    x_doc: DocOrder,
    x_enum: Freshness,
}
#[derive(Deserialize, JsonSchema)]
pub struct QEnum {
    order: SortOrder,
    doc: Option<DocOrder>,
}
#[derive(Deserialize, JsonSchema)]
pub struct PEnum {
    fresh: Freshness,
}

#[derive(Debug, Serialize, JsonSchema)]
pub struct MyError {
    detail: Inner2,
}
#[derive(Debug, Serialize, JsonSchema)]
pub struct Inner2 {
    why: String,
}
impl dropshot::HttpResponseError for MyError {
    fn status_code(&self) -> dropshot::ErrorStatusCode {
        dropshot::ErrorStatusCode::IM_A_TEAPOT
    }
}
impl From<HttpError> for MyError {
    fn from(e: HttpError) -> Self {
        MyError { detail: Inner2 { why: e.external_message } }
    }
}
impl std::fmt::Display for MyError {
    fn fmt(&self, f: &mut std::fmt::Formatter<'_>) -> std::fmt::Result {
        write!(f, "my error")
    }
}

/// A second error type whose response name collides with dropshot's own `Error`
/// (and a third colliding with it): the shared `components.responses` names
/// (`Error`, `Error2`, …) must not depend on the registration order.
pub mod storage {
    use super::*;
    #[derive(Debug, Serialize, JsonSchema)]
    pub struct Error {
        pub disk: String,
    }
    impl dropshot::HttpResponseError for Error {
        fn status_code(&self) -> dropshot::ErrorStatusCode {
            dropshot::ErrorStatusCode::CONFLICT
        }
    }
    impl From<HttpError> for Error {
        fn from(e: HttpError) -> Self {
            Error { disk: e.external_message }
        }
    }
    impl std::fmt::Display for Error {
        fn fmt(&self, f: &mut std::fmt::Formatter<'_>) -> std::fmt::Result {
            write!(f, "storage error")
        }
    }
}
pub mod net {
    use super::*;
    #[derive(Debug, Serialize, JsonSchema)]
    pub struct Error {
        pub port: u16,
    }
    impl dropshot::HttpResponseError for Error {
        fn status_code(&self) -> dropshot::ErrorStatusCode {
            dropshot::ErrorStatusCode::BAD_GATEWAY
        }
    }
    impl From<HttpError> for Error {
        fn from(e: HttpError) -> Self {
            Error { port: e.status_code.as_u16() }
        }
    }
    impl std::fmt::Display for Error {
        fn fmt(&self, f: &mut std::fmt::Formatter<'_>) -> std::fmt::Result {
            write!(f, "net error")
        }
    }
}

macro_rules! unimpl {
    () => {
        Err(HttpError::for_internal_error("not served".to_string()).into())
    };
}

#[endpoint { method = GET, path = "/outer", tags = ["disks"] }]
async fn e_outer(_: RequestContext<()>) -> Result<HttpResponseOk<Outer>, HttpError> {
    unimpl!()
}
#[endpoint { method = GET, path = "/tree", versions = "2.0.0".., tags = ["Disks", "vpc"] }]
async fn e_tree(_: RequestContext<()>) -> Result<HttpResponseOk<Tree>, HttpError> {
    unimpl!()
}
#[endpoint { method = PUT, path = "/tree", versions = .."2.0.0" }]
async fn e_tree_put(_: RequestContext<()>, _b: TypedBody<Tree>) -> Result<HttpResponseCreated<Vec<Tree>>, HttpError> {
    unimpl!()
}
#[endpoint { method = GET, path = "/hdr/alias", versions = "1.0.0".."3.0.0", tags = ["VPC"] }]
async fn e_hdr_alias(_: RequestContext<()>) -> Result<HttpResponseHeaders<HttpResponseOk<u32>, HdrsAlias>, HttpError> {
    unimpl!()
}
#[endpoint { method = GET, path = "/hdr/chain", tags = ["vpc", "images"] }]
async fn e_hdr_chain(_: RequestContext<()>) -> Result<HttpResponseHeaders<HttpResponseOk<String>, HdrsChain>, HttpError> {
    unimpl!()
}
#[endpoint { method = GET, path = "/hdr/doc", versions = "3.0.0".. }]
async fn e_hdr_doc(_: RequestContext<()>) -> Result<HttpResponseHeaders<HttpResponseOk<a::Dup>, HdrsDoc>, HttpError> {
    unimpl!()
}
#[endpoint { method = GET, path = "/q/{fresh}", tags = ["Images"] }]
async fn e_params(
    _: RequestContext<()>,
    _p: Path<PEnum>,
    _q: Query<QEnum>,
) -> Result<HttpResponseOk<b::Dup>, HttpError> {
    unimpl!()
}
#[endpoint { method = POST, path = "/dup", versions = .."3.0.0" }]
async fn e_dup(_: RequestContext<()>, _b: TypedBody<a::Dup>) -> Result<HttpResponseOk<b::Dup>, HttpError> {
    unimpl!()
}
#[endpoint { method = GET, path = "/err", tags = ["disks", "DISKS"] }]
async fn e_err(_: RequestContext<()>) -> Result<HttpResponseOk<OrderAliasAlias>, MyError> {
    Err(MyError { detail: Inner2 { why: "x".into() } })
}
#[endpoint { method = GET, path = "/err2", versions = "2.0.0".. }]
async fn e_err2(_: RequestContext<()>) -> Result<HttpResponseOk<Option<CachePolicyHeader>>, MyError> {
    Err(MyError { detail: Inner2 { why: "x".into() } })
}
#[endpoint { method = GET, path = "/hidden", unpublished = true }]
async fn e_hidden(_: RequestContext<()>) -> Result<HttpResponseOk<DocOrder>, HttpError> {
    unimpl!()
}

#[endpoint { method = GET, path = "/a/disks" }]
async fn e_serr(_: RequestContext<()>) -> Result<HttpResponseOk<DocOrder>, storage::Error> {
    Err(storage::Error { disk: "d".into() })
}
#[endpoint { method = GET, path = "/zz/ports", versions = .."3.0.0" }]
async fn e_nerr(_: RequestContext<()>) -> Result<HttpResponseOk<DocOrder>, net::Error> {
    Err(net::Error { port: 1 })
}

// several methods on ONE path whose types collide by name (`Error` from two modules, `Dup`
// from two modules) or reach the document only through parameters: which of them is met
// first while the document is assembled must not depend on the registration order
#[endpoint { method = PUT, path = "/a/disks" }]
async fn e_serr_put(_: RequestContext<()>, _b: TypedBody<a::Dup>) -> Result<HttpResponseOk<DocOrder>, net::Error> {
    Err(net::Error { port: 2 })
}
#[endpoint { method = DELETE, path = "/a/disks" }]
async fn e_serr_delete(_: RequestContext<()>, _q: Query<QEnum>) -> Result<HttpResponseOk<b::Dup>, MyError> {
    Err(MyError { detail: Inner2 { why: "x".into() } })
}
#[endpoint { method = GET, path = "/dup" }]
async fn e_dup_get(_: RequestContext<()>) -> Result<HttpResponseOk<b::Dup>, storage::Error> {
    Err(storage::Error { disk: "d".into() })
}

const FAMILY: usize = 16;

fn build(order: &[usize]) -> ApiDescription<()> {
    let mut api = ApiDescription::new();
    for i in order {
        match i {
            0 => api.register(e_outer).unwrap(),
            1 => api.register(e_tree).unwrap(),
            2 => api.register(e_tree_put).unwrap(),
            3 => api.register(e_hdr_alias).unwrap(),
            4 => api.register(e_hdr_chain).unwrap(),
            5 => api.register(e_hdr_doc).unwrap(),
            6 => api.register(e_params).unwrap(),
            7 => api.register(e_dup).unwrap(),
            8 => api.register(e_err).unwrap(),
            9 => api.register(e_err2).unwrap(),
            11 => api.register(e_serr).unwrap(),
            12 => api.register(e_nerr).unwrap(),
            13 => api.register(e_serr_put).unwrap(),
            14 => api.register(e_serr_delete).unwrap(),
            15 => api.register(e_dup_get).unwrap(),
            _ => api.register(e_hidden).unwrap(),
        }
    }
    api
}

fn main() {
    quiet_panics();
    let mut out = Out::new();
    let mut rng = Rng::from_env(61);
    let mut id = 0u64;
    let n_orders = if is_thorough() { 200 } else { 25 };
    for o in 0..n_orders {
        // subsets and orders of the family
        let mut order: Vec<usize> = (0..FAMILY).filter(|_| o == 0 || rng.chance(3, 4)).collect();
        for i in (1..order.len()).rev() {
            let j = rng.below(i as u64 + 1) as usize;
            order.swap(i, j);
        }
        let api = build(&order);
        // the same endpoints registered in another order must give the same bytes
        let mut order2 = order.clone();
        for i in (1..order2.len()).rev() {
            let j = rng.below(i as u64 + 1) as usize;
            order2.swap(i, j);
        }
        let api2 = build(&order2);
        for v in ["0.5.0", "1.0.0", "2.0.0", "2.5.0", "3.0.0", "9.0.0"] {
            let mut bytes = vec![];
            api.openapi("t", semver::Version::parse(v).unwrap()).write(&mut bytes).unwrap();
            let mut same_twice = true;
            for _ in 0..3 {
                let mut again = vec![];
                api.openapi("t", semver::Version::parse(v).unwrap()).write(&mut again).unwrap();
                same_twice &= again == bytes;
            }
            let mut other = vec![];
            api2.openapi("t", semver::Version::parse(v).unwrap()).write(&mut other).unwrap();
            let same_perm = other == bytes;
            let json: serde_json::Value = serde_json::from_slice(&bytes).unwrap();
            let mut refs = vec![];
            collect_refs(&json, &mut refs);
            let unresolved: Vec<String> = refs.iter().filter(|r| !ref_resolves(&json, r)).cloned().collect();
            let nops = json["paths"].as_object().map(|p| p.values().map(|i| i.as_object().map(|m| m.len()).unwrap_or(0)).sum::<usize>()).unwrap_or(0);
            let nschemas = json["components"]["schemas"].as_object().map(|m| m.len()).unwrap_or(0);
            id += 1;
            let ord: Vec<String> = order.iter().map(|i| i.to_string()).collect();
            out.line(&format!(
                "refs {} {} {} => {} {} {} {} {} {} {}",
                id,
                v,
                if ord.is_empty() { "-".to_string() } else { ord.join(",") },
                nops,
                refs.len(),
                unresolved.len(),
                nschemas,
                hex(unresolved.join(",").as_bytes()),
                same_twice as u8,
                same_perm as u8
            ));
        }
    }
    out.flush();
}
