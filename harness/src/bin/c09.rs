//! C09 correspondence harness: handlers receive exactly what the client sent.
//!
//! Function-level streams (real code through `dropshot::verif_hooks` and the
//! crates dropshot calls):
//!   fm  from_map::<Shape, VariableValue>      (hook `from_map_vars`)
//!   fs  from_map::<Shape, String>             (hook `from_map_strings`)
//!   px  http_extract_path_params::<Shape>     (status of the HttpError)
//!   qs  serde_urlencoded::from_str::<Shape>   (what `Query<T>` calls)
//!   pq  serde_urlencoded::from_str::<Vec<(String, String)>>  (= form_urlencoded::parse)
//!   mb  multer::parse_boundary
//! Server-level streams (real `HttpServer`, raw TCP clients), all in the `sv`
//! line format of `extract_common.rs`:
//!   sv  one request per connection, every extractor, every framing
//!   pl  the same requests pipelined on one connection
//!   cc  concurrency: 1–64 connections × pipelining depth 1–8, a nonce in the
//!       path, the query, a header and the body of every request
//!   ct  total handler entries vs. number of requests answered 200
//!   tl  HTTPS server (`ServerBuilder::tls`), raw TCP + rustls clients that
//!       connect in a known order and finish their handshakes in another:
//!       some stall before their ClientHello or in mid-handshake while later
//!       connections complete first (explicit sequencing, no sleeps); plus
//!       sequential connections, keep-alive reuse and simultaneous threads.
//!       The handler reports `rqctx.request.remote_addr()` with its nonce.

#[path = "../extract_common.rs"]
mod common;

use common::*;
use dropshot::verif_hooks as hooks;
use dsharness::server::*;
use dsharness::util::*;
use serde::de::DeserializeOwned;
use serde::Serialize;
use std::collections::BTreeMap;

// ------------------------------------------------------------ scalar strings

const U_LIMITS: &[&str] = &[
    "0", "1", "127", "128", "255", "256", "32767", "32768", "65535", "65536", "2147483647", "2147483648",
    "4294967295", "4294967296", "9223372036854775807", "9223372036854775808", "18446744073709551615",
    "18446744073709551616", "99999999999999999999999999", "340282366920938463463374607431768211456",
];

fn gen_int_string(rng: &mut Rng) -> String {
    let base = match rng.below(10) {
        0..=4 => rng.pick_s(U_LIMITS).to_string(),
        5 => rng.below(300).to_string(),
        6 => rng.next().to_string(),
        7 => (rng.next() as u128 * rng.below(4) as u128 + rng.below(3) as u128).to_string(),
        8 => {
            // one off a limit
            let l: u128 = rng.pick_s(&U_LIMITS[..18]).parse().unwrap();
            if rng.chance(1, 2) { (l + 1).to_string() } else { l.saturating_sub(1).to_string() }
        }
        _ => String::new(),
    };
    let mut s = base;
    match rng.below(16) {
        0 | 1 | 2 => s.insert(0, '-'),
        3 => s.insert(0, '+'),
        4 => s.insert_str(0, "00"),
        5 => s.insert_str(0, "-0"),
        6 => s.insert(0, ' '),
        7 => s.push(' '),
        8 => s.insert_str(0, "0x"),
        9 => s.push_str(".0"),
        10 => s.push_str("e0"),
        11 => s.insert_str(0, "+-"),
        12 => {
            s = s.replace('1', "١").replace('3', "٣");
        }
        13 => s.push('_'),
        _ => {}
    }
    s
}

fn gen_scalar_string(rng: &mut Rng) -> String {
    match rng.below(12) {
        0..=5 => gen_int_string(rng),
        6 => rng.pick_s(&["true", "false", "True", "FALSE", "1", "0", "yes", "t", "", " true", "true "]).to_string(),
        7 => rng.pick_s(&["Red", "Green", "dark-blue", "DarkBlue", "red", "Blue", "", "Red ", "dark_blue"]).to_string(),
        8 => rng.pick_s(&["a", "é", "😀", "\u{0}", "ab", "", " ", "e\u{301}", "\u{10ffff}", "\u{fffd}"]).to_string(),
        _ => gen_text(rng, 0, 4),
    }
}

// ------------------------------------------------------------ from_map streams

#[derive(Clone)]
enum VV {
    S(String),
    C(Vec<String>),
}

fn entries_field(m: &BTreeMap<String, VV>) -> String {
    if m.is_empty() {
        return "_".into();
    }
    m.iter()
        .map(|(k, v)| match v {
            VV::S(s) => format!("{}=S{}", hex(k.as_bytes()), hex(s.as_bytes())),
            VV::C(c) => {
                let mut t = format!("{}=C{}", hex(k.as_bytes()), c.len());
                for x in c {
                    t.push('/');
                    t.push_str(&hex(x.as_bytes()));
                }
                t
            }
        })
        .collect::<Vec<_>>()
        .join(",")
}

fn res_field<T: Serialize>(r: Result<T, String>) -> String {
    match r {
        Ok(v) => format!("ok {}", canon_of(&v)),
        Err(m) => format!("err {}", classify(&m)),
    }
}

fn run_vars<T: DeserializeOwned + Serialize>(m: &BTreeMap<String, VV>) -> (String, String) {
    let real: BTreeMap<String, hooks::VariableValue> = m
        .iter()
        .map(|(k, v)| {
            (
                k.clone(),
                match v {
                    VV::S(s) => hooks::VariableValue::String(s.clone()),
                    VV::C(c) => hooks::VariableValue::Components(c.clone()),
                },
            )
        })
        .collect();
    let a = res_field(hooks::from_map_vars::<T>(&real));
    let b = match hooks::http_extract_path_params::<T>(&real) {
        Ok(v) => format!("ok {}", canon_of(&v)),
        Err(e) => format!("err {}", e.status_code.as_u16()),
    };
    (a, b)
}

fn run_strings<T: DeserializeOwned + Serialize>(m: &BTreeMap<String, VV>) -> String {
    let real: BTreeMap<String, String> = m
        .iter()
        .map(|(k, v)| {
            (
                k.clone(),
                match v {
                    VV::S(s) => s.clone(),
                    VV::C(_) => unreachable!(),
                },
            )
        })
        .collect();
    res_field(hooks::from_map_strings::<T>(&real))
}

fn run_query<T: DeserializeOwned + Serialize>(q: &str) -> String {
    res_field(serde_urlencoded::from_str::<T>(q).map_err(|e| e.to_string()))
}

macro_rules! by_shape {
    ($shape:expr, $f:ident, $arg:expr) => {
        match $shape {
            0 => $f::<U4>($arg),
            1 => $f::<I4>($arg),
            2 => $f::<T3>($arg),
            3 => $f::<O3>($arg),
            4 => $f::<E1>($arg),
            5 => $f::<W1>($arg),
            6 => $f::<R2>($arg),
            7 => $f::<M2>($arg),
            8 => $f::<OE3>($arg),
            9 => $f::<S1>($arg),
            10 => $f::<N1>($arg),
            11 => $f::<V1>($arg),
            12 => $f::<P3>($arg),
            13 => $f::<Q6>($arg),
            15 => $f::<F3>($arg),
            22 => $f::<FL>($arg),
            23 => $f::<FN>($arg),
            _ => unreachable!(),
        }
    };
}

/// (serde name, kind) of every field; kind: 'i' integer, 'b' bool, 'c' char,
/// 's' string, 'e' enum, 'v' sequence, 'n' nested; upper case = optional.
fn shape_fields(shape: u32) -> &'static [(&'static str, char)] {
    match shape {
        0 | 1 => &[("a", 'i'), ("b", 'i'), ("c", 'i'), ("d", 'i')],
        2 => &[("s", 's'), ("b", 'b'), ("c", 'c')],
        3 => &[("o", 'I'), ("p", 'S'), ("q", 'B')],
        4 => &[("e", 'e')],
        5 => &[("path", 'v')],
        6 => &[("type", 's'), ("x-y", 'i')],
        7 => &[("id", 'i'), ("rest", 'v')],
        8 => &[("oe", 'E'), ("oi", 'I'), ("name", 's')],
        9 => &[("s", 's')],
        10 => &[("n", 'n')],
        11 => &[("v", 'v')],
        12 => &[("id", 'i'), ("name", 's'), ("flag", 'b')],
        13 => &[("n", 'i'), ("s", 's'), ("b", 'B'), ("e", 'E'), ("i", 'I'), ("c", 'C')],
        15 => &[("id", 'i'), ("name", 's'), ("flag", 'B')],
        22 => &[("id", 'i'), ("name", 't'), ("tag", 'T'), ("kind", 'e'), ("c", 'c')],
        23 => &[("s", 't'), ("n", 'i'), ("f", 'B')],
        _ => unreachable!(),
    }
}

/// Bit width and signedness of an integer field.
fn int_type(shape: u32, name: &str) -> (u32, bool) {
    match (shape, name) {
        (0, "a") => (8, false),
        (0, "b") => (16, false),
        (0, "c") => (32, false),
        (0, "d") => (64, false),
        (1, "a") => (8, true),
        (1, "b") => (16, true),
        (1, "c") => (32, true),
        (1, "d") => (64, true),
        (3, "o") => (32, false),
        (6, "x-y") => (32, true),
        (7, "id") => (32, false),
        (8, "oi") => (64, true),
        (12, "id") => (64, true),
        (13, "n") => (64, false),
        (13, "i") => (8, true),
        (15, "id") => (32, false),
        (22, "id") => (32, false),
        (23, "n") => (16, false),
        _ => (8, false),
    }
}

/// An in-range spelling for the integer type, biased to the extremes.
fn gen_int_in_range(rng: &mut Rng, bits: u32, signed: bool) -> String {
    let (lo, hi): (i128, i128) = if signed {
        (-(1i128 << (bits - 1)), (1i128 << (bits - 1)) - 1)
    } else {
        (0, (1i128 << bits) - 1)
    };
    let v = match rng.below(8) {
        0 => lo,
        1 => hi,
        2 => lo + 1,
        3 => hi - 1,
        4 => 0,
        5 => if signed { -1 } else { 1 },
        _ => lo + (rng.next() as i128).rem_euclid(hi - lo + 1),
    };
    let mut s = v.to_string();
    match rng.below(10) {
        0 if v >= 0 => s.insert(0, '+'),
        1 => {
            let digits = s.trim_start_matches('-').to_string();
            s = format!("{}00{}", if v < 0 { "-" } else { "" }, digits);
        }
        _ => {}
    }
    s
}

fn gen_value_for(rng: &mut Rng, shape: u32, name: &str, kind: char, careful: bool) -> String {
    // mostly of the right kind, so that whole structs succeed often
    if rng.chance(1, if careful { 40 } else { 5 }) {
        return gen_scalar_string(rng);
    }
    match kind.to_ascii_lowercase() {
        'i' => {
            if careful || rng.chance(1, 2) {
                let (bits, signed) = int_type(shape, name);
                gen_int_in_range(rng, bits, signed)
            } else {
                gen_int_string(rng)
            }
        }
        'b' => rng.pick_s(&["true", "false"]).to_string(),
        'c' => rng.pick_s(&["a", "é", "😀", "\u{0}", "%", "/"]).to_string(),
        'e' => rng.pick_s(COLORS).to_string(),
        // a string that often looks like a number, a float or a boolean
        't' => match rng.below(6) {
            0 => gen_int_string(rng),
            1 => rng.pick_s(&["7", "007", "-1", "3.14", "1e5", "inf", "nan", "NaN", "true", "false", "0", "+5", "1_000", "0x10", "18446744073709551616", "-9223372036854775809", ".5", "5.", "infinity", "-inf", "1e400"]).to_string(),
            _ => gen_text(rng, 0, 3),
        },
        _ => gen_text(rng, 0, 3),
    }
}

fn gen_entries(rng: &mut Rng, shape: u32, allow_comps: bool) -> BTreeMap<String, VV> {
    let mut m = BTreeMap::new();
    let careful = rng.chance(1, 2);
    for (name, kind) in shape_fields(shape) {
        let optional = kind.is_ascii_uppercase();
        if rng.chance(if optional { 2 } else { 1 }, if optional { 5 } else if careful { 60 } else { 12 }) {
            continue; // dropped
        }
        let as_seq = allow_comps && ((*kind == 'v') != rng.chance(1, if careful { 60 } else { 12 }));
        let v = if as_seq {
            let n = rng.range(0, 3);
            VV::C((0..n).map(|_| if *kind == 'v' && rng.chance(2, 3) { gen_text(rng, 0, 3) } else { gen_scalar_string(rng) }).collect())
        } else {
            VV::S(gen_value_for(rng, shape, name, *kind, careful))
        };
        m.insert(name.to_string(), v);
    }
    if rng.chance(1, 8) {
        // an unknown key
        let k = rng.pick_s(&["zz", "A", "", "id2", "é"]).to_string();
        let v = if allow_comps && rng.chance(1, 3) { VV::C(vec!["x".into()]) } else { VV::S(gen_scalar_string(rng)) };
        m.insert(k, v);
    }
    m
}

fn fm_streams(out: &mut Out, rng: &mut Rng, id: &mut u64, n: usize) {
    const SHAPES: &[u32] = &[0, 1, 2, 3, 4, 5, 6, 7, 8, 9, 10, 11, 12, 0, 1, 0, 1, 22, 22, 23];
    for _ in 0..n {
        let shape = *rng.pick(SHAPES);
        let m = gen_entries(rng, shape, true);
        let (a, b) = by_shape!(shape, run_vars, &m);
        *id += 1;
        out.line(&format!("fm {} {} {} => {}", id, shape, entries_field(&m), a));
        *id += 1;
        out.line(&format!("px {} {} {} => {}", id, shape, entries_field(&m), b));
        let m2 = gen_entries(rng, shape, false);
        let c = by_shape!(shape, run_strings, &m2);
        *id += 1;
        out.line(&format!("fs {} {} {} => {}", id, shape, entries_field(&m2), c));
    }
}

// ------------------------------------------------------------ query streams

fn gen_query_string(rng: &mut Rng, shape: u32) -> String {
    let mut parts: Vec<Vec<u8>> = Vec::new();
    let careful = rng.chance(1, 2);
    for (name, kind) in shape_fields(shape) {
        let optional = kind.is_ascii_uppercase();
        if rng.chance(if optional { 2 } else { 1 }, if optional { 5 } else if careful { 60 } else { 14 }) {
            continue;
        }
        let reps = if rng.chance(1, if careful { 60 } else { 20 }) { 2 } else { 1 };
        for _ in 0..reps {
            let val = gen_value_for(rng, shape, name, *kind, careful);
            let mut p = enc_component(rng, name.as_bytes(), QUERY_KEY_LAX, true);
            if !(val.is_empty() && rng.chance(1, 3)) {
                p.push(b'=');
                p.extend_from_slice(&enc_component(rng, val.as_bytes(), QUERY_VAL_LAX, true));
            }
            parts.push(p);
        }
    }
    if rng.chance(1, 6) {
        let k = rng.pick_s(&["zz", "A", "", "n2", "%", "a=b"]).to_string();
        let reps = rng.range(1, 2);
        for _ in 0..reps {
            let mut p = enc_component(rng, k.as_bytes(), b"", true);
            p.push(b'=');
            let sv = gen_scalar_string(rng);
            p.extend_from_slice(&enc_component(rng, sv.as_bytes(), QUERY_VAL_LAX, true));
            parts.push(p);
        }
    }
    if rng.chance(1, 10) {
        parts.push(vec![]); // "&&"
    }
    if rng.chance(1, 12) {
        // undecodable percent escapes and bytes that are not UTF-8 once decoded
        parts.push(rng.pick_s(&["s=%FF", "s=%E2%82", "x=%", "x=%4", "x=%zz", "s=%C3%28", "%FF=1", "s=%F0%9F%98"]).as_bytes().to_vec());
    }
    // order matters for "first error wins": shuffle a little
    if parts.len() > 1 && rng.chance(1, 3) {
        let i = rng.below(parts.len() as u64) as usize;
        let j = rng.below(parts.len() as u64) as usize;
        parts.swap(i, j);
    }
    let joined: Vec<u8> = parts.join(&b'&');
    String::from_utf8(joined).expect("ascii")
}

fn qs_streams(out: &mut Out, rng: &mut Rng, id: &mut u64, n: usize) {
    const SHAPES: &[u32] = &[0, 1, 2, 3, 4, 6, 8, 9, 13, 13, 15, 5, 10];
    for _ in 0..n {
        let shape = *rng.pick(SHAPES);
        let q = gen_query_string(rng, shape);
        let r = by_shape!(shape, run_query, &q);
        *id += 1;
        out.line(&format!("qs {} {} {} => {}", id, shape, hex(q.as_bytes()), r));
        *id += 1;
        let pairs = serde_urlencoded::from_str::<Vec<(String, String)>>(&q).expect("pairs always parse");
        let mut f = format!("pq {} {} => {}", id, hex(q.as_bytes()), pairs.len());
        for (k, v) in pairs {
            f.push(' ');
            f.push_str(&hex(k.as_bytes()));
            f.push(' ');
            f.push_str(&hex(v.as_bytes()));
        }
        out.line(&f);
    }
}

// ------------------------------------------------------------ boundary stream

fn gen_near_ct(rng: &mut Rng) -> Vec<u8> {
    let b = gen_boundary(rng);
    let mut v = spell_multipart_ct(rng, &b);
    // zero to two edits
    const INS: &[u8] = b" ;=\"/+\tx,\\boundary";
    for _ in 0..rng.below(3) {
        if v.is_empty() {
            break;
        }
        let pos = rng.below(v.len() as u64) as usize;
        match rng.below(4) {
            0 => v.insert(pos, *rng.pick(INS)),
            1 => {
                v.remove(pos);
            }
            2 => v[pos] = *rng.pick(INS),
            _ => v.truncate(pos),
        }
    }
    if rng.chance(1, 20) {
        v = rng
            .pick_s(&[
                "", "multipart/form-data", "multipart/mixed; boundary=x", "text/plain", "*/*", "multipart/",
                "multipart/form-data+x; boundary=q", "multipart/+form-data; boundary=q", "multipart/form-data;",
                "multipart/form-data; boundary=", "multipart/form-data; boundary=\"\"", "multipart/form-data; boundary=\"\"\"",
                "multipart/form-data ; boundary=x", "multipart/form-data;\tboundary=x", "multipart/form-data; boundary=a; boundary=b",
                "multipart/form-data; charset=utf-8", "multipart/form-data; charset=utf-8; boundary=z",
                "multipart/form-data; charset=\"utf-8\"; boundary=z", "/form-data; boundary=x", "multipart; boundary=x",
            ])
            .as_bytes()
            .to_vec();
    }
    v.retain(|b| *b != b'\r' && *b != b'\n' && *b < 0x7f && (*b >= 0x20 || *b == b'\t'));
    v
}

fn mb_stream(out: &mut Out, rng: &mut Rng, id: &mut u64, n: usize) {
    for _ in 0..n {
        let ct = gen_near_ct(rng);
        let s = std::str::from_utf8(&ct).expect("ascii");
        let r = match multer::parse_boundary(s) {
            Ok(b) => format!("ok {}", hex(b.as_bytes())),
            Err(_) => "err".to_string(),
        };
        *id += 1;
        out.line(&format!("mb {} {} => {}", id, hex(&ct), r));
    }
}

// ------------------------------------------------------------ server-level

fn nonce(rng: &mut Rng) -> String {
    format!("n{:016x}", rng.next())
}

fn path_lax(rng: &mut Rng) -> &'static [u8] {
    if rng.chance(1, 2) { PATH_LAX } else { b"" }
}

/// A string that can be a path segment at all.
fn gen_segment(rng: &mut Rng) -> String {
    loop {
        let s = gen_text(rng, 1, 4);
        if !s.is_empty() && s != "." && s != ".." {
            return s;
        }
    }
}

fn gen_i64(rng: &mut Rng) -> i64 {
    match rng.below(6) {
        0 => i64::MIN,
        1 => i64::MAX,
        2 => 0,
        3 => -1,
        4 => rng.next() as i64,
        _ => rng.below(1000) as i64 - 500,
    }
}

fn gen_req(rng: &mut Rng) -> Req {
    let nonce = nonce(rng);
    match rng.below(11) {
        0 => {
            let v = P3 { id: gen_i64(rng), name: gen_segment(rng), flag: rng.chance(1, 2) };
            let mut t = b"/path/".to_vec();
            let lax = path_lax(rng);
            let ids = if v.id >= 0 && rng.chance(1, 6) { format!("+{}", v.id) } else { v.id.to_string() };
            t.extend_from_slice(&enc_component(rng, ids.as_bytes(), b"", false));
            t.push(b'/');
            t.extend_from_slice(&enc_component(rng, v.name.as_bytes(), lax, false));
            t.push(b'/');
            t.extend_from_slice(v.flag.to_string().as_bytes());
            if rng.chance(1, 5) {
                t.push(b'/'); // trailing slash: same route
            }
            if rng.chance(1, 5) {
                t.extend_from_slice(b"?unused=1");
            }
            Req { ep: "p3", method: "GET", target: t, ct: None, framing: Framing::None, payload: vec![], meta: String::new(), sent_canon: canon_of(&v), nonce }
        }
        1 => {
            let n = rng.range(0, 4);
            let v = M2 {
                id: *rng.pick(&[0u32, 1, u32::MAX, 65536, 7]),
                rest: (0..n).map(|_| gen_segment(rng)).collect(),
            };
            let mut t = format!("/wild/{}", v.id).into_bytes();
            let lax = path_lax(rng);
            for s in &v.rest {
                t.push(b'/');
                if rng.chance(1, 10) {
                    t.push(b'/'); // empty segments are dropped
                }
                t.extend_from_slice(&enc_component(rng, s.as_bytes(), lax, false));
            }
            if v.rest.is_empty() && rng.chance(1, 2) {
                t.push(b'/');
            }
            Req { ep: "wild", method: "GET", target: t, ct: None, framing: Framing::None, payload: vec![], meta: String::new(), sent_canon: canon_of(&v), nonce }
        }
        2 | 3 => {
            let v = Q6 {
                n: *rng.pick(&[0u64, 1, u64::MAX, 1 << 63, 42]),
                s: gen_text(rng, 0, 5),
                b: if rng.chance(1, 2) { Some(rng.chance(1, 2)) } else { None },
                e: match rng.below(4) {
                    0 => None,
                    1 => Some(Color::Red),
                    2 => Some(Color::Green),
                    _ => Some(Color::DarkBlue),
                },
                i: match rng.below(4) {
                    0 => None,
                    1 => Some(i8::MIN),
                    2 => Some(i8::MAX),
                    _ => Some(rng.below(256) as u8 as i8),
                },
                c: if rng.chance(1, 2) { Some(*rng.pick(&['a', 'é', '😀', '\u{0}', '&', '=', '+', '%', ' ', '#'])) } else { None },
            };
            let jv = serde_json::to_value(&v).unwrap();
            let mut parts: Vec<Vec<u8>> = Vec::new();
            for (k, val) in jv.as_object().unwrap() {
                let text = match val {
                    serde_json::Value::Null => continue,
                    serde_json::Value::String(s) => s.clone(),
                    other => other.to_string(),
                };
                let mut p = enc_component(rng, k.as_bytes(), b"", false);
                p.push(b'=');
                p.extend_from_slice(&enc_component(rng, text.as_bytes(), QUERY_VAL_LAX, true));
                parts.push(p);
            }
            if rng.chance(1, 4) {
                parts.push(b"unknown=x&unknown=y".to_vec());
            }
            // any order
            for i in (1..parts.len()).rev() {
                let j = rng.below(i as u64 + 1) as usize;
                parts.swap(i, j);
            }
            let mut t = b"/query?".to_vec();
            t.extend_from_slice(&parts.join(&b'&'));
            Req { ep: "q6", method: "GET", target: t, ct: None, framing: Framing::None, payload: vec![], meta: String::new(), sent_canon: canon_of(&v), nonce }
        }
        4 | 5 => {
            let n = rng.range(0, 3);
            let v = B6 {
                id: *rng.pick(&[0u32, u32::MAX, 1, 4096]),
                name: gen_text(rng, 0, 6),
                flag: rng.chance(1, 2),
                opt: match rng.below(4) {
                    0 => None,
                    1 => Some(i64::MIN),
                    2 => Some(i64::MAX),
                    _ => Some(gen_i64(rng)),
                },
                kind: match rng.below(3) {
                    0 => Color::Red,
                    1 => Color::Green,
                    _ => Color::DarkBlue,
                },
                tags: (0..n).map(|_| gen_text(rng, 0, 3)).collect(),
            };
            let payload = match rng.below(4) {
                0 => serde_json::to_vec_pretty(&v).unwrap(),
                1 => {
                    // non-ASCII as \u escapes (incl. surrogate pairs), unknown member, trailing whitespace
                    let s = serde_json::to_string(&v).unwrap();
                    let mut o = String::new();
                    for ch in s.chars() {
                        if (ch as u32) < 0x80 {
                            o.push(ch);
                        } else {
                            let mut buf = [0u16; 2];
                            for u in ch.encode_utf16(&mut buf) {
                                o.push_str(&format!("\\u{:04x}", u));
                            }
                        }
                    }
                    let o = o.replacen('{', "{\"zz\":[1,{\"a\":null}],", 1);
                    format!(" {}\r\n\t ", o).into_bytes()
                }
                _ => serde_json::to_vec(&v).unwrap(),
            };
            let ct = match rng.below(6) {
                0 => None,
                1 => Some(b"application/json".to_vec()),
                2 => Some(rand_case(rng, "application/json").into_bytes()),
                3 => Some(b"application/json; charset=utf-8".to_vec()),
                4 => Some(b"application/json \t;charset=\"utf-8\"; x=y".to_vec()),
                _ => Some(b"application/json".to_vec()),
            };
            let framing = gen_framing(rng, payload.len());
            Req { ep: "json", method: "POST", target: b"/json".to_vec(), ct, framing, payload, meta: String::new(), sent_canon: canon_of(&v), nonce }
        }
        6 => {
            let v = F3 {
                id: *rng.pick(&[0u32, u32::MAX, 9]),
                name: gen_text(rng, 0, 6),
                flag: if rng.chance(1, 2) { Some(rng.chance(1, 2)) } else { None },
            };
            let mut parts: Vec<Vec<u8>> = Vec::new();
            let mut p = b"id=".to_vec();
            p.extend_from_slice(v.id.to_string().as_bytes());
            parts.push(p);
            let mut p = b"name=".to_vec();
            p.extend_from_slice(&enc_component(rng, v.name.as_bytes(), b"!$'()*,;:@/?= \"<>{}|^`[]\\", true));
            parts.push(p);
            if let Some(f) = v.flag {
                parts.push(format!("flag={}", f).into_bytes());
            }
            if rng.chance(1, 2) {
                parts.reverse();
            }
            let payload = parts.join(&b'&');
            let ct = Some(if rng.chance(1, 2) {
                b"application/x-www-form-urlencoded".to_vec()
            } else {
                rand_case(rng, "application/x-www-form-urlencoded; charset=utf-8").into_bytes()
            });
            let framing = gen_framing(rng, payload.len());
            Req { ep: "form", method: "POST", target: b"/form".to_vec(), ct, framing, payload, meta: String::new(), sent_canon: canon_of(&v), nonce }
        }
        7 | 8 => {
            let ep = *rng.pick(&["raw", "stream", "rawreq"]);
            let n = *rng.pick(&[0usize, 1, 2, 3, 17, 64, 255, 1000]);
            let payload: Vec<u8> = match rng.below(3) {
                0 => (0..n).map(|_| rng.below(256) as u8).collect(),
                1 => gen_text(rng, 0, 12).into_bytes(),
                _ => b"0\r\n\r\n5\r\nhello\r\n--b\r\n%41+%zz".to_vec(),
            };
            let framing = gen_framing(rng, payload.len());
            let ct = match rng.below(3) {
                0 => None,
                1 => Some(b"application/octet-stream".to_vec()),
                _ => Some(b"text/plain; charset=utf-8".to_vec()),
            };
            let (method, target) = if ep == "rawreq" { ("POST", "/rawreq") } else if ep == "raw" { ("PUT", "/raw") } else { ("PUT", "/stream") };
            let sent = format!("s{}", hex(&payload));
            Req { ep, method, target: target.as_bytes().to_vec(), ct, framing, payload, meta: String::new(), sent_canon: sent, nonce }
        }
        _ => {
            let boundary = gen_boundary(rng);
            let nf = rng.range(0, 3);
            let mut fields = Vec::new();
            for i in 0..nf {
                let name = format!("f{}", i);
                let data: Vec<u8> = match rng.below(3) {
                    0 => gen_text(rng, 0, 6).into_bytes(),
                    1 => (0..rng.below(40)).map(|_| rng.below(256) as u8).collect(),
                    _ => b"--not-the-boundary\r\nline two".to_vec(),
                };
                // the data may not contain the delimiter
                let mut delim = b"\r\n--".to_vec();
                delim.extend_from_slice(&boundary);
                let data = if data.windows(delim.len()).any(|w| w == delim.as_slice()) { b"x".to_vec() } else { data };
                fields.push((name, data));
            }
            let payload = multipart_body(&boundary, &fields);
            let ct = Some(spell_multipart_ct(rng, &boundary));
            let framing = gen_framing(rng, payload.len());
            let sent = format!("[{}]", fields.iter().map(|(n, d)| mp_field_canon(n, d)).collect::<Vec<_>>().join(";"));
            Req { ep: "mp", method: "POST", target: b"/multipart".to_vec(), ct, framing, payload, meta: hex(&boundary), sent_canon: sent, nonce }
        }
    }
}

fn all_req(rng: &mut Rng, seq: u64) -> Req {
    let n = nonce(rng);
    let k = if rng.chance(1, 2) { Some(rng.below(1000) as u32) } else { None };
    let body = BN { nonce: n.clone(), seq };
    let payload = serde_json::to_vec(&body).unwrap();
    let mut t = format!("/all/{}?q={}", n, n).into_bytes();
    if let Some(k) = k {
        t.extend_from_slice(format!("&k={}", k).as_bytes());
    }
    let sent = format!(
        "{{{}:{},{}:{},{}:{}}}",
        hex(b"b"),
        canon_of(&body),
        hex(b"p"),
        canon_of(&PN { nonce: n.clone() }),
        hex(b"q"),
        canon_of(&QN { q: n.clone(), k })
    );
    let framing = if rng.chance(1, 3) { gen_framing(rng, payload.len()) } else { Framing::Cl };
    Req { ep: "all", method: "POST", target: t, ct: Some(b"application/json".to_vec()), framing, payload, meta: String::new(), sent_canon: sent, nonce: n }
}

fn emit(out: &mut Out, stream: &str, id: &mut u64, rq: &Req, a: Answer, delta: Option<usize>) -> bool {
    *id += 1;
    let mut g = digest(a.resp);
    let transient = mp_transient(rq, &mut g).is_some();
    let d = match delta {
        Some(d) => d.to_string(),
        None => "na".to_string(),
    };
    out.line(&format!("{} => {}", rq.line_input(stream, *id), g.line_output(a.port, &d, &format!("r{}", a.resent))));
    g.status == 200 || transient
}

// ------------------------------------------------------------ HTTP/2

/// `emit` for HTTP/2: the handler sees the absolute request URI (`http://localhost/...`);
/// the request target is what follows the authority.
fn emit_h2(out: &mut Out, id: &mut u64, rq: &Req, a: Answer) -> bool {
    *id += 1;
    let mut g = digest(a.resp);
    mp_transient(rq, &mut g);
    h2_normalise_echo(&mut g);
    out.line(&format!("{} => {}", rq.line_input("h2", *id), g.line_output(a.port, "na", "r0")));
    g.status == 200
}

// ------------------------------------------------------------ TLS

mod tls {
    use super::*;
    use std::io::{Read, Write};
    use std::net::{SocketAddr, TcpStream};
    use std::sync::Arc;

    #[derive(Debug)]
    struct AcceptAny;
    impl rustls::client::danger::ServerCertVerifier for AcceptAny {
        fn verify_server_cert(
            &self,
            _end_entity: &rustls::pki_types::CertificateDer<'_>,
            _intermediates: &[rustls::pki_types::CertificateDer<'_>],
            _server_name: &rustls::pki_types::ServerName<'_>,
            _ocsp_response: &[u8],
            _now: rustls::pki_types::UnixTime,
        ) -> Result<rustls::client::danger::ServerCertVerified, rustls::Error> {
            Ok(rustls::client::danger::ServerCertVerified::assertion())
        }
        fn verify_tls12_signature(
            &self,
            _message: &[u8],
            _cert: &rustls::pki_types::CertificateDer<'_>,
            _dss: &rustls::DigitallySignedStruct,
        ) -> Result<rustls::client::danger::HandshakeSignatureValid, rustls::Error> {
            Ok(rustls::client::danger::HandshakeSignatureValid::assertion())
        }
        fn verify_tls13_signature(
            &self,
            _message: &[u8],
            _cert: &rustls::pki_types::CertificateDer<'_>,
            _dss: &rustls::DigitallySignedStruct,
        ) -> Result<rustls::client::danger::HandshakeSignatureValid, rustls::Error> {
            Ok(rustls::client::danger::HandshakeSignatureValid::assertion())
        }
        fn supported_verify_schemes(&self) -> Vec<rustls::SignatureScheme> {
            vec![
                rustls::SignatureScheme::ECDSA_NISTP256_SHA256,
                rustls::SignatureScheme::ECDSA_NISTP384_SHA384,
                rustls::SignatureScheme::ED25519,
                rustls::SignatureScheme::RSA_PSS_SHA256,
                rustls::SignatureScheme::RSA_PKCS1_SHA256,
            ]
        }
    }

    pub fn client_config() -> Arc<rustls::ClientConfig> {
        Arc::new(
            rustls::ClientConfig::builder()
                .dangerous()
                .with_custom_certificate_verifier(Arc::new(AcceptAny))
                .with_no_client_auth(),
        )
    }

    /// Self-signed certificate for `localhost`: (certificate PEM, key PEM).
    pub fn self_signed() -> (Vec<u8>, Vec<u8>) {
        let key = rcgen::KeyPair::generate().expect("key pair");
        let params = rcgen::CertificateParams::new(vec!["localhost".to_string()]).expect("params");
        let cert = params.self_signed(&key).expect("self-signed");
        (cert.pem().into_bytes(), key.serialize_pem().into_bytes())
    }

    /// How far a client goes right after its TCP connect.
    #[derive(Clone, Copy, Debug, PartialEq)]
    pub enum Stage {
        /// nothing: the whole handshake happens when it is this client's turn
        Plain,
        /// TCP connected, no ClientHello yet
        BeforeHello,
        /// ClientHello sent, the server's flight not read
        HelloSent,
        /// ClientHello sent and the server's flight read; the client's Finished withheld
        ServerFlightRead,
    }

    pub struct Client {
        pub sock: TcpStream,
        pub conn: Option<rustls::ClientConnection>,
        pub local: SocketAddr,
    }

    impl Client {
        pub fn connect(addr: SocketAddr) -> Option<Client> {
            let sock = connect_long(addr).ok()?;
            let local = sock.local_addr().ok()?;
            Some(Client { sock, conn: None, local })
        }
        fn ensure_conn(&mut self, cfg: &Arc<rustls::ClientConfig>) {
            if self.conn.is_none() {
                let name = rustls::pki_types::ServerName::try_from("localhost").unwrap();
                self.conn = Some(rustls::ClientConnection::new(cfg.clone(), name).expect("client connection"));
            }
        }
        /// Go as far as `stage` says, and stop.
        pub fn advance_to(&mut self, cfg: &Arc<rustls::ClientConfig>, stage: Stage) -> bool {
            match stage {
                Stage::Plain | Stage::BeforeHello => true,
                Stage::HelloSent | Stage::ServerFlightRead => {
                    self.ensure_conn(cfg);
                    let conn = self.conn.as_mut().unwrap();
                    while conn.wants_write() {
                        if conn.write_tls(&mut self.sock).is_err() {
                            return false;
                        }
                    }
                    if stage == Stage::ServerFlightRead {
                        // one read of the server's answer; whatever it makes the client
                        // want to write stays unwritten
                        match conn.read_tls(&mut self.sock) {
                            Ok(n) if n > 0 => {
                                if conn.process_new_packets().is_err() {
                                    return false;
                                }
                            }
                            _ => return false,
                        }
                    }
                    true
                }
            }
        }
        /// Finish the handshake, send one request, read one answer.
        pub fn request(&mut self, cfg: &Arc<rustls::ClientConfig>, wire: &[u8]) -> Option<RawResponse> {
            self.ensure_conn(cfg);
            let conn = self.conn.as_mut().unwrap();
            while conn.is_handshaking() {
                conn.complete_io(&mut self.sock).ok()?;
            }
            let mut tls = rustls::Stream::new(conn, &mut self.sock);
            tls.write_all(wire).ok()?;
            tls.flush().ok()?;
            read_response(&mut tls)
        }
    }

    /// One `Content-Length` response off any reader.
    pub fn read_response<R: Read>(r: &mut R) -> Option<RawResponse> {
        let mut buf: Vec<u8> = Vec::new();
        let mut tmp = [0u8; 4096];
        let head_end = loop {
            if let Some(p) = buf.windows(4).position(|w| w == b"\r\n\r\n") {
                break p;
            }
            let n = r.read(&mut tmp).ok()?;
            if n == 0 {
                return None;
            }
            buf.extend_from_slice(&tmp[..n]);
        };
        let head = String::from_utf8_lossy(&buf[..head_end]).to_string();
        let mut resp = RawResponse::default();
        let mut lines = head.split("\r\n");
        let status_line = lines.next()?;
        resp.status = status_line.split(' ').nth(1)?.parse().ok()?;
        for l in lines {
            let (n, v) = l.split_once(':')?;
            resp.headers.push((n.to_ascii_lowercase(), v.trim().to_string()));
        }
        let len: usize = resp.header("content-length")?.parse().ok()?;
        let mut body = buf[head_end + 4..].to_vec();
        while body.len() < len {
            let n = r.read(&mut tmp).ok()?;
            if n == 0 {
                return None;
            }
            body.extend_from_slice(&tmp[..n]);
        }
        body.truncate(len);
        resp.body = body;
        resp.well_formed = true;
        Some(resp)
    }
}

fn tls_req(rng: &mut Rng, label: &str) -> Req {
    let n = nonce(rng);
    Req {
        ep: "tls",
        method: "GET",
        target: format!("/tls/{}", n).into_bytes(),
        ct: None,
        framing: Framing::None,
        payload: vec![],
        meta: label.to_string(),
        sent_canon: String::new(),
        nonce: n,
    }
}

fn emit_tls(out: &mut Out, id: &mut u64, rq: &Req, local: std::net::SocketAddr, resp: Option<RawResponse>) -> bool {
    // the port is only meaningful with the loopback address the test uses
    let port = if local.ip() == std::net::IpAddr::V4(std::net::Ipv4Addr::LOCALHOST) { local.port() } else { 0 };
    emit(out, "tl", id, rq, Answer { port, resp, resent: 0 }, None)
}

fn permutations(k: usize) -> Vec<Vec<usize>> {
    fn go(cur: &mut Vec<usize>, used: &mut Vec<bool>, k: usize, acc: &mut Vec<Vec<usize>>) {
        if cur.len() == k {
            acc.push(cur.clone());
            return;
        }
        for i in 0..k {
            if !used[i] {
                used[i] = true;
                cur.push(i);
                go(cur, used, k, acc);
                cur.pop();
                used[i] = false;
            }
        }
    }
    let mut acc = Vec::new();
    go(&mut Vec::new(), &mut vec![false; k], k, &mut acc);
    acc
}

/// `k` clients connect in the order 0..k and finish (handshake, request,
/// answer) in the order `finish`; a client overtaken by a later one waits at
/// a stage picked by `rng`.  Everything is sequenced from this one thread: a
/// client does nothing between its stage and its turn.
fn tls_scenario(out: &mut Out, id: &mut u64, rng: &mut Rng, addr: std::net::SocketAddr, cfg: &std::sync::Arc<rustls::ClientConfig>, finish: &[usize]) -> (usize, usize) {
    use tls::Stage;
    let k = finish.len();
    let pos_of = |c: usize| finish.iter().position(|x| *x == c).unwrap();
    let mut clients: Vec<Option<tls::Client>> = Vec::new();
    let mut stages: Vec<Stage> = Vec::new();
    for c in 0..k {
        let overtaken = (c + 1..k).any(|later| pos_of(later) < pos_of(c));
        let stage = if overtaken {
            *rng.pick(&[Stage::BeforeHello, Stage::HelloSent, Stage::ServerFlightRead])
        } else if rng.chance(1, 4) {
            Stage::HelloSent
        } else {
            Stage::Plain
        };
        let mut cl = tls::Client::connect(addr);
        if let Some(c) = cl.as_mut() {
            if !c.advance_to(cfg, stage) {
                cl = None;
            }
        }
        clients.push(cl);
        stages.push(stage);
    }
    let perm: String = finish.iter().map(|x| x.to_string()).collect();
    let (mut sent, mut ok) = (0, 0);
    for (turn, c) in finish.iter().enumerate() {
        let overtaken = (c + 1..k).any(|later| pos_of(later) < pos_of(*c));
        let role = match (overtaken, stages[*c]) {
            (false, _) => "inorder",
            (true, Stage::BeforeHello) => "stalled-before-hello",
            (true, _) => "stalled-mid-handshake",
        };
        let fin = if turn == 0 { "first" } else if turn + 1 == k { "last" } else { "middle" };
        let rq = tls_req(rng, &format!("{}.{}.k{}p{}c{}", role, fin, k, perm, c));
        sent += 1;
        let (local, resp) = match clients[*c].as_mut() {
            Some(cl) => (cl.local, cl.request(cfg, &rq.wire())),
            None => ("0.0.0.0:0".parse().unwrap(), None),
        };
        if emit_tls(out, id, &rq, local, resp) {
            ok += 1;
        }
    }
    (sent, ok)
}

fn tls_stream(out: &mut Out, id: &mut u64, rt: &tokio::runtime::Runtime, mult: usize) {
    let (cert, key) = tls::self_signed();
    let ctx = SrvCtx::new();
    let server = rt.block_on(async {
        let config = dropshot::ConfigDropshot {
            bind_address: "127.0.0.1:0".parse().unwrap(),
            default_request_body_max_bytes: BODY_CAP,
            default_handler_task_mode: dropshot::HandlerTaskMode::Detached,
            log_headers: vec![],
        };
        dropshot::ServerBuilder::new(make_api(), ctx.clone(), discard_log())
            .config(config)
            .tls(Some(dropshot::ConfigTls::AsBytes { certs: cert, key }))
            .start()
            .expect("TLS server starts")
    });
    let addr = server.local_addr();
    let cfg = tls::client_config();
    let t0 = std::time::Instant::now();
    let mut rng = Rng::from_env(609);
    let (mut sent, mut ok) = (0usize, 0usize);

    // control: sequential connections
    for _ in 0..(20 * mult) {
        let rq = tls_req(&mut rng, "sequential.only.k1");
        sent += 1;
        let (local, resp) = match tls::Client::connect(addr) {
            Some(mut c) => (c.local, c.request(&cfg, &rq.wire())),
            None => ("0.0.0.0:0".parse().unwrap(), None),
        };
        if emit_tls(out, id, &rq, local, resp) {
            ok += 1;
        }
    }
    if std::env::var("VERIF_TIMING").is_ok() {
        eprintln!("sequential done after {:?}", t0.elapsed());
    }
    // control: keep-alive reuse, two connections alternating
    for _ in 0..(5 * mult) {
        let mut a = tls::Client::connect(addr);
        let mut b = tls::Client::connect(addr);
        for i in 0..6 {
            let which = if i % 2 == 0 { &mut a } else { &mut b };
            let rq = tls_req(&mut rng, &format!("keepalive.r{}.k2", i / 2));
            sent += 1;
            let (local, resp) = match which.as_mut() {
                Some(c) => (c.local, c.request(&cfg, &rq.wire())),
                None => ("0.0.0.0:0".parse().unwrap(), None),
            };
            if emit_tls(out, id, &rq, local, resp) {
                ok += 1;
            }
        }
    }
    if std::env::var("VERIF_TIMING").is_ok() {
        eprintln!("keepalive done after {:?}", t0.elapsed());
    }
    // stalled handshakes: every finishing order for 2..4 connections, chosen ones for 5..8
    for _round in 0..mult {
        for k in 2..=8usize {
            let mut orders: Vec<Vec<usize>> = if k <= 4 {
                permutations(k)
            } else {
                let ident: Vec<usize> = (0..k).collect();
                let mut rev = ident.clone();
                rev.reverse();
                let mut rot = ident.clone();
                rot.rotate_left(1); // the first connection finishes last
                let mut rot2 = ident.clone();
                rot2.rotate_right(1); // the last connection finishes first
                let mut mid = ident.clone();
                let m = mid.remove(0);
                mid.insert(k / 2, m); // the first connection finishes in the middle
                vec![ident, rev, rot, rot2, mid]
            };
            if k > 4 {
                for _ in 0..4 {
                    let mut p: Vec<usize> = (0..k).collect();
                    for i in (1..k).rev() {
                        let j = rng.below(i as u64 + 1) as usize;
                        p.swap(i, j);
                    }
                    orders.push(p);
                }
            }
            for o in orders {
                let (s, g) = tls_scenario(out, id, &mut rng, addr, &cfg, &o);
                sent += s;
                ok += g;
            }
        }
    }
    if std::env::var("VERIF_TIMING").is_ok() {
        eprintln!("stalled done after {:?}", t0.elapsed());
    }
    // simultaneous: threads released together
    for n in [2usize, 8, 16] {
        for _ in 0..(2 * mult) {
            let barrier = std::sync::Arc::new(std::sync::Barrier::new(n));
            let reqs: Vec<Req> = (0..n).map(|i| tls_req(&mut rng, &format!("threads.t{}.k{}", i, n))).collect();
            let handles: Vec<_> = reqs
                .into_iter()
                .map(|rq| {
                    let barrier = barrier.clone();
                    let cfg = cfg.clone();
                    std::thread::spawn(move || {
                        barrier.wait();
                        let r = match tls::Client::connect(addr) {
                            Some(mut c) => (c.local, c.request(&cfg, &rq.wire())),
                            None => ("0.0.0.0:0".parse().unwrap(), None),
                        };
                        (rq, r.0, r.1)
                    })
                })
                .collect();
            for h in handles {
                let (rq, local, resp) = h.join().expect("tls client thread");
                sent += 1;
                if emit_tls(out, id, &rq, local, resp) {
                    ok += 1;
                }
            }
        }
    }
    *id += 1;
    out.line(&format!("ct {} {} {} => {}", id, sent, ok, ctx.count("tls")));
    out.flush();
    if std::env::var("VERIF_TIMING").is_ok() {
        eprintln!("tls clients done after {:?}", t0.elapsed());
    }
    rt.block_on(async {
        let _ = server.close().await;
    });
    if std::env::var("VERIF_TIMING").is_ok() {
        eprintln!("tls server closed after {:?}", t0.elapsed());
    }
}

fn main() {
    quiet_panics();
    let mut out = Out::new();
    let thorough = is_thorough();
    let mult = if thorough { 10 } else { 1 };
    let mut id: u64 = 0;

    let mut rng = Rng::from_env(9);
    fm_streams(&mut out, &mut rng, &mut id, 30_000 * mult);
    let mut rng = Rng::from_env(109);
    qs_streams(&mut out, &mut rng, &mut id, 20_000 * mult);
    let mut rng = Rng::from_env(209);
    mb_stream(&mut out, &mut rng, &mut id, 10_000 * mult);
    out.flush();

    let rt = tokio::runtime::Builder::new_multi_thread().worker_threads(8).enable_all().build().unwrap();
    let ctx = SrvCtx::new();
    let server = rt.block_on(async {
        start_server(make_api(), ctx.clone(), ServerOpts { default_request_body_max_bytes: BODY_CAP, ..Default::default() })
    });
    let addr = server.local_addr();
    let _ = PLAIN_ADDR.set(addr);

    // sv: one request per connection
    let mut rng = Rng::from_env(309);
    for _ in 0..(6_000 * mult) {
        let rq = gen_req(&mut rng);
        let before = ctx.count(rq.ep);
        let a = single(addr, &rq);
        let delta = ctx.count(rq.ep) - before;
        emit(&mut out, "sv", &mut id, &rq, a, Some(delta));
    }
    // pl: pipelined on one connection
    let mut rng = Rng::from_env(409);
    let before_pl = ctx.total();
    let k10_before_pl = K10_RESENDS.load(std::sync::atomic::Ordering::SeqCst);
    let mut ok_pl = 0usize;
    let mut sent_pl = 0usize;
    for _ in 0..(600 * mult) {
        let k = rng.range(2, 8) as usize;
        let reqs: Vec<Req> = (0..k).map(|_| gen_req(&mut rng)).collect();
        let answers = run_conn(addr, &reqs, k);
        for (rq, a) in reqs.iter().zip(answers.into_iter()) {
            sent_pl += 1;
            if emit(&mut out, "pl", &mut id, rq, a, None) {
                ok_pl += 1;
            }
        }
    }
    id += 1;
    let k10_now = K10_RESENDS.load(std::sync::atomic::Ordering::SeqCst);
    out.line(&format!("ct {} {} {} => {}", id, sent_pl, ok_pl, ctx.total() - before_pl - (k10_now - k10_before_pl)));
    out.flush();

    // h2: the sv requests over HTTP/2, eight concurrent streams per connection
    let mut rng = Rng::from_env(459);
    for _ in 0..(150 * mult) {
        let mut reqs: Vec<Req> = Vec::new();
        while reqs.len() < 8 {
            let rq = gen_req(&mut rng);
            if h2_expressible(&rq) {
                reqs.push(rq);
            }
        }
        let answers = h2_batch(&rt, addr, &reqs);
        for (rq, a) in reqs.iter().zip(answers.into_iter()) {
            emit_h2(&mut out, &mut id, rq, a);
        }
    }
    // thorough: finding K10 needs a schedule; the same conformant multipart request on eight
    // concurrent streams, many times over, usually shows it a few times (every line is an
    // ordinary h2 case: delivered, or refused once and delivered on resend)
    if thorough {
        let fields = vec![
            ("f0".to_string(), b"--not-the-boundary\r\nline two".to_vec()),
            ("f1".to_string(), "/\u{df}\u{3a9}".as_bytes().to_vec()),
            ("f2".to_string(), b"bb^~".to_vec()),
        ];
        let boundary = b"KMy)F+P".to_vec();
        let payload = multipart_body(&boundary, &fields);
        let sent = format!("[{}]", fields.iter().map(|(n, d)| mp_field_canon(n, d)).collect::<Vec<_>>().join(";"));
        for round in 0..3000 {
            let reqs: Vec<Req> = (0..8)
                .map(|k| Req {
                    ep: "mp",
                    method: "POST",
                    target: b"/multipart".to_vec(),
                    ct: Some(b"multipart/form-data; boundary=\"KMy)F+P\"".to_vec()),
                    framing: Framing::Cl,
                    payload: payload.clone(),
                    meta: hex(&boundary),
                    sent_canon: sent.clone(),
                    nonce: format!("k10w{}x{}", round, k),
                })
                .collect();
            let answers = h2_batch(&rt, addr, &reqs);
            for (rq, a) in reqs.iter().zip(answers.into_iter()) {
                emit_h2(&mut out, &mut id, rq, a);
            }
        }
    }
    out.flush();

    // big bodies in pieces: a body of many reads, small and large ones mixed (a few bytes,
    // then most of it; most of it, then a few bytes; ...), content-length and chunked, on the
    // endpoints with a large limit.  What arrives must be what was sent, in order.
    {
        let mut rng = Rng::from_env(477);
        let sizes: &[usize] = if thorough { &[4096, 4097, 5000, 8192, 9000, 16384, 20000, 70000] } else { &[4097, 5000, 9000, 20000] };
        let mut k = 0u64;
        for &size in sizes {
            for shape in 0..6 {
                for ep in ["bigraw", "bigstream"] {
                    k += 1;
                    let payload: Vec<u8> = (0..size).map(|i| ((i as u64 * 31 + k * 7 + (i as u64 / 251)) % 251) as u8).collect();
                    // (sizes of the pieces the body is written in; the last takes the rest)
                    let pieces: Vec<usize> = match shape {
                        0 => vec![10],
                        1 => vec![size - 10],
                        2 => vec![1, 4096],
                        3 => vec![100, 100, size / 2],
                        4 => vec![size / 2],
                        _ => (0..rng.range(1, 5)).map(|_| rng.range(1, (size / 2) as u64) as usize).collect(),
                    };
                    let chunked = k % 2 == 0;
                    let framing = if chunked {
                        // chunk boundaries = piece boundaries
                        Framing::Ch { splits: pieces.clone(), exts: vec![], last_ext: vec![], trailers: vec![] }
                    } else {
                        Framing::Cl
                    };
                    let rq = Req {
                        ep,
                        method: "PUT",
                        target: format!("/{}", ep).into_bytes(),
                        ct: Some(b"application/octet-stream".to_vec()),
                        framing,
                        payload: payload.clone(),
                        meta: String::new(),
                        sent_canon: format!("s{}", hex(&payload)),
                        nonce: format!("bg{:x}", rng.next()),
                    };
                    // cut the wire body where the pieces end (for chunked: after each chunk's
                    // size line + data + CRLF)
                    let mut cuts = Vec::new();
                    let mut at = 0usize;
                    let mut left = size;
                    for p in &pieces {
                        let p = (*p).max(1).min(left);
                        if p == 0 {
                            break;
                        }
                        at += if chunked { format!("{:x}", p).len() + 2 + p + 2 } else { p };
                        left -= p;
                        cuts.push(at);
                        if left == 0 {
                            break;
                        }
                    }
                    let a = single_in_pieces(addr, &rq, &cuts, std::time::Duration::from_millis(15));
                    emit(&mut out, "sv", &mut id, &rq, a, None);
                }
            }
        }
        out.flush();
    }

    // cc: concurrency
    let mut rng = Rng::from_env(509);
    let before_all = ctx.count("all");
    let configs: &[(usize, usize, usize)] = if thorough {
        &[(1, 1, 2000), (1, 8, 250), (4, 2, 1000), (16, 4, 500), (64, 8, 200), (64, 1, 400), (8, 8, 500), (32, 3, 600)]
    } else {
        // (connections, depth, rounds per connection)
        &[(1, 1, 200), (1, 8, 25), (4, 2, 100), (16, 4, 16), (64, 8, 4), (64, 1, 8), (8, 8, 8)]
    };
    let mut sent_total = 0usize;
    let mut ok_total = 0usize;
    // meanwhile, other clients' uploads fail half-way (a body over the limit that arrives in two
    // frames; a body cut off by a disconnect): none of that may reach anybody else's handler
    let spoil_stop = std::sync::Arc::new(std::sync::atomic::AtomicBool::new(false));
    let spoiler = {
        let stop = spoil_stop.clone();
        std::thread::spawn(move || {
            use std::io::{Read, Write};
            let (mut sent, mut refused) = (0u64, 0u64);
            while !stop.load(std::sync::atomic::Ordering::SeqCst) && sent < 3000 {
                sent += 1;
                let Ok(mut s) = connect(addr) else { continue };
                let target = if sent % 2 == 0 { "/raw" } else { "/json" };
                let method = if sent % 2 == 0 { "PUT" } else { "POST" };
                let head = format!(
                    "{} {} HTTP/1.1\r\nhost: localhost\r\ncontent-type: application/json\r\ntransfer-encoding: chunked\r\nconnection: close\r\n\r\n",
                    method, target
                );
                let chunk = |n: usize| -> Vec<u8> {
                    let mut v = format!("{:x}\r\n", n).into_bytes();
                    v.extend(std::iter::repeat(b'A').take(n));
                    v.extend_from_slice(b"\r\n");
                    v
                };
                let _ = s.write_all(head.as_bytes());
                let _ = s.write_all(&chunk(BODY_CAP - 500));
                let _ = s.flush();
                std::thread::sleep(std::time::Duration::from_millis(2));
                if sent % 3 == 0 {
                    // cut off in mid-body
                    drop(s);
                    refused += 1;
                    continue;
                }
                let _ = s.write_all(&chunk(1000));
                let _ = s.write_all(b"0\r\n\r\n");
                let mut buf = Vec::new();
                let _ = s.read_to_end(&mut buf);
                // (no bytes at all: the refusal was lost to a reset because the server closed
                // with part of the upload unread - C18's concern, not this stream's)
                if buf.starts_with(b"HTTP/1.1 400") || buf.is_empty() {
                    refused += 1;
                }
            }
            (sent, refused)
        })
    };
    for (conns, depth, rounds) in configs {
        let mut plans: Vec<Vec<Req>> = Vec::new();
        let mut seq = 0u64;
        for _ in 0..*conns {
            let mut v = Vec::new();
            for _ in 0..(*rounds * *depth) {
                seq += 1;
                v.push(all_req(&mut rng, seq));
            }
            plans.push(v);
        }
        let depth = *depth;
        let handles: Vec<_> = plans
            .into_iter()
            .map(|plan| {
                std::thread::spawn(move || {
                    let answers = run_conn(addr, &plan, depth);
                    (plan, answers)
                })
            })
            .collect();
        for h in handles {
            let (plan, answers) = h.join().expect("client thread");
            for (rq, a) in plan.iter().zip(answers.into_iter()) {
                sent_total += 1;
                if emit(&mut out, "cc", &mut id, rq, a, None) {
                    ok_total += 1;
                }
            }
        }
    }
    spoil_stop.store(true, std::sync::atomic::Ordering::SeqCst);
    let (sp_sent, sp_refused) = spoiler.join().expect("spoiler thread");
    let entered = ctx.count("all") - before_all;
    id += 1;
    out.line(&format!("ct {} {} {} => {}", id, sent_total, ok_total, entered));
    id += 1;
    out.line(&format!("sp {} {} => {}", id, if sp_sent > 0 { "some" } else { "none" }, (sp_sent == sp_refused) as u8));
    out.flush();
    rt.block_on(async {
        let _ = server.close().await;
    });
    tls_stream(&mut out, &mut id, &rt, mult);
}
