//! C08 correspondence harness: `schema_util::j2oas_schema` (through the hook)
//! on (rs) random `SchemaObject` trees over the supported fragment, (us) the
//! same with one unsupported construct injected (panic <=> model error; ignored
//! keyword => documented drop), (dt) a fixed family of real derived types whose
//! schemas are produced exactly as `ApiDescription::gen_openapi` does
//! (`SchemaSettings::openapi3()`, `subschema_for` for the root, the definitions
//! through `into_root_schema_for`).
//!
//! Lines:
//!   rs|us <id> <name|-> <schema> => ok:<oas> | panic
//!   dt <id> <type> <name|-> <ndefs> <root> (<defname> <def>)* => <res> (<res>)*
//! Every schema travels as a *structural dump* (Rust field names, a key present
//! iff the field is `Some`), hex-encoded compact JSON; results are the JSON
//! serialisation of the `openapiv3` value, hex-encoded.

use dropshot::verif_hooks as hooks;
use dsharness::util::*;
use schemars::schema::*;
use schemars::JsonSchema;
use serde::{Deserialize, Serialize};
use serde_json::{json, Map as JMap, Value};

// ---------------------------------------------------------------------------
// structural dump

fn dump(s: &Schema) -> Value {
    match s {
        Schema::Bool(b) => Value::Bool(*b),
        Schema::Object(o) => dump_obj(o),
    }
}

fn f(x: f64) -> Value {
    json!(x)
}

fn dump_obj(o: &SchemaObject) -> Value {
    let mut m = JMap::new();
    if let Some(md) = &o.metadata {
        let mut mm = JMap::new();
        if let Some(v) = &md.id {
            mm.insert("id".into(), json!(v));
        }
        if let Some(v) = &md.title {
            mm.insert("title".into(), json!(v));
        }
        if let Some(v) = &md.description {
            mm.insert("description".into(), json!(v));
        }
        if let Some(v) = &md.default {
            mm.insert("default".into(), v.clone());
        }
        if md.deprecated {
            mm.insert("deprecated".into(), json!(true));
        }
        if md.read_only {
            mm.insert("read_only".into(), json!(true));
        }
        if md.write_only {
            mm.insert("write_only".into(), json!(true));
        }
        if !md.examples.is_empty() {
            mm.insert("examples".into(), Value::Array(md.examples.clone()));
        }
        m.insert("metadata".into(), Value::Object(mm));
    }
    if let Some(t) = &o.instance_type {
        let name = |t: &InstanceType| serde_json::to_value(t).unwrap();
        m.insert(
            "instance_type".into(),
            match t {
                SingleOrVec::Single(t) => name(t),
                SingleOrVec::Vec(v) => Value::Array(v.iter().map(name).collect()),
            },
        );
    }
    if let Some(v) = &o.format {
        m.insert("format".into(), json!(v));
    }
    if let Some(v) = &o.enum_values {
        m.insert("enum_values".into(), Value::Array(v.clone()));
    }
    if let Some(v) = &o.const_value {
        m.insert("const_value".into(), v.clone());
    }
    if let Some(sv) = &o.subschemas {
        let mut mm = JMap::new();
        let list = |l: &Vec<Schema>| Value::Array(l.iter().map(dump).collect());
        if let Some(l) = &sv.all_of {
            mm.insert("all_of".into(), list(l));
        }
        if let Some(l) = &sv.any_of {
            mm.insert("any_of".into(), list(l));
        }
        if let Some(l) = &sv.one_of {
            mm.insert("one_of".into(), list(l));
        }
        if let Some(s) = &sv.not {
            mm.insert("not".into(), dump(s));
        }
        if let Some(s) = &sv.if_schema {
            mm.insert("if_schema".into(), dump(s));
        }
        if let Some(s) = &sv.then_schema {
            mm.insert("then_schema".into(), dump(s));
        }
        if let Some(s) = &sv.else_schema {
            mm.insert("else_schema".into(), dump(s));
        }
        m.insert("subschemas".into(), Value::Object(mm));
    }
    if let Some(n) = &o.number {
        let mut mm = JMap::new();
        if let Some(v) = n.multiple_of {
            mm.insert("multiple_of".into(), f(v));
        }
        if let Some(v) = n.maximum {
            mm.insert("maximum".into(), f(v));
        }
        if let Some(v) = n.exclusive_maximum {
            mm.insert("exclusive_maximum".into(), f(v));
        }
        if let Some(v) = n.minimum {
            mm.insert("minimum".into(), f(v));
        }
        if let Some(v) = n.exclusive_minimum {
            mm.insert("exclusive_minimum".into(), f(v));
        }
        m.insert("number".into(), Value::Object(mm));
    }
    if let Some(s) = &o.string {
        let mut mm = JMap::new();
        if let Some(v) = s.max_length {
            mm.insert("max_length".into(), json!(v));
        }
        if let Some(v) = s.min_length {
            mm.insert("min_length".into(), json!(v));
        }
        if let Some(v) = &s.pattern {
            mm.insert("pattern".into(), json!(v));
        }
        m.insert("string".into(), Value::Object(mm));
    }
    if let Some(a) = &o.array {
        let mut mm = JMap::new();
        match &a.items {
            Some(SingleOrVec::Single(s)) => {
                mm.insert("items".into(), dump(s));
            }
            Some(SingleOrVec::Vec(v)) => {
                mm.insert("items".into(), Value::Array(v.iter().map(dump).collect()));
            }
            None => {}
        }
        if let Some(s) = &a.additional_items {
            mm.insert("additional_items".into(), dump(s));
        }
        if let Some(v) = a.max_items {
            mm.insert("max_items".into(), json!(v));
        }
        if let Some(v) = a.min_items {
            mm.insert("min_items".into(), json!(v));
        }
        if let Some(v) = a.unique_items {
            mm.insert("unique_items".into(), json!(v));
        }
        if let Some(s) = &a.contains {
            mm.insert("contains".into(), dump(s));
        }
        m.insert("array".into(), Value::Object(mm));
    }
    if let Some(ob) = &o.object {
        let mut mm = JMap::new();
        if let Some(v) = ob.max_properties {
            mm.insert("max_properties".into(), json!(v));
        }
        if let Some(v) = ob.min_properties {
            mm.insert("min_properties".into(), json!(v));
        }
        if !ob.required.is_empty() {
            mm.insert("required".into(), json!(ob.required.iter().collect::<Vec<_>>()));
        }
        if !ob.properties.is_empty() {
            let mut p = JMap::new();
            for (k, v) in &ob.properties {
                p.insert(k.clone(), dump(v));
            }
            mm.insert("properties".into(), Value::Object(p));
        }
        if !ob.pattern_properties.is_empty() {
            let mut p = JMap::new();
            for (k, v) in &ob.pattern_properties {
                p.insert(k.clone(), dump(v));
            }
            mm.insert("pattern_properties".into(), Value::Object(p));
        }
        if let Some(s) = &ob.additional_properties {
            mm.insert("additional_properties".into(), dump(s));
        }
        if let Some(s) = &ob.property_names {
            mm.insert("property_names".into(), dump(s));
        }
        m.insert("object".into(), Value::Object(mm));
    }
    if let Some(v) = &o.reference {
        m.insert("reference".into(), json!(v));
    }
    if !o.extensions.is_empty() {
        let mut p = JMap::new();
        for (k, v) in &o.extensions {
            p.insert(k.clone(), v.clone());
        }
        m.insert("extensions".into(), Value::Object(p));
    }
    Value::Object(m)
}

fn hexj(v: &Value) -> String {
    hex(serde_json::to_string(v).unwrap().as_bytes())
}

fn convert(name: Option<&String>, s: &Schema) -> String {
    let s2 = s.clone();
    let n2 = name.cloned();
    match catch(move || hooks::j2oas_schema(n2.as_ref(), &s2)) {
        Ok(v) => format!("ok:{}", hexj(&v)),
        Err(_) => "panic".to_string(),
    }
}

// ---------------------------------------------------------------------------
// random schemas over the supported fragment

const NAMES: [&str; 6] = ["a", "b", "c", "id", "name", "x-y"];
const REFS: [&str; 3] =
    ["#/components/schemas/A", "#/components/schemas/B", "#/components/schemas/C"];
const STRS: [&str; 5] = ["", "a", "ab", "héllo", "abcdef"];

fn small_value(r: &mut Rng) -> Value {
    match r.below(6) {
        0 => Value::Null,
        1 => json!(r.chance(1, 2)),
        2 => json!(r.below(10) as i64 - 3),
        3 => json!(*r.pick(&STRS)),
        4 => json!([1, "a"]),
        _ => json!({"k": 1}),
    }
}

fn decorate(r: &mut Rng, o: &mut SchemaObject) {
    if r.chance(1, 4) {
        let mut md = Metadata::default();
        if r.chance(1, 2) {
            md.title = Some("T".into());
        }
        if r.chance(1, 2) {
            md.description = Some("some description".into());
        }
        if r.chance(1, 3) {
            md.default = Some(small_value(r));
        }
        md.deprecated = r.chance(1, 5);
        md.read_only = r.chance(1, 8);
        md.write_only = r.chance(1, 8);
        if r.chance(1, 6) {
            md.examples = vec![small_value(r)];
        }
        if r.chance(1, 10) {
            md.id = Some("urn:x".into());
        }
        o.metadata = Some(Box::new(md));
    }
    if r.chance(1, 4) {
        o.extensions.insert("nullable".into(), json!(true));
    } else if r.chance(1, 20) {
        o.extensions
            .insert("nullable".into(), if r.chance(1, 2) { json!(false) } else { json!("true") });
    }
    if r.chance(1, 8) {
        o.extensions.insert("x-rust-type".into(), json!({"crate": "c", "path": "c::T"}));
    }
    if r.chance(1, 10) {
        o.extensions.insert("example".into(), small_value(r));
    }
    if r.chance(1, 20) {
        o.extensions.insert("other".into(), json!(1));
    }
}

fn int_bound(r: &mut Rng) -> f64 {
    match r.below(8) {
        0 => 0.0,
        1 => 255.0,
        2 => -128.0,
        3 => 4294967295.0,
        4 => -9007199254740992.0,
        5 => 9007199254740992.0,
        _ => (r.below(21) as i64 - 10) as f64,
    }
}

fn number_validation(r: &mut Rng) -> NumberValidation {
    let mut n = NumberValidation::default();
    if r.chance(1, 5) {
        n.multiple_of = Some(r.range(1, 4) as f64);
    }
    match r.below(4) {
        0 => n.minimum = Some(int_bound(r)),
        1 => n.exclusive_minimum = Some(int_bound(r)),
        _ => {}
    }
    match r.below(4) {
        0 => n.maximum = Some(int_bound(r)),
        1 => n.exclusive_maximum = Some(int_bound(r)),
        _ => {}
    }
    n
}

fn string_validation(r: &mut Rng) -> StringValidation {
    let mut s = StringValidation::default();
    if r.chance(1, 3) {
        s.min_length = Some(r.below(4) as u32);
    }
    if r.chance(1, 3) {
        s.max_length = Some(r.below(6) as u32);
    }
    if r.chance(1, 5) {
        s.pattern = Some(["^a", "^[a-z]+$", "x"][r.below(3) as usize].to_string());
    }
    s
}

fn maybe_null_enum(r: &mut Rng, mut vals: Vec<Value>) -> Option<Vec<Value>> {
    if r.chance(1, 4) {
        vals.push(Value::Null);
    }
    Some(vals)
}

fn gen_schema(r: &mut Rng, depth: u32) -> Schema {
    let leaf_only = depth == 0;
    let k = if leaf_only {
        r.below(7)
    } else if r.chance(3, 5) {
        7 + r.below(7)
    } else {
        r.below(14)
    };
    let mut o = SchemaObject::default();
    match k {
        0 => {
            // integer
            o.instance_type = Some(InstanceType::Integer.into());
            if r.chance(2, 3) {
                o.format =
                    Some(["int32", "int64", "uint8", "uint32", "uint64"][r.below(5) as usize].into());
            }
            if r.chance(2, 3) {
                o.number = Some(Box::new(number_validation(r)));
            }
            if r.chance(1, 5) {
                let n = r.range(1, 3);
                let vals: Vec<Value> = (0..n)
                    .map(|_| match r.below(6) {
                        0 => json!(i64::MIN),
                        1 => json!(i64::MAX),
                        _ => json!(r.below(12) as i64 - 4),
                    })
                    .collect();
                o.enum_values = maybe_null_enum(r, vals);
            }
            if r.chance(1, 10) {
                // vacuous for integers
                o.string = Some(Box::new(string_validation(r)));
            }
        }
        1 => {
            o.instance_type = Some(InstanceType::Number.into());
            if r.chance(1, 2) {
                o.format = Some(["float", "double", "decimal"][r.below(3) as usize].into());
            }
            if r.chance(1, 2) {
                o.number = Some(Box::new(number_validation(r)));
            }
            if r.chance(1, 6) {
                let vals = vec![json!(r.below(5)), json!(7)];
                o.enum_values = maybe_null_enum(r, vals);
            }
        }
        2 => {
            o.instance_type = Some(InstanceType::String.into());
            if r.chance(1, 2) {
                o.format = Some(
                    ["date", "date-time", "password", "byte", "binary", "uuid", "ip", ""]
                        [r.below(8) as usize]
                        .into(),
                );
            }
            if r.chance(1, 2) {
                o.string = Some(Box::new(string_validation(r)));
            }
            if r.chance(1, 4) {
                let n = r.range(1, 3);
                let vals: Vec<Value> = (0..n).map(|_| json!(*r.pick(&STRS))).collect();
                o.enum_values = maybe_null_enum(r, vals);
            }
            if r.chance(1, 10) {
                o.number = Some(Box::new(number_validation(r)));
            }
        }
        3 => {
            o.instance_type = Some(InstanceType::Boolean.into());
            if r.chance(1, 4) {
                let vals = vec![json!(r.chance(1, 2))];
                o.enum_values = maybe_null_enum(r, vals);
            }
            if r.chance(1, 10) {
                o.format = Some("flag".into());
            }
        }
        4 => {
            o.reference = Some(r.pick(&REFS).to_string());
            // annotations beside a reference are dropped, but not meaning
            if r.chance(1, 6) {
                o.extensions.insert("nullable".into(), json!(true));
            }
            if r.chance(1, 6) {
                o.metadata = Some(Box::new(Metadata {
                    description: Some("beside ref".into()),
                    ..Default::default()
                }));
            }
            return Schema::Object(o);
        }
        5 => return Schema::Bool(true),
        6 => {
            // `{}` possibly with annotations only / trivial groups
            if r.chance(1, 4) {
                o.number = Some(Box::new(NumberValidation::default()));
            }
            if r.chance(1, 4) {
                o.object = Some(Box::new(ObjectValidation::default()));
            }
            if r.chance(1, 4) {
                o.array = Some(Box::new(ArrayValidation {
                    unique_items: if r.chance(1, 2) { Some(false) } else { None },
                    ..Default::default()
                }));
            }
        }
        7 | 8 | 9 => {
            // object
            o.instance_type = Some(InstanceType::Object.into());
            if r.chance(9, 10) {
                let mut ov = ObjectValidation::default();
                let n = r.below(4);
                for _ in 0..n {
                    let name = r.pick(&NAMES).to_string();
                    ov.properties.insert(name.clone(), gen_schema(r, depth - 1));
                    if r.chance(1, 2) {
                        ov.required.insert(name);
                    }
                }
                if r.chance(1, 8) {
                    ov.required.insert("zz".into());
                }
                match r.below(5) {
                    0 => ov.additional_properties = Some(Box::new(Schema::Bool(false))),
                    1 => ov.additional_properties = Some(Box::new(Schema::Bool(true))),
                    2 => ov.additional_properties = Some(Box::new(gen_schema(r, depth - 1))),
                    _ => {}
                }
                if r.chance(1, 6) {
                    ov.min_properties = Some(r.below(3) as u32);
                }
                if r.chance(1, 6) {
                    ov.max_properties = Some(r.range(1, 4) as u32);
                }
                o.object = Some(Box::new(ov));
            }
            if r.chance(1, 10) {
                o.string = Some(Box::new(string_validation(r)));
            }
        }
        10 | 11 => {
            o.instance_type = Some(InstanceType::Array.into());
            let mut av = ArrayValidation::default();
            if r.chance(4, 5) {
                av.items = Some(SingleOrVec::Single(Box::new(gen_schema(r, depth - 1))));
            }
            if r.chance(1, 4) {
                av.min_items = Some(r.below(3) as u32);
            }
            if r.chance(1, 4) {
                av.max_items = Some(r.range(1, 4) as u32);
            }
            match r.below(6) {
                0 => av.unique_items = Some(true),
                1 => av.unique_items = Some(false),
                _ => {}
            }
            if r.chance(1, 10) {
                // ignored by the converter and vacuous without tuple items
                av.additional_items = Some(Box::new(Schema::Bool(false)));
            }
            o.array = Some(Box::new(av));
        }
        _ => {
            // composition
            let mut sv = SubschemaValidation::default();
            let lo = if r.chance(1, 10) { 0 } else { 1 };
            let n = r.range(lo, 3);
            let members: Vec<Schema> = (0..n).map(|_| gen_schema(r, depth - 1)).collect();
            match r.below(4) {
                0 => sv.all_of = Some(members),
                1 => sv.any_of = Some(members),
                2 => sv.one_of = Some(members),
                _ => sv.not = Some(Box::new(gen_schema(r, depth - 1))),
            }
            if r.chance(1, 10) {
                // vacuous without `if`
                sv.then_schema = Some(Box::new(Schema::Bool(false)));
            }
            o.subschemas = Some(Box::new(sv));
        }
    }
    decorate(r, &mut o);
    Schema::Object(o)
}

// ---------------------------------------------------------------------------
// unsupported constructs: visit a random node and break it

fn nodes_mut<'a>(s: &'a mut Schema, out: &mut Vec<*mut Schema>) {
    out.push(s as *mut Schema);
    if let Schema::Object(o) = s {
        if let Some(sv) = &mut o.subschemas {
            for l in [&mut sv.all_of, &mut sv.any_of, &mut sv.one_of].into_iter().flatten() {
                for m in l.iter_mut() {
                    nodes_mut(m, out);
                }
            }
            if let Some(n) = &mut sv.not {
                nodes_mut(n, out);
            }
        }
        if let Some(a) = &mut o.array {
            if let Some(SingleOrVec::Single(i)) = &mut a.items {
                nodes_mut(i, out);
            }
        }
        if let Some(ob) = &mut o.object {
            for (_, p) in ob.properties.iter_mut() {
                nodes_mut(p, out);
            }
            if let Some(ap) = &mut ob.additional_properties {
                if matches!(**ap, Schema::Object(_)) {
                    nodes_mut(ap, out);
                }
            }
        }
    }
}

const N_MUT: u64 = 27;

fn break_node(r: &mut Rng, which: u64, node: &mut Schema) {
    let int = |o: &mut SchemaObject| {
        *o = SchemaObject { instance_type: Some(InstanceType::Integer.into()), ..Default::default() }
    };
    if which == 0 {
        *node = Schema::Bool(false);
        return;
    }
    if let Schema::Bool(_) = node {
        *node = Schema::Object(SchemaObject::default());
    }
    let o = match node {
        Schema::Object(o) => o,
        _ => unreachable!(),
    };
    match which {
        1 => {
            let t = match &o.instance_type {
                Some(SingleOrVec::Single(t)) => **t,
                _ => InstanceType::String,
            };
            o.reference = None;
            o.instance_type = Some(SingleOrVec::Vec(vec![t, InstanceType::Null]));
        }
        2 => {
            int(o);
            o.instance_type = Some(InstanceType::Array.into());
            o.array = Some(Box::new(ArrayValidation {
                items: Some(SingleOrVec::Vec(vec![Schema::Bool(true), gen_schema(r, 0)])),
                ..Default::default()
            }));
        }
        3 => {
            int(o);
            o.instance_type = Some(InstanceType::Array.into());
        }
        4 => {
            int(o);
            o.subschemas = Some(Box::new(SubschemaValidation {
                all_of: Some(vec![gen_schema(r, 0)]),
                ..Default::default()
            }));
        }
        5 => {
            *o = SchemaObject::default();
            o.subschemas = Some(Box::new(SubschemaValidation {
                all_of: Some(vec![gen_schema(r, 0)]),
                any_of: Some(vec![gen_schema(r, 0)]),
                ..Default::default()
            }));
        }
        6 => {
            *o = SchemaObject::default();
            o.subschemas = Some(Box::new(SubschemaValidation::default()));
        }
        7 => {
            int(o);
            o.number = Some(Box::new(NumberValidation {
                minimum: Some(1.0),
                exclusive_minimum: Some(0.0),
                ..Default::default()
            }));
        }
        8 => {
            int(o);
            o.instance_type =
                Some([InstanceType::Number, InstanceType::Integer][r.below(2) as usize].into());
            o.number = Some(Box::new(NumberValidation {
                maximum: Some(9.0),
                exclusive_maximum: Some(10.0),
                ..Default::default()
            }));
        }
        9 => {
            // enumeration value of the wrong kind
            let (t, v) = match r.below(4) {
                0 => (InstanceType::String, json!(1)),
                1 => (InstanceType::Integer, json!("a")),
                2 => (InstanceType::Boolean, json!("true")),
                _ => (InstanceType::Number, json!([1])),
            };
            int(o);
            o.instance_type = Some(t.into());
            o.enum_values = Some(vec![Value::Null, v]);
        }
        10 => {
            int(o);
            o.enum_values = Some(vec![json!(1), json!(u64::MAX)]);
        }
        11 => {
            // const (kept as is beside whatever type is there)
            o.reference = None;
            o.const_value = Some(match r.below(3) {
                0 => json!(1),
                1 => json!("a"),
                _ => Value::Null,
            });
        }
        12 => {
            int(o);
            o.instance_type = Some(InstanceType::Array.into());
            o.array = Some(Box::new(ArrayValidation {
                contains: Some(Box::new(gen_schema(r, 0))),
                ..Default::default()
            }));
        }
        13 => {
            int(o);
            o.instance_type = Some(InstanceType::Object.into());
            let mut ov = ObjectValidation::default();
            ov.pattern_properties.insert("^a".into(), gen_schema(r, 0));
            if r.chance(1, 2) {
                ov.additional_properties = Some(Box::new(Schema::Bool(false)));
            }
            o.object = Some(Box::new(ov));
        }
        14 => {
            int(o);
            o.instance_type = Some(InstanceType::Object.into());
            o.object = Some(Box::new(ObjectValidation {
                property_names: Some(Box::new(Schema::Object(SchemaObject {
                    instance_type: Some(InstanceType::String.into()),
                    string: Some(Box::new(StringValidation {
                        max_length: Some(2),
                        ..Default::default()
                    })),
                    ..Default::default()
                }))),
                ..Default::default()
            }));
        }
        15 => {
            *o = SchemaObject::default();
            o.subschemas = Some(Box::new(SubschemaValidation {
                all_of: Some(vec![]),
                if_schema: Some(Box::new(gen_schema(r, 0))),
                then_schema: Some(Box::new(gen_schema(r, 0))),
                else_schema: Some(Box::new(Schema::Bool(false))),
                ..Default::default()
            }));
        }
        16 => {
            *o = SchemaObject::default();
            o.enum_values = Some(vec![json!(1), json!("a")]);
        }
        17 => {
            let t = [InstanceType::Integer, InstanceType::String, InstanceType::Boolean]
                [r.below(3) as usize];
            int(o);
            o.instance_type = Some(t.into());
            o.enum_values = Some(vec![]);
        }
        18 => {
            *o = SchemaObject::default();
            match r.below(4) {
                0 => {
                    o.number = Some(Box::new(NumberValidation {
                        minimum: Some(3.0),
                        ..Default::default()
                    }))
                }
                1 => {
                    o.string = Some(Box::new(StringValidation {
                        max_length: Some(1),
                        ..Default::default()
                    }))
                }
                2 => {
                    o.array = Some(Box::new(ArrayValidation {
                        max_items: Some(0),
                        ..Default::default()
                    }))
                }
                _ => {
                    let mut ov = ObjectValidation::default();
                    ov.required.insert("a".into());
                    o.object = Some(Box::new(ov));
                }
            }
        }
        19 => {
            *o = SchemaObject::default();
            o.subschemas = Some(Box::new(SubschemaValidation {
                any_of: Some(vec![gen_schema(r, 0), gen_schema(r, 0)]),
                ..Default::default()
            }));
            o.number =
                Some(Box::new(NumberValidation { maximum: Some(2.0), ..Default::default() }));
        }
        20 => {
            // validation beside a reference
            *o = SchemaObject::default();
            o.reference = Some(r.pick(&REFS).to_string());
            match r.below(3) {
                0 => o.instance_type = Some(InstanceType::String.into()),
                1 => o.enum_values = Some(vec![json!(1)]),
                _ => {
                    o.number = Some(Box::new(NumberValidation {
                        minimum: Some(3.0),
                        ..Default::default()
                    }))
                }
            }
        }
        21 => {
            // the null instance type (finding K3)
            *o = SchemaObject::default();
            o.instance_type = Some(InstanceType::Null.into());
            if r.chance(1, 3) {
                o.metadata =
                    Some(Box::new(Metadata { title: Some("Null".into()), ..Default::default() }));
            }
        }
        22 => {
            int(o);
            o.number = Some(Box::new(if r.chance(1, 2) {
                NumberValidation { maximum: Some(1e19), ..Default::default() }
            } else {
                NumberValidation { minimum: Some(-1e19), ..Default::default() }
            }));
        }
        23 => {
            let t = [InstanceType::Object, InstanceType::Array][r.below(2) as usize];
            int(o);
            o.instance_type = Some(t.into());
            if t == InstanceType::Array {
                o.array = Some(Box::new(ArrayValidation::default()));
            }
            o.enum_values = Some(vec![json!([]), json!({})]);
        }
        24 => {
            // unique_items: Some(true) without a type
            *o = SchemaObject::default();
            o.array = Some(Box::new(ArrayValidation {
                unique_items: Some(true),
                ..Default::default()
            }));
        }
        25 => {
            // exclusive bounds 2^63 on an integer
            int(o);
            o.number = Some(Box::new(NumberValidation {
                exclusive_maximum: Some(9223372036854775808.0),
                ..Default::default()
            }));
        }
        _ => {
            // multiple_of beyond i64
            int(o);
            o.number =
                Some(Box::new(NumberValidation { multiple_of: Some(1e19), ..Default::default() }));
        }
    }
}

// ---------------------------------------------------------------------------
// derived types

#[allow(dead_code)]
mod fam {
    use super::*;
    use std::collections::{BTreeMap, BTreeSet, HashMap, HashSet};

    #[derive(JsonSchema, Serialize, Deserialize)]
    pub struct Inner {
        pub x: u8,
        pub y: Option<String>,
    }
    #[derive(JsonSchema)]
    pub struct Simple {
        a: u8,
        b: String,
        c: bool,
    }
    #[derive(JsonSchema)]
    pub struct Empty {}
    #[derive(JsonSchema)]
    pub struct UnitStruct;
    #[derive(JsonSchema)]
    pub struct WithOpt {
        a: Option<u32>,
        b: Option<String>,
        c: Option<Inner>,
        d: Option<Vec<u8>>,
    }
    #[derive(JsonSchema)]
    pub struct WithVec {
        v: Vec<u16>,
        w: Vec<Inner>,
        x: Vec<Option<i8>>,
        y: [u8; 3],
        z: BTreeSet<u8>,
        s: HashSet<String>,
    }
    #[derive(JsonSchema)]
    pub struct WithMaps {
        h: HashMap<String, u32>,
        b: BTreeMap<String, Inner>,
        o: BTreeMap<String, Option<bool>>,
    }
    #[derive(JsonSchema)]
    pub struct Widths {
        a: i8,
        b: i16,
        c: i32,
        d: i64,
        e: u8,
        f: u16,
        g: u32,
        h: u64,
        i: usize,
        j: isize,
        k: f32,
        l: f64,
        m: i128,
    }
    #[derive(JsonSchema)]
    pub struct NonZeros {
        a: std::num::NonZeroU8,
        b: std::num::NonZeroU32,
        c: std::num::NonZeroU64,
    }
    #[derive(JsonSchema)]
    pub struct NonZeroSigned {
        a: std::num::NonZeroI32,
    }
    #[derive(JsonSchema)]
    pub struct WithUuid {
        id: uuid::Uuid,
        ids: Vec<uuid::Uuid>,
    }
    #[derive(JsonSchema)]
    pub struct NewU(u32);
    #[derive(JsonSchema)]
    pub struct NewS(String);
    #[derive(JsonSchema)]
    pub struct NewInner(Inner);
    #[derive(JsonSchema)]
    pub enum UnitEnum {
        A,
        B,
        C,
    }
    /// A documented enum.
    #[derive(JsonSchema)]
    pub enum DocEnum {
        /// first
        A,
        /// second
        B,
        C,
    }
    #[derive(JsonSchema)]
    pub enum External {
        A(u32),
        B { x: String },
        C,
        D(u8, u8),
    }
    #[derive(JsonSchema)]
    pub enum ExternalNoTuple {
        A(u32),
        B { x: String, y: Option<Inner> },
        C,
    }
    #[derive(JsonSchema)]
    #[serde(tag = "type")]
    pub enum Internal {
        A { x: u8 },
        B { y: String },
        C,
    }
    #[derive(JsonSchema)]
    #[serde(tag = "t", content = "c")]
    pub enum Adjacent {
        A(u32),
        B { y: bool },
        C,
    }
    #[derive(JsonSchema)]
    #[serde(untagged)]
    pub enum Untagged {
        A(u32),
        B(String),
        C { z: bool },
    }
    #[derive(JsonSchema)]
    #[serde(untagged)]
    pub enum UntaggedUnit {
        N,
        A(u32),
    }
    #[derive(JsonSchema)]
    #[serde(rename_all = "kebab-case")]
    pub enum Renamed {
        FirstOne,
        SecondOne,
    }
    /// Outer docs.
    #[derive(JsonSchema)]
    pub struct Outer {
        /// the inner
        inner: Inner,
        list: Vec<Inner>,
        opt: Option<Box<Inner>>,
        e: UnitEnum,
        /// a documented enum field
        de: DocEnum,
    }
    #[derive(JsonSchema)]
    pub struct Tree {
        value: i32,
        children: Vec<Tree>,
    }
    #[derive(JsonSchema)]
    pub struct Chain {
        head: u8,
        tail: Option<Box<Chain>>,
    }
    #[derive(JsonSchema)]
    #[serde(deny_unknown_fields)]
    pub struct Strict {
        #[serde(rename = "re-named")]
        renamed: u8,
        #[serde(default)]
        dflt: u16,
        #[serde(skip)]
        skipped: u8,
    }
    #[derive(JsonSchema)]
    pub struct Flat {
        own: u8,
        #[serde(flatten)]
        inner: Inner,
    }
    #[derive(JsonSchema)]
    pub struct FlatEnum {
        own: u8,
        #[serde(flatten)]
        e: Internal,
    }
    #[derive(JsonSchema)]
    pub struct Anything {
        v: serde_json::Value,
        /// with docs
        w: serde_json::Value,
    }
    #[derive(JsonSchema)]
    pub struct Validated {
        #[schemars(range(min = 1, max = 10))]
        n: u32,
        #[schemars(length(min = 1, max = 5))]
        s: String,
        #[schemars(regex(pattern = "^[a-z]+$"))]
        p: String,
        #[schemars(length(min = 1))]
        v: Vec<u8>,
    }
    #[derive(JsonSchema)]
    pub struct Annotated {
        #[deprecated]
        old: u8,
        #[schemars(example = "ex")]
        e: u8,
        x: u8,
    }
    pub fn ex() -> u8 {
        7
    }
    #[derive(JsonSchema)]
    pub struct StdTypes {
        ip: std::net::IpAddr,
        v4: std::net::Ipv4Addr,
        c: char,
        d: std::time::Duration,
        p: std::path::PathBuf,
        r: std::ops::Range<u32>,
    }
    #[derive(JsonSchema)]
    pub struct WithUnit {
        u: (),
        o: Option<()>,
    }
    #[derive(JsonSchema)]
    pub struct WithTuple {
        t: (u8, String),
    }
    #[derive(JsonSchema)]
    pub struct WithBound {
        b: std::ops::Bound<u32>,
    }
    #[derive(JsonSchema)]
    pub struct WithResult {
        r: Result<u8, String>,
    }
}

fn emit_type<T: JsonSchema>(out: &mut Out, id: &mut u64, tname: &str, named: bool) {
    let settings = schemars::gen::SchemaSettings::openapi3();
    let mut generator = schemars::gen::SchemaGenerator::new(settings);
    // as `make_subschema_for::<T>` in the body / response paths of gen_openapi
    let root = generator.subschema_for::<T>();
    // as api_description.rs: `generator.into_root_schema_for::<()>()` for the definitions
    let rs = generator.into_root_schema_for::<()>();
    let name = if named { Some(T::schema_name()) } else { None };
    let mut inp = format!(
        "dt {} {} {} {} {}",
        id,
        tname,
        name.as_ref().map(|n| hex(n.as_bytes())).unwrap_or("-".into()),
        rs.definitions.len(),
        hexj(&dump(&root))
    );
    let mut res = convert(name.as_ref(), &root);
    for (k, v) in &rs.definitions {
        inp.push_str(&format!(" {} {}", hex(k.as_bytes()), hexj(&dump(v))));
        res.push(' ');
        res.push_str(&convert(None, v));
    }
    out.line(&format!("{} => {}", inp, res));
    *id += 1;
}

// ---------------------------------------------------------------------------
// da: document assembly.  Every type of the family is the success response of an
// endpoint of ONE ApiDescription; the schema the document publishes for that
// endpoint (its references expanded through the document's own components) must be
// the conversion of the type's own schema (expanded through the type's own
// definitions) - names of definitions are not compared, only structure, so two
// different types with the same schema name (`Item` / `Item2`) are handled too.

/// A response type whose JSON Schema is `T`'s (serialisation is never invoked).
struct W<T>(std::marker::PhantomData<fn() -> T>);
impl<T> Serialize for W<T> {
    fn serialize<S: serde::Serializer>(&self, s: S) -> Result<S::Ok, S::Error> {
        s.serialize_unit()
    }
}
impl<T: JsonSchema> JsonSchema for W<T> {
    fn schema_name() -> String {
        T::schema_name()
    }
    fn schema_id() -> std::borrow::Cow<'static, str> {
        T::schema_id()
    }
    fn is_referenceable() -> bool {
        T::is_referenceable()
    }
    fn json_schema(g: &mut schemars::gen::SchemaGenerator) -> Schema {
        T::json_schema(g)
    }
}

/// Replace every `$ref` by the schema it names (in `defs`), recursion cut by the
/// distance to the enclosing occurrence.
fn expand(v: &Value, defs: &JMap<String, Value>, path: &mut Vec<String>) -> Value {
    match v {
        Value::Object(m) => {
            if let Some(Value::String(r)) = m.get("$ref") {
                let name = r.rsplit('/').next().unwrap_or("").to_string();
                if let Some(pos) = path.iter().position(|n| *n == name) {
                    return json!({ "$rec": path.len() - pos });
                }
                return match defs.get(&name) {
                    Some(d) => {
                        path.push(name);
                        let e = expand(d, defs, path);
                        path.pop();
                        json!({ "$def": e })
                    }
                    None => json!({ "$dangling": name }),
                };
            }
            Value::Object(m.iter().map(|(k, x)| (k.clone(), expand(x, defs, path))).collect())
        }
        Value::Array(a) => Value::Array(a.iter().map(|x| expand(x, defs, path)).collect()),
        _ => v.clone(),
    }
}

/// What the conversion of `T`'s own schema looks like, expanded; `None` if the converter
/// refuses the type (then it cannot be part of a document at all).
fn own_expanded<T: JsonSchema>() -> Option<Value> {
    own_expanded_as::<T>(true)
}

/// `as_root`: converted with the type's name, as the root of a body is (a title is added to
/// an unnamed root); parameter and header members are converted without.
fn own_expanded_as<T: JsonSchema>(as_root: bool) -> Option<Value> {
    let settings = schemars::gen::SchemaSettings::openapi3();
    let mut generator = schemars::gen::SchemaGenerator::new(settings);
    let root = generator.subschema_for::<T>();
    let rs = generator.into_root_schema_for::<()>();
    let name = T::schema_name();
    let conv = |n: Option<&String>, s: &Schema| -> Option<Value> {
        let (s2, n2) = (s.clone(), n.cloned());
        catch(move || hooks::j2oas_schema(n2.as_ref(), &s2)).ok()
    };
    let r = conv(if as_root { Some(&name) } else { None }, &root)?;
    let mut defs = JMap::new();
    for (k, v) in &rs.definitions {
        defs.insert(k.clone(), conv(None, v)?);
    }
    Some(expand(&r, &defs, &mut Vec::new()))
}

type DaEntry = (String, Option<Value>, dropshot::ApiEndpoint<dropshot::StubContext>);

fn da_entry<T: JsonSchema + 'static>(i: usize, tname: &str) -> DaEntry {
    let ep = dropshot::ApiEndpoint::new_for_types::<(), Result<dropshot::HttpResponseOk<W<T>>, dropshot::HttpError>>(
        format!("op{}", i),
        http::Method::GET,
        "application/json",
        &format!("/t{}", i),
        dropshot::ApiEndpointVersions::All,
    );
    (tname.to_string(), own_expanded::<T>(), ep)
}

/// Two different types that share a schema name.
mod same_name {
    pub mod inv {
        #[derive(schemars::JsonSchema)]
        pub struct Item {
            pub sku: String,
            pub count: u32,
        }
    }
    pub mod bill {
        #[derive(schemars::JsonSchema)]
        pub struct Item {
            pub amount: i64,
            pub paid: Option<bool>,
        }
    }
}

/// Types that are BOTH the type of a query-parameter field and part of a response body of the
/// same API (so their definition reaches `components.schemas` along two routes), carrying what
/// the two routes treat differently: an example, and documented references.
mod shared {
    use schemars::JsonSchema;
    use serde::{Deserialize, Serialize};
    pub fn example_name() -> Name {
        Name("my-instance".to_string())
    }
    /// Names are short, unique identifiers.
    #[derive(Deserialize, Serialize, JsonSchema)]
    #[schemars(example = "example_name")]
    pub struct Name(pub String);
    pub fn example_order() -> Order {
        Order::Descending
    }
    /// How to order results.
    #[derive(Deserialize, Serialize, JsonSchema)]
    #[serde(rename_all = "snake_case")]
    #[schemars(example = "example_order")]
    pub enum Order {
        Ascending,
        Descending,
    }
    pub fn default_first() -> Name {
        Name("first".to_string())
    }
    /// A range of names.
    #[derive(Deserialize, Serialize, JsonSchema)]
    pub struct Span {
        /// where the range starts
        #[serde(default = "default_first")]
        pub start: Name,
        /// where the range ends (absent: unbounded)
        pub end: Option<Name>,
        /// how it is ordered
        pub order: Option<Order>,
    }
    #[derive(Deserialize, JsonSchema)]
    pub struct SpanQuery {
        /// name of the thing
        pub name: Name,
        pub order: Option<Order>,
    }
}

fn da_shared_entry(i: usize) -> DaEntry {
    let ep = dropshot::ApiEndpoint::new_for_types::<
        (dropshot::Query<shared::SpanQuery>,),
        Result<dropshot::HttpResponseOk<W<shared::Span>>, dropshot::HttpError>,
    >(
        format!("op{}", i),
        http::Method::GET,
        "application/json",
        &format!("/t{}", i),
        dropshot::ApiEndpointVersions::All,
    );
    ("shared_Span".to_string(), own_expanded::<shared::Span>(), ep)
}

/// Named types that occur in the document ONLY as parameter / response-header members (never
/// in a body), among them newtypes around other named types: the definitions behind such
/// members reach `components.schemas` through the pre-generated dependency lists alone.
mod params_only {
    use schemars::JsonSchema;
    use serde::{Deserialize, Serialize};
    /// A disk's name: 1-63 characters.
    #[derive(Deserialize, Serialize, JsonSchema)]
    pub struct PName(#[schemars(length(min = 1, max = 63))] pub String);
    /// The name of a disk (a name).
    #[derive(Deserialize, Serialize, JsonSchema)]
    pub struct PDiskName(pub PName);
    /// Twice removed.
    #[derive(Deserialize, Serialize, JsonSchema)]
    pub struct PAlias(pub PDiskName);
    #[derive(Deserialize, Serialize, JsonSchema)]
    #[serde(rename_all = "snake_case")]
    pub enum PState {
        Attached,
        Detached,
    }
    /// State, by another name.
    #[derive(Deserialize, Serialize, JsonSchema)]
    pub struct PStateTag(pub PState);
    #[derive(Deserialize, Serialize, JsonSchema)]
    pub struct HName(#[schemars(length(min = 2, max = 5))] pub String);
    /// A disk name in a header.
    #[derive(Deserialize, Serialize, JsonSchema)]
    pub struct HDiskName(pub HName);
    /// An alias in a header.
    #[derive(Deserialize, Serialize, JsonSchema)]
    pub struct HAlias(pub HDiskName);
    #[derive(Deserialize, Serialize, JsonSchema)]
    pub enum HState {
        On,
        Off,
    }
    pub fn example_tag() -> HStateTag {
        HStateTag(HState::On)
    }
    /// A state in a header.
    #[derive(Deserialize, Serialize, JsonSchema)]
    #[schemars(example = "example_tag")]
    pub struct HStateTag(pub HState);
    #[derive(Deserialize, Serialize, JsonSchema)]
    pub struct QName(#[schemars(length(max = 7))] pub String);
    pub fn example_qdisk() -> QDiskName {
        QDiskName(QName("d0".to_string()))
    }
    #[derive(Deserialize, Serialize, JsonSchema)]
    #[schemars(example = "example_qdisk")]
    pub struct QDiskName(pub QName);

    // wrappers without any annotation of their own: their definition is a bare reference
    #[derive(Deserialize, Serialize, JsonSchema)]
    pub struct HInner(#[schemars(length(min = 3, max = 4))] pub String);
    #[derive(Deserialize, Serialize, JsonSchema)]
    pub struct HBare(pub HInner);
    #[derive(Deserialize, Serialize, JsonSchema)]
    pub enum HMode {
        Fast,
        Slow,
    }
    #[derive(Deserialize, Serialize, JsonSchema)]
    pub struct HModeTag(pub HMode);
    #[derive(Deserialize, Serialize, JsonSchema)]
    pub struct HModeTag2(pub HModeTag);
    #[derive(Deserialize, JsonSchema)]
    pub struct PathT {
        pub name: PName,
        pub disk: PDiskName,
        pub alias: PAlias,
        pub state: PStateTag,
    }
    #[derive(Deserialize, JsonSchema)]
    pub struct QueryT {
        pub q_direct: QName,
        pub q_disk: QDiskName,
        pub q_plain: Option<u16>,
    }
    #[derive(Serialize, JsonSchema)]
    pub struct HeadersT {
        pub x_name: HName,
        pub x_disk: HDiskName,
        pub x_alias: HAlias,
        pub x_state: HStateTag,
        pub x_plain: String,
        pub x_bare: HBare,
        pub x_mode: HModeTag2,
    }
}

/// `dp` lines: one API whose only endpoint takes `PathT` and `QueryT` and answers with
/// `HeadersT` (the body is a `u8`); for every documented parameter and response header, the
/// published schema expanded through the document's components must be the member type's own
/// converted schema.  Reported as `da` lines (document assembly).
fn dp_stream(out: &mut Out, id: &mut u64) {
    use params_only::*;
    let ep = dropshot::ApiEndpoint::new_for_types::<
        (dropshot::Path<PathT>, dropshot::Query<QueryT>),
        Result<dropshot::HttpResponseHeaders<dropshot::HttpResponseOk<u8>, HeadersT>, dropshot::HttpError>,
    >(
        "dp".to_string(),
        http::Method::GET,
        "application/json",
        "/dp/{name}/{disk}/{alias}/{state}",
        dropshot::ApiEndpointVersions::All,
    );
    let mut api = dropshot::ApiDescription::<dropshot::StubContext>::new();
    let registered = std::panic::catch_unwind(std::panic::AssertUnwindSafe(move || {
        api.register(ep).map_err(|e| e.to_string())?;
        api.openapi("t", semver::Version::new(1, 0, 0)).json().map_err(|e| e.to_string())
    }));
    let doc = match registered {
        Ok(Ok(d)) => d,
        _ => json!({}),
    };
    let empty = JMap::new();
    let defs = doc["components"]["schemas"].as_object().unwrap_or(&empty);
    let op = &doc["paths"]["/dp/{name}/{disk}/{alias}/{state}"]["get"];
    let param = |name: &str| -> Value {
        op["parameters"]
            .as_array()
            .and_then(|a| a.iter().find(|p| p["name"] == name))
            .map(|p| p["schema"].clone())
            .unwrap_or(Value::Null)
    };
    let header = |name: &str| -> Value { op["responses"]["200"]["headers"][name]["schema"].clone() };
    let mut rows: Vec<(&str, Value, Option<Value>)> = vec![
        ("param_path_PName", param("name"), own_expanded_as::<PName>(false)),
        ("param_path_PDiskName", param("disk"), own_expanded_as::<PDiskName>(false)),
        ("param_path_PAlias", param("alias"), own_expanded_as::<PAlias>(false)),
        ("param_path_PStateTag", param("state"), own_expanded_as::<PStateTag>(false)),
        ("param_query_QName", param("q_direct"), own_expanded_as::<QName>(false)),
        ("param_query_QDiskName", param("q_disk"), own_expanded_as::<QDiskName>(false)),
        ("header_HName", header("x_name"), own_expanded_as::<HName>(false)),
        ("header_HDiskName", header("x_disk"), own_expanded_as::<HDiskName>(false)),
        ("header_HAlias", header("x_alias"), own_expanded_as::<HAlias>(false)),
        ("header_HStateTag", header("x_state"), own_expanded_as::<HStateTag>(false)),
        ("header_String", header("x_plain"), own_expanded_as::<String>(false)),
        ("header_HBare", header("x_bare"), own_expanded_as::<HBare>(false)),
        ("header_HModeTag2", header("x_mode"), own_expanded_as::<HModeTag2>(false)),
    ];
    for (tname, published, own) in rows.drain(..) {
        let pub_exp = expand(&published, defs, &mut Vec::new());
        if std::env::var("VERIF_DEBUG").is_ok() && own.as_ref() != Some(&pub_exp) {
            eprintln!("dp {}: published {} own {:?}", tname, pub_exp, own.as_ref().map(|o| o.to_string()));
        }
        let ok = own.map(|o| o == pub_exp).unwrap_or(false);
        out.line(&format!("da {} {} 0 => {}", id, tname, ok as u8));
        *id += 1;
    }
}

/// Two endpoint error types that share their short name (`Error`) and nothing else.
macro_rules! custom_error_type {
    ($m:ident, $field:ident, $fty:ty, $val:expr, $doc:expr) => {
        mod $m {
            use schemars::JsonSchema;
            use serde::Serialize;
            #[doc = $doc]
            #[derive(Debug, Serialize, JsonSchema)]
            pub struct Error {
                pub message: String,
                pub $field: $fty,
            }
            impl dropshot::HttpResponseError for Error {
                fn status_code(&self) -> dropshot::ErrorStatusCode {
                    dropshot::ErrorStatusCode::BAD_REQUEST
                }
            }
            impl From<dropshot::HttpError> for Error {
                fn from(e: dropshot::HttpError) -> Self {
                    Error { message: e.external_message, $field: $val }
                }
            }
            impl std::fmt::Display for Error {
                fn fmt(&self, f: &mut std::fmt::Formatter<'_>) -> std::fmt::Result {
                    write!(f, "{}", self.message)
                }
            }
        }
    };
}
custom_error_type!(widgets, widget_state, String, "worn".to_string(), "What went wrong with a widget.");
custom_error_type!(gadgets, code, u32, 7, "What went wrong with a gadget.");
custom_error_type!(gizmos, retry_after_s, Option<u16>, None, "What went wrong with a gizmo.");

/// `da` rows `error_*`: endpoints with their own error types (three types named `Error`,
/// plus dropshot's own); the schema each operation publishes for its 4XX and 5XX responses,
/// expanded through `components.responses` and `components.schemas`, must be the conversion
/// of that endpoint's error type, in every registration order.
fn de_stream(out: &mut Out, id: &mut u64, order_seed: u64) {
    type Ep = dropshot::ApiEndpoint<dropshot::StubContext>;
    fn ep<E: dropshot::HttpResponseError + Send + Sync + 'static>(i: usize) -> Ep {
        dropshot::ApiEndpoint::new_for_types::<(), Result<dropshot::HttpResponseOk<u8>, E>>(
            format!("e{}", i),
            http::Method::GET,
            "application/json",
            &format!("/e{}", i),
            dropshot::ApiEndpointVersions::All,
        )
    }
    let mut rows: Vec<(&str, Option<Value>, Ep)> = vec![
        ("error_widgets", own_expanded_as::<widgets::Error>(true), ep::<widgets::Error>(0)),
        ("error_gadgets", own_expanded_as::<gadgets::Error>(true), ep::<gadgets::Error>(1)),
        ("error_gizmos", own_expanded_as::<gizmos::Error>(true), ep::<gizmos::Error>(2)),
        ("error_widgets_again", own_expanded_as::<widgets::Error>(true), ep::<widgets::Error>(3)),
        ("error_dropshot", own_expanded_as::<dropshot::HttpErrorResponseBody>(true), ep::<dropshot::HttpError>(4)),
    ];
    let mut r = Rng(order_seed.wrapping_mul(0x9e3779b97f4a7c15) | 1);
    for i in (1..rows.len()).rev() {
        let j = r.below(i as u64 + 1) as usize;
        rows.swap(i, j);
    }
    let mut api = dropshot::ApiDescription::<dropshot::StubContext>::new();
    let mut meta = Vec::new();
    for (tname, own, e) in rows {
        let path = e.path.clone();
        api.register(e).expect("registers");
        meta.push((tname, path, own));
    }
    let doc = api.openapi("t", semver::Version::new(1, 0, 0)).json().expect("document");
    let empty = JMap::new();
    let defs = doc["components"]["schemas"].as_object().unwrap_or(&empty);
    for (tname, path, own) in meta {
        let mut ok = own.is_some();
        for code in ["4XX", "5XX"] {
            let mut resp = doc["paths"][&path]["get"]["responses"][code].clone();
            if let Some(Value::String(r)) = resp.get("$ref").cloned() {
                let name = r.rsplit('/').next().unwrap_or("").to_string();
                resp = doc["components"]["responses"][&name].clone();
            }
            let published = &resp["content"]["application/json"]["schema"];
            let pub_exp = expand(published, defs, &mut Vec::new());
            if Some(&pub_exp) != own.as_ref() {
                ok = false;
                if std::env::var("VERIF_DEBUG").is_ok() {
                    eprintln!("de {} {}: published {} own {:?}", tname, code, pub_exp, own.as_ref().map(|o| o.to_string()));
                }
            }
        }
        out.line(&format!("da {} {} {} => {}", id, tname, order_seed, ok as u8));
        *id += 1;
    }
}

fn da_stream(out: &mut Out, id: &mut u64, entries: Vec<DaEntry>, order_seed: u64) {
    // one document for all types the converter accepts, registered in a seeded order
    let mut usable: Vec<DaEntry> = entries.into_iter().filter(|e| e.1.is_some()).collect();
    let mut r = Rng(order_seed.wrapping_mul(0x9e3779b97f4a7c15) | 1);
    for i in (1..usable.len()).rev() {
        let j = r.below(i as u64 + 1) as usize;
        usable.swap(i, j);
    }
    let mut api = dropshot::ApiDescription::<dropshot::StubContext>::new();
    let mut meta: Vec<(String, String, Value)> = Vec::new();
    for (tname, own, ep) in usable {
        let path = ep.path.clone();
        api.register(ep).expect("registers");
        meta.push((tname, path, own.unwrap()));
    }
    let doc = api.openapi("t", semver::Version::new(1, 0, 0)).json().expect("document");
    let empty = JMap::new();
    let defs = doc["components"]["schemas"].as_object().unwrap_or(&empty);
    for (tname, path, own) in meta {
        let published = &doc["paths"][&path]["get"]["responses"]["200"]["content"]["application/json"]["schema"];
        let pub_exp = expand(published, defs, &mut Vec::new());
        out.line(&format!("da {} {} {} => {}", id, tname, order_seed, (pub_exp == own) as u8));
        *id += 1;
    }
}

fn main() {
    quiet_panics();
    let mut out = Out::new();
    let mut id = 0u64;

    // ---- dt: derived types, with and without the `name` argument ----------
    macro_rules! fam {
        ($($t:ty),* $(,)?) => {
            $( emit_type::<$t>(&mut out, &mut id, stringify!($t).rsplit("::").next().unwrap().trim(), true);
               emit_type::<$t>(&mut out, &mut id, stringify!($t).rsplit("::").next().unwrap().trim(), false); )*
        };
    }
    use fam::*;
    fam!(
        Inner, Simple, Empty, UnitStruct, WithOpt, WithVec, WithMaps, Widths, NonZeros, NonZeroSigned,
        WithUuid, NewU, NewS, NewInner, UnitEnum, DocEnum, External, ExternalNoTuple, Internal,
        Adjacent, Untagged, UntaggedUnit, Renamed, Outer, Tree, Chain, Strict, Flat, FlatEnum,
        Anything, Validated, Annotated, StdTypes, WithUnit, WithTuple, WithBound, WithResult
    );
    // roots that are not named definitions
    emit_type::<()>(&mut out, &mut id, "unit", false);
    emit_type::<Option<()>>(&mut out, &mut id, "opt_unit", false);
    emit_type::<Option<Inner>>(&mut out, &mut id, "opt_inner", false);
    emit_type::<Option<u32>>(&mut out, &mut id, "opt_u32", false);
    emit_type::<Vec<Inner>>(&mut out, &mut id, "vec_inner", false);
    emit_type::<Vec<Option<Inner>>>(&mut out, &mut id, "vec_opt_inner", false);
    emit_type::<std::collections::BTreeMap<String, Inner>>(&mut out, &mut id, "map_inner", false);
    emit_type::<serde_json::Value>(&mut out, &mut id, "json_value", false);
    emit_type::<String>(&mut out, &mut id, "string", false);
    emit_type::<u64>(&mut out, &mut id, "u64", false);
    emit_type::<bool>(&mut out, &mut id, "bool", false);
    emit_type::<(u8, String)>(&mut out, &mut id, "tuple", false);
    emit_type::<Box<Tree>>(&mut out, &mut id, "box_tree", false);
    emit_type::<std::ops::Bound<u32>>(&mut out, &mut id, "bound", false);

    // ---- da: the same types as responses of one ApiDescription -----------------
    {
        macro_rules! da_fam {
            ($($t:ty),* $(,)?) => {{
                let mut v: Vec<DaEntry> = Vec::new();
                $( let i = v.len(); v.push(da_entry::<$t>(i, stringify!($t).rsplit("::").next().unwrap().trim())); )*
                v
            }};
        }
        for order_seed in 0..(if is_thorough() { 12 } else { 3 }) {
            let mut entries = da_fam!(
                Inner, Simple, Empty, UnitStruct, WithOpt, WithVec, WithMaps, Widths, NonZeros, NonZeroSigned,
                WithUuid, NewU, NewS, NewInner, UnitEnum, DocEnum, External, ExternalNoTuple, Internal,
                Adjacent, Untagged, UntaggedUnit, Renamed, Outer, Tree, Chain, Strict, Flat, FlatEnum,
                Anything, Validated, Annotated, StdTypes, WithUnit, WithTuple, WithBound, WithResult,
                Option<Inner>, Vec<Inner>, Vec<Option<Inner>>, Box<Tree>, Option<u32>, String, u64
            );
            let i = entries.len();
            entries.push(da_entry::<same_name::inv::Item>(i, "inv_Item"));
            entries.push(da_entry::<same_name::bill::Item>(i + 1, "bill_Item"));
            entries.push(da_entry::<Vec<same_name::bill::Item>>(i + 2, "vec_bill_Item"));
            entries.push(da_entry::<Vec<same_name::inv::Item>>(i + 3, "vec_inv_Item"));
            entries.push(da_shared_entry(i + 4));
            da_stream(&mut out, &mut id, entries, order_seed);
        }
    }

    dp_stream(&mut out, &mut id);
    for order_seed in 0..(if is_thorough() { 24 } else { 6 }) {
        de_stream(&mut out, &mut id, order_seed);
    }

    // ---- rs: random supported schemas --------------------------------------
    let n_rs = if is_thorough() { 20000 } else { 4000 };
    let mut r = Rng::from_env(1);
    for _ in 0..n_rs {
        let depth = r.below(5) as u32;
        let s = gen_schema(&mut r, depth);
        let name = if r.chance(1, 4) { Some("Named".to_string()) } else { None };
        out.line(&format!(
            "rs {} {} {} => {}",
            id,
            name.as_ref().map(|n| hex(n.as_bytes())).unwrap_or("-".into()),
            hexj(&dump(&s)),
            convert(name.as_ref(), &s)
        ));
        id += 1;
    }

    // ---- rv: schemas holding a reference with something beside it, through schemars'
    // RemoveRefSiblings visitor (applied to every definition before it is published) and
    // then the converter
    let n_rv = if is_thorough() { 8000 } else { 1500 };
    let mut r = Rng::from_env(3);
    let mut made = 0;
    while made < n_rv {
        let depth = r.below(4) as u32;
        let s = gen_schema(&mut r, depth);
        if !dump(&s).to_string().contains("\"reference\"") {
            continue;
        }
        made += 1;
        let mut visited = s.clone();
        schemars::visit::Visitor::visit_schema(&mut schemars::visit::RemoveRefSiblings, &mut visited);
        out.line(&format!("rv {} - {} => {}", id, hexj(&dump(&s)), convert(None, &visited)));
        id += 1;
    }

    // ---- us: one unsupported construct injected ----------------------------
    let n_us = if is_thorough() { 10000 } else { 2000 };
    let mut r = Rng::from_env(2);
    for i in 0..n_us {
        let depth = r.below(4) as u32;
        let mut s = gen_schema(&mut r, depth);
        let mut ptrs = Vec::new();
        nodes_mut(&mut s, &mut ptrs);
        let target = ptrs[r.below(ptrs.len() as u64) as usize];
        // SAFETY: `ptrs` holds pointers into `s`, which is alive and not
        // otherwise borrowed; exactly one is dereferenced.
        let node: &mut Schema = unsafe { &mut *target };
        break_node(&mut r, i % N_MUT, node);
        out.line(&format!("us {} - {} => {}", id, hexj(&dump(&s)), convert(None, &s)));
        id += 1;
    }
    out.flush();
}
