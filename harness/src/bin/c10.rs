//! C10 correspondence harness: invalid input is refused with a 4xx before any
//! handler runs.
//!
//! One stream, `bad`, in the `sv` line format of `extract_common.rs`, against
//! the live echo server: for every parameter position and body format,
//! single-fault mutations of a valid request (type swap, min-1 / max+1, 2^64,
//! unknown enum variant, dropped required field, duplicated key, JSON
//! truncated / garbled / shortened / lengthened at every byte position of a
//! 42-byte body, wrong / absent / garbled content type, non-UTF-8 header,
//! oversize untyped body, multipart header faults).  For each case the line
//! carries the status, whether the error body is the framework's error JSON
//! (`message`, `request_id` = the `x-request-id` header), the change of the
//! endpoint's "handler entered" counter, and whether a valid request sent next
//! on the same connection (or on a fresh one, if the server closed it) was
//! answered 200.  Some mutations leave the request valid (e.g. `+12` for an
//! i64): the driver decides with the model which is which.

#[path = "../extract_common.rs"]
mod common;

use common::*;
use dsharness::server::*;
use dsharness::util::*;
use std::io::Write;
use std::net::SocketAddr;

fn req(ep: &'static str, method: &'static str, target: &[u8], ct: Option<&[u8]>, framing: Framing, payload: &[u8]) -> Req {
    Req {
        ep,
        method,
        target: target.to_vec(),
        ct: ct.map(|c| c.to_vec()),
        framing,
        payload: payload.to_vec(),
        meta: String::new(),
        sent_canon: String::new(),
        nonce: "c10".to_string(),
    }
}

fn get(ep: &'static str, target: &str) -> Req {
    req(ep, "GET", target.as_bytes(), None, Framing::None, b"")
}

const JSON_CT: &[u8] = b"application/json";
const FORM_CT: &[u8] = b"application/x-www-form-urlencoded";

fn post_json(ep: &'static str, target: &str, body: &[u8]) -> Req {
    req(ep, "POST", target.as_bytes(), Some(JSON_CT), Framing::Cl, body)
}

/// Send `rq` on its own connection; then a valid request on the same connection
/// (if the server kept it open) and, always, one on a fresh connection.
/// follow-up = the fresh one was answered 200, and so was the one on the same
/// connection unless the server had closed it.
fn run_case(addr: SocketAddr, ctx: &SrvCtx, rq: &Req) -> (u16, Got, usize, bool) {
    let follow = get("p3", "/path/1/f/true");
    let before = ctx.count(rq.ep);
    let mut port = 0;
    let mut got = digest(None);
    let mut same_conn_ok = true;
    let mut delta = None;
    if let Ok(mut s) = connect_long(addr) {
        port = s.local_addr().map(|a| a.port()).unwrap_or(0);
        if s.write_all(&rq.wire()).is_ok() {
            let mut rr = RespReader::new(s.try_clone().expect("clone"));
            got = digest(rr.read_response(false));
            delta = Some(ctx.count(rq.ep) - before);
            if got.status != 0 && s.write_all(&follow.wire()).is_ok() {
                if let Some(r) = rr.read_response(false) {
                    same_conn_ok = r.status == 200;
                }
                // no answer: the server closed the connection, which it may
            }
        }
    }
    let delta = delta.unwrap_or_else(|| ctx.count(rq.ep) - before);
    let fresh = single(addr, &follow);
    let fresh_ok = fresh.resp.map(|r| r.status == 200).unwrap_or(false);
    (port, got, delta, fresh_ok && same_conn_ok)
}

/// Every position that goes through a typed parse, with a long / non-ASCII
/// ill-typed value in it.
fn long_cases(v: &mut Vec<Req>) {
    let enc = |s: &str| pct_encode(s.as_bytes());
    let mut vals = long_values();
    let huge = huge_values();
    for (label, val) in vals.drain(..).chain(huge.into_iter()) {
        let is_huge = val.len() >= 65536;
        let e = enc(&val);
        let mut push = |mut r: Req, pos: &str| {
            r.meta = format!("long.{}.{}", pos, label);
            v.push(r);
        };
        // path variables of each scalar kind
        push(get("scal", &format!("/scal/{}/-5/true/c/Red", e)), "path-u16");
        push(get("scal", &format!("/scal/7/{}/true/c/Red", e)), "path-i32");
        push(get("scal", &format!("/scal/7/-5/{}/c/Red", e)), "path-bool");
        push(get("scal", &format!("/scal/7/-5/true/{}/Red", e)), "path-char");
        push(get("scal", &format!("/scal/7/-5/true/c/{}", e)), "path-enum");
        push(get("p3", &format!("/path/{}/bob/true", e)), "path-i64");
        push(get("wild", &format!("/wild/{}/a/b", e)), "path-u32");
        // query parameters
        push(get("q6", &format!("/query?n={}&s=x", e)), "query-u64");
        push(get("q6", &format!("/query?n=5&s=x&b={}", e)), "query-bool");
        push(get("q6", &format!("/query?n=5&s=x&e={}", e)), "query-enum");
        push(get("q6", &format!("/query?n=5&s=x&i={}", e)), "query-i8");
        push(get("q6", &format!("/query?n=5&s=x&c={}", e)), "query-char");
        // paginated: first-page scan parameters (from_map), limit, page token
        push(get("page", &format!("/page?min={}", e)), "page-scan-u32");
        push(get("page", &format!("/page?kind={}", e)), "page-scan-enum");
        push(get("page", &format!("/page?flag={}&min=3", e)), "page-scan-bool");
        push(get("page", &format!("/page?limit={}", e)), "page-limit");
        push(get("page", &format!("/page?page_token={}", e)), "page-token");
        // url-encoded body fields
        if is_huge && e.len() > 70000 {
            // bodies: the raw ASCII value only (the encoded multi-byte one is three times as long)
            continue;
        }
        let body = format!("id={}&name=bob", e);
        push(req("bigform", "POST", b"/bigform", Some(FORM_CT), Framing::Cl, body.as_bytes()), "form-u32");
        let body = format!("id=9&name=bob&flag={}", e);
        push(req("bigform", "POST", b"/bigform", Some(FORM_CT), Framing::Cl, body.as_bytes()), "form-bool");
        // JSON: a string where a number / boolean / variant is required
        let js = serde_json::to_string(&val).unwrap();
        let body = format!("{{\"id\":{},\"s\":\"x\",\"e\":\"Red\"}}", js);
        push(req("bigjson", "POST", b"/bigjson", Some(JSON_CT), Framing::Cl, body.as_bytes()), "json-u32");
        let body = format!("{{\"id\":1,\"s\":\"x\",\"o\":{},\"e\":\"Red\"}}", js);
        push(req("bigjson", "POST", b"/bigjson", Some(JSON_CT), Framing::Cl, body.as_bytes()), "json-bool");
        let body = format!("{{\"id\":1,\"s\":\"x\",\"e\":{}}}", js);
        push(req("bigjson", "POST", b"/bigjson", Some(JSON_CT), Framing::Cl, body.as_bytes()), "json-enum");
    }
    // controls: the same endpoints with valid input
    v.push(get("scal", "/scal/65535/-2147483648/false/%F0%9F%98%80/dark-blue"));
    v.push(get("page", "/page"));
    v.push(get("page", "/page?min=4294967295&kind=Green&flag=false&limit=5"));
    v.push(get("page", "/page?limit=0"));
    v.push(get("page", "/page?limit=5&limit=5"));
    // page tokens that cannot be decoded into the selector: blank, not base64, base64 of
    // something that is not the envelope, beside valid scan parameters and alone
    for tok in [
        "", "=", "%20", "AAAA", "e30=", "bm90IGpzb24=", "eyJ2IjoidjEifQ==", "eyJ2IjoidjIiLCJwYWdlX3N0YXJ0Ijp7fX0=", "!!!!",
        "e30",
    ] {
        v.push(get("page", &format!("/page?page_token={}", tok)));
        v.push(get("page", &format!("/page?limit=3&page_token={}", tok)));
        v.push(get("page", &format!("/page?page_token={}&min=3&kind=Green", tok)));
    }
    v.push(get("page", "/page?page_token"));
    v.push(get("page", "/page?page_token&limit=2"));
    v.push(req("bigform", "POST", b"/bigform", Some(FORM_CT), Framing::Cl, b"id=9&name=bob"));
    v.push(req("bigjson", "POST", b"/bigjson", Some(JSON_CT), Framing::Cl, br#"{"id":1,"s":"x","e":"Red"}"#));
}

fn cases(rng: &mut Rng, thorough: bool) -> Vec<Req> {
    let mut v: Vec<Req> = Vec::new();

    // ---------------------------------------------------------------- path
    let id_muts = [
        "abc", "1.5", "true", "%2012", "12%20", "0x10", "1e3", "9223372036854775808", "-9223372036854775809",
        "18446744073709551616", "-18446744073709551616", "%D9%A3", "%EF%BC%91%EF%BC%92", "1_000", "12abc", "--12",
        "%2B-12", "-", "%2B", "+12", "%2B12", "-0", "00012", "-00012", "9223372036854775807", "-9223372036854775808",
        "1%0012", "12%0A",
    ];
    for m in id_muts {
        v.push(get("p3", &format!("/path/{}/bob/true", m)));
    }
    // values that read like serde's own error messages (error paths that classify a
    // failure by the wording of its message must not be steered by the request)
    const ECHO: &[&str] = &[
        "missing%20field", "missing%20field%20%60id%60", "a%20missing%20field%20here", "missing%20field:%20id",
        "unknown%20variant", "duplicate%20field%20%60id%60", "invalid%20type", "unknown%20field%20%60id%60",
        "invalid%20length%200", "expected%20u32", "panicked", "internal%20error",
    ];
    for m in ECHO {
        v.push(get("p3", &format!("/path/{}/bob/true", m)));
        v.push(get("p3", &format!("/path/12/bob/{}", m)));
        v.push(get("wild", &format!("/wild/{}/a/b", m)));
        v.push(get("wild", &format!("/wild/x/{}", m)));
        v.push(get("q6", &format!("/query?n={}&s=x&b=true&e=Red&i=-3&c=z", m)));
        v.push(get("q6", &format!("/query?n=5&s=x&b=true&e={}&i=-3&c=z", m)));
        v.push(get("q6", &format!("/query?n=5&s=x&b=true&e=Red&i=-3&c=z&{}=1", m)));
    }
    for m in ["True", "TRUE", "1", "0", "yes", "t", "true%20", "truee", "tru", "false", "%74rue", "null"] {
        v.push(get("p3", &format!("/path/12/bob/{}", m)));
    }
    for m in ["%FF", "%C3%28", "%E2%82", "%2e", "%2E%2E", ".", "..", "%00", "a%2Fb", "%25", "%"] {
        v.push(get("p3", &format!("/path/12/{}/true", m)));
    }
    v.push(get("p3", "/path/12//true"));
    v.push(get("p3", "/path/12/bob"));
    v.push(get("p3", "/path/12/bob/true/extra"));
    v.push(get("p3", "/path//bob/true"));
    v.push(req("p3", "POST", b"/path/12/bob/true", None, Framing::Cl, b""));
    for m in ["-1", "4294967296", "x", "%20", "4294967295", "0", "1.0", "18446744073709551616"] {
        v.push(get("wild", &format!("/wild/{}/a/b", m)));
    }
    for m in ["%FF", "%2e%2e", "a/%2e/b", "a/%C0%AF/b", "ok/%E2%82%AC"] {
        v.push(get("wild", &format!("/wild/7/{}", m)));
    }

    // ---------------------------------------------------------------- chunked framing gone wrong
    // A body that cannot be de-chunked cannot be decoded into anything: a 4xx, on every
    // endpoint that reads its body, whatever the reason the coding is broken.
    let good_json: &[u8] = br#"{"id":12,"s":"x","o":true,"e":"Red"}"#;
    let broken: Vec<Vec<u8>> = {
        let n = good_json.len();
        let hexn = format!("{:x}", n);
        let mut v: Vec<Vec<u8>> = Vec::new();
        let cat = |parts: &[&[u8]]| -> Vec<u8> { parts.concat() };
        // not a size
        v.push(cat(&[b"zz\r\n", good_json, b"\r\n0\r\n\r\n"]));
        v.push(cat(&[b"-1\r\n", good_json, b"\r\n0\r\n\r\n"]));
        v.push(cat(&[b"0x", hexn.as_bytes(), b"\r\n", good_json, b"\r\n0\r\n\r\n"]));
        v.push(cat(&[b"\r\n", good_json, b"\r\n0\r\n\r\n"]));
        v.push(cat(&[b" ", hexn.as_bytes(), b"\r\n", good_json, b"\r\n0\r\n\r\n"]));
        // a size no integer type holds
        v.push(cat(&[b"fffffffffffffffffffff\r\n", good_json, b"\r\n0\r\n\r\n"]));
        // the size line ends in something else than CRLF
        v.push(cat(&[hexn.as_bytes(), b"\n", good_json, b"\r\n0\r\n\r\n"]));
        v.push(cat(&[hexn.as_bytes(), b"\r", good_json, b"\r\n0\r\n\r\n"]));
        v.push(cat(&[hexn.as_bytes(), b"\rX", good_json, b"\r\n0\r\n\r\n"]));
        // no CRLF after the chunk data
        v.push(cat(&[hexn.as_bytes(), b"\r\n", good_json, b"0\r\n\r\n"]));
        v.push(cat(&[hexn.as_bytes(), b"\r\n", good_json, b"XX0\r\n\r\n"]));
        v.push(cat(&[hexn.as_bytes(), b"\r\n", good_json, b"\n\n0\r\n\r\n"]));
        // the size is one short: the rest of the data stands where the next size belongs
        v.push(cat(&[format!("{:x}", n - 1).as_bytes(), b"\r\n", good_json, b"\r\n0\r\n\r\n"]));
        // garbage where the next size belongs, after a good first chunk
        v.push(cat(&[b"5\r\n", &good_json[..5], b"\r\nnot-a-size\r\n", &good_json[5..], b"\r\n0\r\n\r\n"]));
        v.push(cat(&[b"5\r\n", &good_json[..5], b"\r\n;ext\r\n", &good_json[5..], b"\r\n0\r\n\r\n"]));
        v
    };
    for w in &broken {
        for (ep, method, target, ct) in [
            ("j2", "POST", &b"/j2"[..], Some(&b"application/json"[..])),
            ("raw", "PUT", &b"/raw"[..], None),
            ("stream", "PUT", &b"/stream"[..], None),
            ("form", "POST", &b"/form"[..], Some(&b"application/x-www-form-urlencoded"[..])),
        ] {
            let mut r = req(ep, method, target, ct, Framing::BadCh, w);
            r.meta = "broken-chunked".into();
            v.push(r);
        }
    }

    // ---------------------------------------------------------------- query
    let base: Vec<(&str, &str)> = vec![("n", "5"), ("s", "x"), ("b", "true"), ("e", "Red"), ("i", "-3"), ("c", "z")];
    let build = |pairs: &[(String, String)]| -> String {
        format!("/query?{}", pairs.iter().map(|(k, v)| format!("{}={}", k, v)).collect::<Vec<_>>().join("&"))
    };
    let base_s: Vec<(String, String)> = base.iter().map(|(k, v)| (k.to_string(), v.to_string())).collect();
    v.push(get("q6", &build(&base_s)));
    let qmuts: &[(&str, &[&str])] = &[
        ("n", &["", "abc", "-1", "18446744073709551616", "18446744073709551615", "1.0", "+5", "%2B5", "5%20", "%205", "0x5", "5e0", "%D9%A5", "5,0", "5&5"]),
        ("s", &["", "%FF", "%00", "a%26b", "a+b"]),
        ("b", &["yes", "TRUE", "1", "", "True", "false", "tru"]),
        ("e", &["Blue", "red", "", "Red%20", "DarkBlue", "dark-blue", "Green", "dark%2Dblue", "0"]),
        ("i", &["128", "-129", "abc", "1.0", "127", "-128", "", "+127", "%2B127", "-%201"]),
        ("c", &["ab", "", "%F0%9F%98%80", "%C3%A9", "%FF", "e%CC%81", "%00"]),
    ];
    for (key, vals) in qmuts {
        for val in *vals {
            let pairs: Vec<(String, String)> =
                base_s.iter().map(|(k, x)| if k == key { (k.clone(), val.to_string()) } else { (k.clone(), x.clone()) }).collect();
            v.push(get("q6", &build(&pairs)));
        }
        // dropped
        let pairs: Vec<(String, String)> = base_s.iter().filter(|(k, _)| k != key).cloned().collect();
        v.push(get("q6", &build(&pairs)));
        // duplicated (same value, different value; adjacent and at the far end)
        for second in ["SAME", "other"] {
            for at_end in [false, true] {
                let mut pairs = base_s.clone();
                let orig = pairs.iter().find(|(k, _)| k == key).unwrap().clone();
                let dup = (orig.0.clone(), if second == "SAME" { orig.1.clone() } else { "7".to_string() });
                if at_end {
                    pairs.push(dup);
                } else {
                    let pos = pairs.iter().position(|(k, _)| k == key).unwrap();
                    pairs.insert(pos + 1, dup);
                }
                v.push(get("q6", &build(&pairs)));
            }
        }
        // key without "="
        let pairs: Vec<String> = base_s.iter().map(|(k, x)| if k == key { k.clone() } else { format!("{}={}", k, x) }).collect();
        v.push(get("q6", &format!("/query?{}", pairs.join("&"))));
    }
    for q in ["/query", "/query?", "/query?&&&", "/query?=5", "/query?n", "/query?N=5&s=x", "/query?n=5&s=x&zz=1&zz=2", "/query?n=5;s=x", "/query?n%3D5&s=x", "/query?n=5&s=x&n", "/query?%6E=5&s=x"] {
        v.push(get("q6", q));
    }

    // ---------------------------------------------------------------- JSON, byte level (j2, 42 bytes)
    let j2: &[u8] = br#"{"id":12,"s":"a\u00e9b","o":true,"e":"Red"}"#;
    v.push(post_json("j2", "/j2", j2));
    for cut in 0..j2.len() {
        v.push(post_json("j2", "/j2", &j2[..cut]));
    }
    let repl: &[u8] = b"\"{}[],:x0 \x00\xff\\-.etn";
    for pos in 0..j2.len() {
        for r in repl {
            if j2[pos] != *r {
                let mut b = j2.to_vec();
                b[pos] = *r;
                v.push(post_json("j2", "/j2", &b));
            }
        }
        // delete one byte
        let mut b = j2.to_vec();
        b.remove(pos);
        v.push(post_json("j2", "/j2", &b));
        // insert one byte
        for r in b"\",}x0 " {
            let mut b = j2.to_vec();
            b.insert(pos, *r);
            v.push(post_json("j2", "/j2", &b));
        }
    }
    // what follows the value
    for tail in [&b"x"[..], b" x", b"}", b"]", b",", b" {}", b"\x00", b"\xff", b"null", b"\n\n", b" \t\r\n", b"//c", b"{\"id\":1}"] {
        let mut b = j2.to_vec();
        b.extend_from_slice(tail);
        v.push(post_json("j2", "/j2", &b));
    }
    for head in [&b"\xef\xbb\xbf"[..], b"x", b" ", b"\n\t", b"[", b"{}", b","] {
        let mut b = head.to_vec();
        b.extend_from_slice(j2);
        v.push(post_json("j2", "/j2", &b));
    }

    // ---------------------------------------------------------------- JSON, structure level (json, B6)
    let fields: Vec<(&str, &str)> =
        vec![("id", "7"), ("name", "\"bob\""), ("flag", "true"), ("opt", "-5"), ("kind", "\"Green\""), ("tags", "[\"a\",\"b\"]")];
    let obj = |fs: &[(String, String)]| -> Vec<u8> {
        format!("{{{}}}", fs.iter().map(|(k, x)| format!("\"{}\":{}", k, x)).collect::<Vec<_>>().join(",")).into_bytes()
    };
    let fields_s: Vec<(String, String)> = fields.iter().map(|(k, x)| (k.to_string(), x.to_string())).collect();
    v.push(post_json("json", "/json", &obj(&fields_s)));
    let swaps = [
        "null", "true", "false", "0", "1", "-1", "1.5", "1e2", "-0", "\"x\"", "\"\"", "\"1\"", "\"true\"", "[]", "{}", "[1]",
        "[\"a\"]", "{\"a\":1}", "4294967295", "4294967296", "9223372036854775807", "9223372036854775808",
        "-9223372036854775808", "-9223372036854775809", "18446744073709551616", "1E400", "\"Red\"", "\"Blue\"", "\"red\"",
        "\"dark-blue\"", "{\"Red\":null}", "[\"a\",null]", "[\"a\",1]", "[[\"a\"]]", "\"\\ud800\"", "\"\\ud83d\\ude00\"", "01",
        "+1", "0x1", ".5", "1.", "tru", "nul", "'x'", "\"a\nb\"", "\"\\x\"",
    ];
    for (key, _) in &fields {
        for sw in swaps {
            let fs: Vec<(String, String)> =
                fields_s.iter().map(|(k, x)| if k == key { (k.clone(), sw.to_string()) } else { (k.clone(), x.clone()) }).collect();
            v.push(post_json("json", "/json", &obj(&fs)));
        }
        let fs: Vec<(String, String)> = fields_s.iter().filter(|(k, _)| k != key).cloned().collect();
        v.push(post_json("json", "/json", &obj(&fs)));
        for at_end in [false, true] {
            let mut fs = fields_s.clone();
            let orig = fs.iter().find(|(k, _)| k == key).unwrap().clone();
            if at_end {
                fs.push(orig);
            } else {
                let pos = fs.iter().position(|(k, _)| k == key).unwrap();
                fs.insert(pos, orig);
            }
            v.push(post_json("json", "/json", &obj(&fs)));
        }
        // key spelled differently
        for alt in [key.to_uppercase(), format!("{} ", key), format!("\\u00{:02x}{}", key.as_bytes()[0], &key[1..])] {
            let fs: Vec<(String, String)> =
                fields_s.iter().map(|(k, x)| if k == key { (alt.clone(), x.clone()) } else { (k.clone(), x.clone()) }).collect();
            v.push(post_json("json", "/json", &obj(&fs)));
        }
    }
    for top in [
        &b""[..], b" ", b"null", b"1", b"\"x\"", b"[]", b"{}", b"[7,\"bob\",true,-5,\"Green\",[\"a\",\"b\"]]",
        b"[7,\"bob\",true,null,\"Green\",[]]", b"[7,\"bob\",true,-5,\"Green\"]", b"[7,\"bob\",true,-5,\"Green\",[],1]",
        b"[7,\"bob\",true,-5,\"Green\",[]]x", b"{\"id\":7,\"name\":\"bob\",\"flag\":true,\"kind\":\"Green\",\"tags\":[]}garbage",
        b"{\"id\":7,\"name\":\"bob\",\"flag\":true,\"kind\":\"Green\",\"tags\":[]} {\"id\":8}",
        b"{\"id\":7,\"name\":\"bob\",\"flag\":true,\"kind\":\"Green\",\"tags\":[],}", b"{\"id\":7 \"name\":\"bob\"}",
        b"{id:7}", b"{\"id\":7,\"name\":\"bob\",\"flag\":true,\"kind\":\"Green\",\"tags\":[],\"zz\":{\"deep\":[1,2,{\"x\":null}]}}",
        b"{\"id\":7,\"name\":\"b\xffb\",\"flag\":true,\"kind\":\"Green\",\"tags\":[]}",
        b"{\"id\":7,\"name\":\"b\x01b\",\"flag\":true,\"kind\":\"Green\",\"tags\":[]}",
    ] {
        v.push(post_json("json", "/json", top));
    }

    // ---------------------------------------------------------------- content types
    let cts: Vec<Option<Vec<u8>>> = vec![
        None,
        Some(b"application/json".to_vec()),
        Some(b"APPLICATION/JSON".to_vec()),
        Some(b"application/json; charset=utf-8".to_vec()),
        Some(b"application/json \t ;x".to_vec()),
        Some(b"application/json;".to_vec()),
        Some(b"  application/json  ".to_vec()),
        Some(b"application/x-www-form-urlencoded".to_vec()),
        Some(b"Application/X-WWW-Form-Urlencoded;charset=UTF-8".to_vec()),
        Some(b"application/octet-stream".to_vec()),
        Some(b"multipart/form-data; boundary=x".to_vec()),
        Some(b"text/plain".to_vec()),
        Some(b"application/jsonx".to_vec()),
        Some(b"application/jso".to_vec()),
        Some(b"application".to_vec()),
        Some(b"application/ json".to_vec()),
        Some(b"json".to_vec()),
        Some(b"".to_vec()),
        Some(b";".to_vec()),
        Some(b"*/*".to_vec()),
        Some(b"application/json\xff".to_vec()),
        Some(b"application/json\xc3\xa9".to_vec()),
        Some(b"\xffapplication/json".to_vec()),
        Some(b"application/json; charset=\xe9".to_vec()),
        Some(b"application/json, text/plain".to_vec()),
    ];
    let form_body: &[u8] = b"id=9&name=bob&flag=true";
    for ct in &cts {
        v.push(req("json", "POST", b"/json", ct.as_deref(), Framing::Cl, &obj(&fields_s)));
        v.push(req("j2", "POST", b"/j2", ct.as_deref(), Framing::Cl, j2));
        v.push(req("form", "POST", b"/form", ct.as_deref(), Framing::Cl, form_body));
        // a form body on the JSON endpoint and vice versa
        v.push(req("json", "POST", b"/json", ct.as_deref(), Framing::Cl, form_body));
        v.push(req("form", "POST", b"/form", ct.as_deref(), Framing::Cl, j2));
        // an empty body is still judged by its content type: on an endpoint whose
        // (all-optional) type accepts it, on one that needs fields, and on a JSON endpoint
        v.push(req("formopt", "POST", b"/formopt", ct.as_deref(), Framing::Cl, b""));
        v.push(req("formopt", "POST", b"/formopt", ct.as_deref(), Framing::Cl, b"o=5&q=true"));
        v.push(req("form", "POST", b"/form", ct.as_deref(), Framing::Cl, b""));
        v.push(req("json", "POST", b"/json", ct.as_deref(), Framing::Cl, b""));
        v.push(req(
            "formopt",
            "POST",
            b"/formopt",
            ct.as_deref(),
            Framing::Ch { splits: vec![], exts: vec![], last_ext: vec![], trailers: vec![] },
            b"",
        ));
    }

    // ---------------------------------------------------------------- url-encoded body
    for body in [
        "id=9&name=bob&flag=true", "id=9&name=bob", "name=bob&id=9", "id=abc&name=bob", "id=-1&name=bob", "id=4294967296&name=bob",
        "id=4294967295&name=bob", "id=&name=bob", "name=bob", "id=9", "", "id=9&id=9&name=bob", "id=9&name=bob&name=bob",
        "id=9&name=bob&flag=yes", "id=9&name=bob&flag=", "id=9&name=bob&flag=true&flag=true", "id=9&name=bob&zz=1&zz=2",
        "id=+9&name=bob", "id=%2B9&name=bob", "id=9%20&name=bob", "id=9&name=%FF", "id=9;name=bob", "id%3D9&name=bob",
        "{\"id\":9,\"name\":\"bob\"}", "id=9&name", "id=9&name=bob&flag",
    ] {
        v.push(req("form", "POST", b"/form", Some(FORM_CT), Framing::Cl, body.as_bytes()));
    }
    // the same body under a chunked framing stays what it is
    v.push(req(
        "form",
        "POST",
        b"/form",
        Some(FORM_CT),
        Framing::Ch { splits: vec![1, 1, 1], exts: vec![], last_ext: vec![], trailers: vec![] },
        b"id=abc&name=bob",
    ));

    // ---------------------------------------------------------------- untyped body over the limit
    for n in [BODY_CAP - 1, BODY_CAP, BODY_CAP + 1, 3 * BODY_CAP] {
        let payload = vec![b'a'; n];
        v.push(req("raw", "PUT", b"/raw", None, Framing::Cl, &payload));
        v.push(req(
            "raw",
            "PUT",
            b"/raw",
            None,
            Framing::Ch { splits: vec![1000, 1000, 1000], exts: vec![], last_ext: vec![], trailers: vec![] },
            &payload,
        ));
        let body: Vec<u8> = format!("{{\"id\":7,\"name\":\"{}\",\"flag\":true,\"kind\":\"Green\",\"tags\":[]}}", "a".repeat(n.saturating_sub(58))).into_bytes();
        v.push(req("json", "POST", b"/json", Some(JSON_CT), Framing::Cl, &body));
    }

    // ---------------------------------------------------------------- multipart header
    let mp_body = multipart_body(b"XYZ", &[("f0".to_string(), b"data".to_vec())]);
    let mp_cts: Vec<Option<Vec<u8>>> = vec![
        Some(b"multipart/form-data; boundary=XYZ".to_vec()),
        Some(b"multipart/form-data; boundary=\"XYZ\"".to_vec()),
        Some(b"Multipart/Form-Data; charset=utf-8; BOUNDARY=XYZ; x=y".to_vec()),
        None,
        Some(b"multipart/form-data".to_vec()),
        Some(b"multipart/form-data;".to_vec()),
        Some(b"multipart/form-data; charset=utf-8".to_vec()),
        Some(b"multipart/form-data; boundary".to_vec()),
        Some(b"multipart/form-data; boundary=\"XYZ".to_vec()),
        Some(b"multipart/form-data; =XYZ".to_vec()),
        Some(b"multipart/form-data boundary=XYZ".to_vec()),
        Some(b"multipart/form-data ; boundary=XYZ".to_vec()),
        Some(b"multipart/form-data;\tboundary=XYZ".to_vec()),
        Some(b"multipart/form-data; boundary=XYZ ; a=b".to_vec()),
        Some(b"multipart/mixed; boundary=XYZ".to_vec()),
        Some(b"text/plain; boundary=XYZ".to_vec()),
        Some(b"application/json".to_vec()),
        Some(b"multipart; boundary=XYZ".to_vec()),
        Some(b"/form-data; boundary=XYZ".to_vec()),
        Some(b"multipart/form-data; boundary=XYZ\xff".to_vec()),
        Some(b"\xe9multipart/form-data; boundary=XYZ".to_vec()),
        Some(b"".to_vec()),
        Some(b"multipart/form-data+zip; boundary=XYZ".to_vec()),
    ];
    for ct in &mp_cts {
        let mut r = req("mp", "POST", b"/multipart", ct.as_deref(), Framing::Cl, &mp_body);
        r.meta = hex(b"XYZ");
        v.push(r);
    }

    // ---------------------------------------------------------------- three extractors on one endpoint
    let all_body = br#"{"nonce":"n1","seq":1}"#;
    for (target, body) in [
        ("/all/n1?q=n1", &all_body[..]),
        ("/all/n1?q=n1&k=5", all_body),
        ("/all/n1", all_body),
        ("/all/n1?k=5", all_body),
        ("/all/n1?q=n1&k=x", all_body),
        ("/all/n1?q=n1&q=n1", all_body),
        ("/all/n1?q=n1", b"{\"nonce\":\"n1\"}"),
        ("/all/n1?q=n1", b"{\"nonce\":\"n1\",\"seq\":-1}"),
        ("/all/n1?q=n1", b"{\"nonce\":\"n1\",\"seq\":1"),
        ("/all/%FF?q=n1", all_body),
        ("/all/n1?k=x", b"{"),
    ] {
        v.push(post_json("all", target, body));
    }

    // ---------------------------------------------------------------- random single faults
    let extra = if thorough { 20000 } else { 2000 };
    for _ in 0..extra {
        match rng.below(3) {
            0 => {
                // one random byte edit of the JSON body
                let mut b = obj(&fields_s);
                let pos = rng.below(b.len() as u64) as usize;
                match rng.below(3) {
                    0 => b[pos] = rng.below(256) as u8,
                    1 => {
                        b.remove(pos);
                    }
                    _ => b.insert(pos, rng.below(256) as u8),
                }
                v.push(post_json("json", "/json", &b));
            }
            1 => {
                // one query value replaced by a random scalar-ish string
                let vals = ["", "0", "-1", "255", "256", "1e1", "true", "False", "Red", "green", "é", "%", "a b", "18446744073709551616"];
                let key = base[rng.below(base.len() as u64) as usize].0;
                let val = *rng.pick(&vals);
                let pairs: Vec<(String, String)> = base_s
                    .iter()
                    .map(|(k, x)| if k == key { (k.clone(), pct_encode(val.as_bytes())) } else { (k.clone(), x.clone()) })
                    .collect();
                v.push(get("q6", &build(&pairs)));
            }
            _ => {
                let vals = ["", "0", "-1", "1.0", "9223372036854775808", "abc", "true", "%20", "%FF", "12"];
                let val = *rng.pick(&vals);
                match rng.below(3) {
                    0 => v.push(get("p3", &format!("/path/{}/bob/true", val))),
                    1 => v.push(get("p3", &format!("/path/12/bob/{}", val))),
                    _ => v.push(get("wild", &format!("/wild/{}/x", val))),
                }
            }
        }
    }
    v
}

// ------------------------------------------------------------ function level, inside catch_unwind

use dropshot::verif_hooks as hooks;
use serde::de::DeserializeOwned;
use serde::Serialize;
use std::collections::BTreeMap;

#[derive(Clone)]
enum VV {
    S(String),
    C(Vec<String>),
}

fn entries_field(m: &BTreeMap<String, VV>) -> String {
    if m.is_empty() {
        return "_".into();
    }
    m.iter()
        .map(|(k, v)| match v {
            VV::S(s) => format!("{}=S{}", hex(k.as_bytes()), hex(s.as_bytes())),
            VV::C(c) => {
                let mut t = format!("{}=C{}", hex(k.as_bytes()), c.len());
                for x in c {
                    t.push('/');
                    t.push_str(&hex(x.as_bytes()));
                }
                t
            }
        })
        .collect::<Vec<_>>()
        .join(",")
}

/// The three hooks on one map; a panic in any of them is reported as `panic`.
fn run_hooks<T: DeserializeOwned + Serialize>(m: &BTreeMap<String, VV>) -> [(&'static str, String); 3] {
    let vars: BTreeMap<String, hooks::VariableValue> = m
        .iter()
        .map(|(k, v)| {
            (
                k.clone(),
                match v {
                    VV::S(s) => hooks::VariableValue::String(s.clone()),
                    VV::C(c) => hooks::VariableValue::Components(c.clone()),
                },
            )
        })
        .collect();
    let strings: Option<BTreeMap<String, String>> = m
        .iter()
        .map(|(k, v)| match v {
            VV::S(s) => Some((k.clone(), s.clone())),
            VV::C(_) => None,
        })
        .collect();
    let res = |r: Result<Result<T, String>, String>| match r {
        Ok(Ok(v)) => format!("ok {}", canon_of(&v)),
        Ok(Err(msg)) => format!("err {}", classify(&msg)),
        Err(_) => "panic".to_string(),
    };
    let v2 = vars.clone();
    let a = res(catch(std::panic::AssertUnwindSafe(|| hooks::from_map_vars::<T>(&vars))));
    let b = match strings {
        Some(sm) => res(catch(std::panic::AssertUnwindSafe(|| hooks::from_map_strings::<T>(&sm)))),
        None => "skip".to_string(),
    };
    let c = match catch(std::panic::AssertUnwindSafe(|| hooks::http_extract_path_params::<T>(&v2))) {
        Ok(Ok(v)) => format!("ok {}", canon_of(&v)),
        Ok(Err(e)) => format!("err {}", e.status_code.as_u16()),
        Err(_) => "panic".to_string(),
    };
    [("vars", a), ("strings", b), ("path", c)]
}

fn fl_stream(out: &mut Out, id: &mut u64) {
    // (shape, valid entries); the long value replaces one entry at a time
    let bases: Vec<(u32, Vec<(&str, &str)>)> = vec![
        (0, vec![("a", "1"), ("b", "2"), ("c", "3"), ("d", "4")]),
        (1, vec![("a", "-1"), ("b", "-2"), ("c", "-3"), ("d", "-4")]),
        (2, vec![("s", "x"), ("b", "true"), ("c", "z")]),
        (3, vec![("o", "1"), ("p", "x"), ("q", "true")]),
        (4, vec![("e", "Red")]),
        (8, vec![("oe", "Green"), ("oi", "-9"), ("name", "n")]),
        (20, vec![("u", "7"), ("i", "-5"), ("b", "true"), ("c", "c"), ("e", "Red")]),
        (21, vec![("min", "3"), ("kind", "Red"), ("flag", "false")]),
    ];
    let mut vals = long_values();
    vals.extend(huge_values());
    for (label, val) in &vals {
        for (shape, base) in &bases {
            for (key, _) in base {
                if (*shape == 2 && *key == "s") || (*shape == 3 && *key == "p") || (*shape == 8 && *key == "name") {
                    continue; // a String field: not ill-typed
                }
                let m: BTreeMap<String, VV> = base
                    .iter()
                    .map(|(k, v)| (k.to_string(), VV::S(if k == key { val.clone() } else { v.to_string() })))
                    .collect();
                let rs = match shape {
                    0 => run_hooks::<U4>(&m),
                    1 => run_hooks::<I4>(&m),
                    2 => run_hooks::<T3>(&m),
                    3 => run_hooks::<O3>(&m),
                    4 => run_hooks::<E1>(&m),
                    8 => run_hooks::<OE3>(&m),
                    20 => run_hooks::<SC5>(&m),
                    _ => run_hooks::<ScanP>(&m),
                };
                for (hook, r) in rs {
                    if r == "skip" {
                        continue;
                    }
                    *id += 1;
                    out.line(&format!("fl {} {} {} {}.{} {} => {}", id, hook, shape, key, label, entries_field(&m), r));
                }
            }
        }
        // inside a wildcard's components, for Vec<u16>, and as a single value where a sequence is needed
        for comps in [vec!["1".to_string(), val.clone()], vec![val.clone()]] {
            let m: BTreeMap<String, VV> = [("v".to_string(), VV::C(comps))].into_iter().collect();
            for (hook, r) in run_hooks::<V1>(&m) {
                if r == "skip" {
                    continue;
                }
                *id += 1;
                out.line(&format!("fl {} {} 11 v.{} {} => {}", id, hook, label, entries_field(&m), r));
            }
        }
        let m: BTreeMap<String, VV> = [("v".to_string(), VV::S(val.clone()))].into_iter().collect();
        for (hook, r) in run_hooks::<V1>(&m) {
            *id += 1;
            out.line(&format!("fl {} {} 11 v.{} {} => {}", id, hook, label, entries_field(&m), r));
        }
    }
}

fn main() {
    quiet_panics();
    let mut out = Out::new();
    let mut fid = 0u64;
    fl_stream(&mut out, &mut fid);
    out.flush();
    let mut rng = Rng::from_env(10);
    let mut list = cases(&mut rng, is_thorough());
    long_cases(&mut list);
    // the verdict must not depend on how the body is framed: a third of the
    // body-carrying cases go out chunked (random sizes, extensions, trailers)
    for rq in list.iter_mut() {
        if matches!(rq.framing, Framing::Cl) && !rq.payload.is_empty() && rq.payload.len() <= 6000 && rng.chance(1, 3) {
            rq.framing = gen_framing(&mut rng, rq.payload.len());
        }
    }
    let rt = tokio::runtime::Builder::new_multi_thread().worker_threads(4).enable_all().build().unwrap();
    let ctx = SrvCtx::new();
    let server = rt.block_on(async {
        start_server(make_api(), ctx.clone(), ServerOpts { default_request_body_max_bytes: BODY_CAP, ..Default::default() })
    });
    let addr = server.local_addr();
    let _ = PLAIN_ADDR.set(addr);
    let mut id = fid;
    for rq in &list {
        let (port, got, delta, followup) = run_case(addr, &ctx, rq);
        id += 1;
        out.line(&format!(
            "{} => {}",
            rq.line_input("bad", id),
            got.line_output(port, &delta.to_string(), if followup { "1" } else { "0" })
        ));
    }
    // a request that is refused for its path or query is refused at once: the client may still
    // be sending its body (here: the last bytes never come, the connection stays open)
    {
        let body = br#"{"nonce":"pending","seq":7}"#;
        let mut pending: Vec<Req> = Vec::new();
        for target in ["/all/n1?q=x&k=notanumber", "/all/n1?k=5", "/all/n1?q=x&q=y", "/all/n1?q=x&k=4294967296"] {
            for framing in [Framing::Cl, Framing::Ch { splits: vec![9], exts: vec![], last_ext: vec![], trailers: vec![] }] {
                let mut r = req("all", "POST", target.as_bytes(), Some(b"application/json"), framing, body);
                r.meta = "pending-body".into();
                pending.push(r);
            }
        }
        for rq in &pending {
            let before = ctx.count(rq.ep);
            let wire = rq.wire();
            let mut got = digest(None);
            let mut port = 0;
            if let Ok(mut s) = connect_long(addr) {
                port = s.local_addr().map(|a| a.port()).unwrap_or(0);
                let _ = s.set_read_timeout(Some(std::time::Duration::from_secs(8)));
                // everything but the last seven bytes of the body
                if s.write_all(&wire[..wire.len() - 7]).is_ok() {
                    let mut rr = RespReader::new(s.try_clone().expect("clone"));
                    got = digest(rr.read_response(false));
                }
            }
            let delta = ctx.count(rq.ep) - before;
            let fresh_ok = single(addr, &get("p3", "/path/1/f/true")).resp.map(|r| r.status == 200).unwrap_or(false);
            id += 1;
            out.line(&format!(
                "{} => {}",
                rq.line_input("bad", id),
                got.line_output(port, &delta.to_string(), if fresh_ok { "1" } else { "0" })
            ));
        }
    }
    // the same refusals over HTTP/2: every tenth case an HTTP/2 client can express, one request
    // per connection so that handler entries are attributed exactly (no follow-up: field `1`)
    let h2_cases: Vec<&Req> = list.iter().filter(|r| h2_expressible(r)).step_by(10).collect();
    for rq in h2_cases {
        let before = ctx.count(rq.ep);
        let a = h2_batch(&rt, addr, std::slice::from_ref(rq)).pop().unwrap();
        let delta = ctx.count(rq.ep) - before;
        let mut got = digest(a.resp);
        // K10 (a schedule inside multer, see extract_common::mp_transient) is C09's business:
        // here the answer of the resend stands for the request
        if let Some(again) = mp_transient(rq, &mut got) {
            got = again;
        }
        h2_normalise_echo(&mut got);
        id += 1;
        out.line(&format!("{} => {}", rq.line_input("bad2", id), got.line_output(a.port, &delta.to_string(), "1")));
    }
    out.flush();
    rt.block_on(async {
        let _ = server.close().await;
    });
}
