//! C18 harness: hostile or broken traffic cannot take the server down.
//!
//! Two kinds of lines:
//!
//!   fc  <id> <mode> <kind> <sent> => <recv-hex> rr=<n>:<all well_formed 0|1>:<status,status,…|->
//!       one faulty (or valid) raw-TCP connection: the bytes sent (segments
//!       joined by '.', a segment is hex or `<hexbyte>x<count>`), the bytes
//!       received until EOF, and what `dsharness::server::RespReader` makes
//!       of them;
//!   seq <id> <mode> n=<connections> <event log> => health=<0|1> closed=<0|1>
//!       a sequence of 1..50 such connections (some concurrent) interleaved with
//!       valid requests and panicking handlers against one server, followed by
//!       a health request on a FRESH connection.
//!
//! The Lean driver validates `recv` with `Isolation.validResponses`, classifies
//! `sent` with `Isolation.countRequests` (how many well-formed requests, is
//! anything left over) and runs `Isolation.acceptsQuiescent` on the event log.

#[path = "../lc_common.rs"]
mod lc;

use dropshot::HandlerTaskMode;
use dsharness::server::{build_chunked_request, build_request, RespReader};
use dsharness::util::*;
use lc::*;
use std::io::{Read, Write};
use std::net::{SocketAddr, TcpListener};
use std::sync::atomic::{AtomicUsize, Ordering};
use std::sync::{Arc, Mutex};
use std::time::Duration;

#[derive(Clone, Debug)]
enum Seg {
    Raw(Vec<u8>),
    Rep(u8, usize),
}

#[derive(Clone, Debug, Default)]
struct Sent(Vec<Seg>);

impl Sent {
    fn raw(b: &[u8]) -> Sent {
        Sent(vec![Seg::Raw(b.to_vec())])
    }
    fn bytes(&self) -> Vec<u8> {
        let mut v = Vec::new();
        for s in &self.0 {
            match s {
                Seg::Raw(b) => v.extend_from_slice(b),
                Seg::Rep(b, n) => v.extend(std::iter::repeat(*b).take(*n)),
            }
        }
        v
    }
    fn enc(&self) -> String {
        let parts: Vec<String> = self
            .0
            .iter()
            .filter(|s| !matches!(s, Seg::Raw(b) if b.is_empty()))
            .map(|s| match s {
                Seg::Raw(b) => hex(b),
                Seg::Rep(b, n) => format!("{:02x}x{}", b, n),
            })
            .collect();
        if parts.is_empty() {
            "-".into()
        } else {
            parts.join(".")
        }
    }
}

#[derive(Clone, Copy, Debug, PartialEq)]
enum End {
    /// send, FIN, read everything until the server closes.  For input that is
    /// (or may be) incomplete: the FIN tells the server nothing more will come.
    /// hyper treats a FIN as the client being gone, so a request still being
    /// processed at that moment is dropped without a response.
    ReadToEof,
    /// send, read everything until the server closes (the last request carries
    /// `connection: close`, or the server closes after its error response)
    Wait,
    /// send, read; if the server is still silent after 150 ms send FIN and go on
    /// reading.  Either path is a valid experiment; the pause only makes it
    /// likely that the server closes first (no client socket left in TIME_WAIT).
    WaitThenFin,
    /// like `WaitThenFin` with a pause of so many milliseconds
    WaitFor(u64),
    /// send, then give the connection up without reading
    Abrupt(How),
}

#[derive(Clone, Debug)]
struct Case {
    /// class label (driver histogram)
    kind: String,
    /// fault kind in the trace (`None`: a valid request)
    fault: Option<&'static str>,
    sent: Sent,
    end: End,
}

const CLOSE: (&str, &str) = ("connection", "close");

fn v_get() -> Vec<u8> {
    build_request("GET", "/health", &[CLOSE], b"")
}
fn v_post() -> Vec<u8> {
    build_request("POST", "/echo", &[CLOSE], b"hello world")
}
fn v_chunked() -> Vec<u8> {
    build_chunked_request("POST", "/echo", &[CLOSE], b"hello world", &[5])
}
fn get_close(path: &str) -> Vec<u8> {
    build_request("GET", path, &[CLOSE], b"")
}

thread_local! {
    static REPLAY: std::cell::RefCell<Option<TcpListener>> = std::cell::RefCell::new(None);
}

fn replay_listener_addr() -> SocketAddr {
    REPLAY.with(|l| {
        let mut l = l.borrow_mut();
        if l.is_none() {
            for _ in 0..100 {
                if let Ok(x) = TcpListener::bind("127.0.0.1:0") {
                    *l = Some(x);
                    break;
                }
                std::thread::sleep(Duration::from_millis(100));
            }
        }
        l.as_ref().expect("loopback listener").local_addr().unwrap()
    })
}

/// Feed the received bytes to `RespReader` through a loopback connection (one
/// listener per thread; the connection is reset afterwards so that no socket
/// lingers in TIME_WAIT).
fn reader_verdict(rt: &tokio::runtime::Runtime, recv: &[u8]) -> String {
    if recv.is_empty() {
        return "0:1:-".into();
    }
    let a = replay_listener_addr();
    let Some(s) = open(a) else { return "0:0:unconnected".into() };
    let acc = REPLAY.with(|l| l.borrow().as_ref().unwrap().accept());
    let Ok((mut w, _)) = acc else { return "0:0:unaccepted".into() };
    let data = recv.to_vec();
    // responses are small; a writer thread only for the rare large one
    let t = if data.len() > 32768 {
        Some(std::thread::spawn(move || {
            let _ = w.write_all(&data);
        }))
    } else {
        let _ = w.write_all(&data);
        drop(w);
        None
    };
    let _ = s.set_read_timeout(Some(Duration::from_secs(10)));
    let keep = s.try_clone();
    let mut rr = RespReader::new(s);
    let mut sts = Vec::new();
    let mut all = true;
    while let Some(r) = rr.read_response(false) {
        if !r.well_formed {
            all = false;
            break;
        }
        sts.push(r.status.to_string());
    }
    if let Some(t) = t {
        let _ = t.join();
    }
    drop(rr);
    if let Ok(k) = keep {
        close_rst(rt, k);
    }
    format!("{}:{}:{}", sts.len(), all as u8, if sts.is_empty() { "-".to_string() } else { sts.join(",") })
}

/// Run one connection; returns the bytes received (empty for abrupt ends).
fn run_conn(rt: &tokio::runtime::Runtime, addr: SocketAddr, case: &Case) -> Option<Vec<u8>> {
    // the server runs inside this process: should a case bring it down (abort), the last lines
    // of stderr name the connections that were in progress (they end up in the replay file)
    {
        let sent = case.sent.enc();
        eprintln!("in-progress kind={} sent={}", case.kind, if sent.len() > 300 { &sent[..300] } else { &sent });
    }
    let mut s = open(addr)?;
    let _ = s.set_read_timeout(Some(Duration::from_secs(8)));
    let bytes = case.sent.bytes();
    // The server may answer (431, 400) and close while we are still writing.
    let _ = s.write_all(&bytes);
    match case.end {
        End::Abrupt(how) => {
            let k = disconnect(rt, s, how);
            drop(k);
            Some(Vec::new())
        }
        End::ReadToEof | End::Wait | End::WaitThenFin | End::WaitFor(_) => {
            let pause = match case.end {
                End::WaitFor(ms) => Some(ms),
                End::WaitThenFin => Some(150),
                _ => None,
            };
            let mut fin_sent = false;
            if case.end == End::ReadToEof {
                let _ = s.shutdown(std::net::Shutdown::Write);
                fin_sent = true;
            }
            if let Some(ms) = pause {
                let _ = s.set_read_timeout(Some(Duration::from_millis(ms)));
            }
            let mut recv = Vec::new();
            let mut buf = [0u8; 16384];
            loop {
                match s.read(&mut buf) {
                    Ok(0) => break,
                    Ok(n) => recv.extend_from_slice(&buf[..n]),
                    Err(e) if e.kind() == std::io::ErrorKind::Interrupted => continue,
                    Err(e)
                        if pause.is_some()
                            && !fin_sent
                            && matches!(e.kind(), std::io::ErrorKind::WouldBlock | std::io::ErrorKind::TimedOut) =>
                    {
                        let _ = s.shutdown(std::net::Shutdown::Write);
                        fin_sent = true;
                        let _ = s.set_read_timeout(Some(Duration::from_secs(8)));
                    }
                    // reset (the server closed with our bytes unread) or timeout
                    Err(_) => break,
                }
            }
            // everything there was to read has been read
            close_rst(rt, s);
            Some(recv)
        }
    }
}

// ---- HTTP/2 (prior knowledge): the client preface and what may follow it

const H2_PREFACE: &[u8] = b"PRI * HTTP/2.0\r\n\r\nSM\r\n\r\n";

fn h2_frame(len: usize, ty: u8, flags: u8, stream: u32, payload: &[u8]) -> Vec<u8> {
    let mut v = vec![(len >> 16) as u8, (len >> 8) as u8, len as u8, ty, flags];
    v.extend_from_slice(&stream.to_be_bytes());
    v.extend_from_slice(payload);
    v
}

/// The frames in `recv` as `type.firstPayloadByte` (256 = empty payload); `None` if `recv`
/// is not a sequence of complete frames starting with SETTINGS.
fn h2_verdict(recv: &[u8]) -> String {
    let mut i = 0usize;
    let mut tys: Vec<String> = Vec::new();
    let mut ok = true;
    while i < recv.len() {
        if recv.len() - i < 9 {
            ok = false;
            break;
        }
        let len = ((recv[i] as usize) << 16) | ((recv[i + 1] as usize) << 8) | recv[i + 2] as usize;
        if recv[i + 5] >= 128 || recv.len() - i - 9 < len {
            ok = false;
            break;
        }
        tys.push(format!("{}.{}", recv[i + 3], if len > 0 { recv[i + 9] as u32 } else { 256 }));
        i += 9 + len;
    }
    if ok && !tys.is_empty() && !tys[0].starts_with("4.") {
        ok = false;
    }
    format!("{}:{}:{}", tys.len(), ok as u8, if tys.is_empty() || !ok { "-".to_string() } else { tys.join(",") })
}

fn h2_cases() -> Vec<Case> {
    let with = |kind: &str, fault: Option<&'static str>, rest: Vec<u8>, end: End| {
        let mut b = H2_PREFACE.to_vec();
        b.extend_from_slice(&rest);
        Case { kind: format!("h2-{}", kind), fault, sent: Sent::raw(&b), end }
    };
    let settings = h2_frame(0, 4, 0, 0, &[]);
    let cat = |parts: &[&[u8]]| -> Vec<u8> { parts.iter().flat_map(|p| p.iter().cloned()).collect() };
    let mut get = vec![0x82u8, 0x86, 0x04, 0x07];
    get.extend_from_slice(b"/health");
    get.extend_from_slice(&[0x01, 0x09]);
    get.extend_from_slice(b"localhost");
    vec![
        with("preface-only", Some("trunc"), vec![], End::WaitThenFin),
        with("garbage", Some("garbage"), (0..60u32).map(|i| (i * 37 + 11) as u8).collect(), End::WaitThenFin),
        with("bad-settings-length", Some("badhdr"), h2_frame(5, 4, 0, 0, &[0, 1, 0, 0, 16]), End::WaitThenFin),
        with("settings-on-stream", Some("badhdr"), h2_frame(0, 4, 0, 3, &[]), End::WaitThenFin),
        with("huge-frame", Some("oversize"), cat(&[&settings, &h2_frame(0xff_ffff, 0, 0, 1, &[1, 2, 3, 4, 5, 6, 7, 8, 9, 10])]), End::WaitThenFin),
        with("bad-hpack", Some("badhdr"), cat(&[&settings, &h2_frame(5, 1, 0x05, 1, &[0xff, 0xff, 0xff, 0xff, 0xff])]), End::WaitThenFin),
        with("zero-window-update", Some("badhdr"), cat(&[&settings, &h2_frame(4, 8, 0, 0, &[0, 0, 0, 0])]), End::WaitThenFin),
        with("ping-wrong-length", Some("badhdr"), cat(&[&settings, &h2_frame(3, 6, 0, 0, &[1, 2, 3])]), End::WaitThenFin),
        with("data-on-idle-stream", Some("badhdr"), cat(&[&settings, &h2_frame(4, 0, 1, 5, b"data")]), End::WaitThenFin),
        with("truncated-headers", Some("trunc"), cat(&[&settings, &h2_frame(get.len(), 1, 0x05, 1, &get[..6])]), End::WaitThenFin),
        with("valid-get", None, cat(&[&settings, &h2_frame(get.len(), 1, 0x05, 1, &get)]), End::WaitFor(1500)),
    ]
}

/// Every `fc` line produced so far, in the order produced: what the watchdog prints when the
/// run does not come to an end (a server that stopped answering makes every later probe wait
/// for its timeout).
static FC_SO_FAR: Mutex<Vec<String>> = Mutex::new(Vec::new());

fn fc_line(rt: &tokio::runtime::Runtime, id: &str, mode: HandlerTaskMode, case: &Case, recv: &[u8]) -> String {
    let rr = if case.kind.trim_start_matches("tls-").starts_with("h2-") { h2_verdict(recv) } else { reader_verdict(rt, recv) };
    let line = format!("fc {} {} {} {} => {} rr={}", id, mode_name(mode), case.kind, case.sent.enc(), hex(recv), rr);
    if let Ok(mut all) = FC_SO_FAR.lock() {
        all.push(line.clone());
    }
    line
}

fn random_case(rng: &mut Rng) -> Case {
    let valid = [v_get(), v_post(), v_chunked()];
    match rng.below(3) {
        0 => {
            let n = rng.range(1, 300) as usize;
            let b: Vec<u8> = (0..n).map(|_| rng.below(256) as u8).collect();
            Case { kind: "random-bytes".into(), fault: Some("garbage"), sent: Sent::raw(&b), end: End::WaitThenFin }
        }
        1 => {
            // text-like: tokens, spaces, CRLFs, colons
            let n = rng.range(1, 200) as usize;
            let alphabet = b"GETPOST /HTP1.:\r\n\r\n abcxyz019%-_";
            let b: Vec<u8> = (0..n).map(|_| *rng.pick(alphabet)).collect();
            Case { kind: "random-text".into(), fault: Some("garbage"), sent: Sent::raw(&b), end: End::WaitThenFin }
        }
        _ => {
            let mut b = rng.pick(&valid).clone();
            for _ in 0..rng.range(1, 3) {
                let i = rng.below(b.len() as u64) as usize;
                b[i] = rng.below(256) as u8;
            }
            Case { kind: "random-mutation".into(), fault: Some("garbage"), sent: Sent::raw(&b), end: End::WaitThenFin }
        }
    }
}

fn header_req(lines: &[&[u8]]) -> Vec<u8> {
    let mut v = Vec::new();
    for (i, l) in lines.iter().enumerate() {
        v.extend_from_slice(l);
        v.extend_from_slice(b"\r\n");
        if i == 0 {
            v.extend_from_slice(b"connection: close\r\n");
        }
    }
    v.extend_from_slice(b"\r\n");
    v
}

fn corpus(thorough: bool) -> Vec<Case> {
    let mut cs = Vec::new();
    let valid: [(&str, Vec<u8>); 3] = [("get", v_get()), ("post-cl", v_post()), ("post-chunked", v_chunked())];
    // valid requests, alone and pipelined
    for (n, v) in &valid {
        cs.push(Case { kind: format!("valid-{}", n), fault: None, sent: Sent::raw(v), end: End::Wait });
    }
    // valid requests whose logged header (`log_headers`) carries long, non-ASCII and non-UTF-8
    // values: what a client puts into a header the server logs must not matter to anyone else
    let trace_values: Vec<(&str, Vec<u8>)> = vec![
        ("ascii300", vec![b'a'; 300]),
        ("len256", vec![b'a'; 256]),
        ("split2", [vec![b'a'; 255], "\u{e9}".as_bytes().to_vec()].concat()),
        ("split3", [vec![b'a'; 254], "\u{20ac}".as_bytes().to_vec(), vec![b'z'; 10]].concat()),
        ("split4", [vec![b'a'; 253], "\u{1f600}".as_bytes().to_vec(), vec![b'z'; 40]].concat()),
        ("split4b", [vec![b'a'; 255], "\u{1f600}".as_bytes().to_vec()].concat()),
        ("latin1", [vec![b'a'; 250], vec![0xe9, 0xff, 0xfe, 0x80, 0xc3, 0x28], vec![b'b'; 20]].concat()),
        ("multibyte1000", "\u{e9}\u{20ac}\u{1f600}".repeat(110).into_bytes()),
    ];
    for (n, val) in &trace_values {
        let mut v = b"GET /health HTTP/1.1\r\nhost: localhost\r\nconnection: close\r\nx-trace: ".to_vec();
        v.extend_from_slice(val);
        v.extend_from_slice(b"\r\n\r\n");
        cs.push(Case { kind: format!("valid-loghdr-{}", n), fault: None, sent: Sent::raw(&v), end: End::Wait });
    }
    let mut two = get("/health");
    two.extend_from_slice(&build_request("POST", "/echo", &[], b"first"));
    two.extend_from_slice(&v_chunked());
    cs.push(Case { kind: "valid-pipelined".into(), fault: None, sent: Sent::raw(&two), end: End::Wait });
    // every truncation point of every valid request
    for (n, v) in &valid {
        for k in 0..v.len() {
            cs.push(Case { kind: format!("trunc-{}", n), fault: Some("trunc"), sent: Sent::raw(&v[..k]), end: End::ReadToEof });
        }
    }
    // valid request followed by garbage on the same connection
    let mut vg = get("/health");
    vg.extend_from_slice(b"\x00\x01garbage\r\n\r\n");
    cs.push(Case { kind: "mixed-valid-then-garbage".into(), fault: Some("garbage"), sent: Sent::raw(&vg), end: End::Wait });
    // oversized
    let over = |kind: &str, segs: Vec<Seg>| Case { kind: kind.into(), fault: Some("oversize"), sent: Sent(segs), end: End::Wait };
    cs.push(over("oversize-uri-70000", vec![Seg::Raw(b"GET /".to_vec()), Seg::Rep(b'a', 70000), Seg::Raw(b" HTTP/1.1\r\nhost: localhost\r\nconnection: close\r\n\r\n".to_vec())]));
    cs.push(over("big-uri-10000", vec![Seg::Raw(b"GET /".to_vec()), Seg::Rep(b'a', 10000), Seg::Raw(b" HTTP/1.1\r\nhost: localhost\r\nconnection: close\r\n\r\n".to_vec())]));
    for n in [101usize, 150] {
        let mut v = b"GET /health HTTP/1.1\r\nconnection: close\r\n".to_vec();
        for i in 0..n {
            v.extend_from_slice(format!("x-h{}: v\r\n", i).as_bytes());
        }
        v.extend_from_slice(b"\r\n");
        cs.push(over(&format!("oversize-headers-{}", n), vec![Seg::Raw(v)]));
    }
    {
        let mut v = b"GET /health HTTP/1.1\r\nconnection: close\r\n".to_vec();
        for i in 0..90 {
            v.extend_from_slice(format!("x-h{}: v\r\n", i).as_bytes());
        }
        v.extend_from_slice(b"\r\n");
        cs.push(over("big-headers-90", vec![Seg::Raw(v)]));
    }
    cs.push(over("oversize-header-900000", vec![Seg::Raw(b"GET /health HTTP/1.1\r\nconnection: close\r\nx-big: ".to_vec()), Seg::Rep(b'v', 900000), Seg::Raw(b"\r\n\r\n".to_vec())]));
    // between hyper's buffer limit and twice that: accepted or 431 depending on how the reads fall
    cs.push(over("gray-header-430000", vec![Seg::Raw(b"GET /health HTTP/1.1\r\nconnection: close\r\nx-big: ".to_vec()), Seg::Rep(b'v', 430000), Seg::Raw(b"\r\n\r\n".to_vec())]));
    cs.push(over("big-header-100000", vec![Seg::Raw(b"GET /health HTTP/1.1\r\nconnection: close\r\nx-big: ".to_vec()), Seg::Rep(b'v', 100000), Seg::Raw(b"\r\n\r\n".to_vec())]));
    for n in [1024usize, 1025, 2000, 100000] {
        let kind = if n <= 1024 { "big-body-cl".to_string() } else { format!("oversize-body-cl-{}", n) };
        cs.push(over(&kind, vec![Seg::Raw(format!("POST /echo HTTP/1.1\r\nhost: localhost\r\nconnection: close\r\ncontent-length: {}\r\n\r\n", n).into_bytes()), Seg::Rep(b'b', n)]));
    }
    // a declared length far beyond anything that will ever be sent (or could be held): a few
    // bytes follow, then the client gives up
    for (label, n) in [("2e62", "4611686018427387904"), ("i64max", "9223372036854775807"), ("u64max", "18446744073709551615"), ("1e12", "1000000000000"), ("2e32", "4294967296")] {
        for target in ["/echo", "/wb/7"] {
            cs.push(Case {
                kind: format!("oversize-claimed-{}", label),
                fault: Some("oversize"),
                sent: Sent(vec![
                    Seg::Raw(format!("POST {} HTTP/1.1\r\nhost: localhost\r\ncontent-length: {}\r\n\r\n", target, n).into_bytes()),
                    Seg::Rep(b'z', 40),
                ]),
                end: End::ReadToEof,
            });
        }
    }
    cs.push(over(
        "oversize-body-chunked-2000",
        vec![
            Seg::Raw(b"POST /echo HTTP/1.1\r\nhost: localhost\r\nconnection: close\r\ntransfer-encoding: chunked\r\n\r\n3e8\r\n".to_vec()),
            Seg::Rep(b'c', 1000),
            Seg::Raw(b"\r\n3e8\r\n".to_vec()),
            Seg::Rep(b'c', 1000),
            Seg::Raw(b"\r\n0\r\n\r\n".to_vec()),
        ],
    ));
    // invalid header bytes / framing headers / request lines
    let bad = |kind: &str, b: Vec<u8>| Case { kind: format!("badhdr-{}", kind), fault: Some("badhdr"), sent: Sent::raw(&b), end: End::Wait };
    cs.push(bad("name-space", header_req(&[b"GET /health HTTP/1.1", b"x y: v"])));
    cs.push(bad("name-paren", header_req(&[b"GET /health HTTP/1.1", b"x(y: v"])));
    cs.push(bad("name-nul", header_req(&[b"GET /health HTTP/1.1", b"x\x00y: v"])));
    cs.push(bad("name-empty", header_req(&[b"GET /health HTTP/1.1", b": v"])));
    cs.push(bad("no-colon", header_req(&[b"GET /health HTTP/1.1", b"justtext"])));
    cs.push(bad("space-before-colon", header_req(&[b"GET /health HTTP/1.1", b"host : localhost"])));
    cs.push(bad("value-nul", header_req(&[b"GET /health HTTP/1.1", b"x: a\x00b"])));
    cs.push(bad("value-bare-cr", header_req(&[b"GET /health HTTP/1.1", b"x: a\rb"])));
    cs.push(bad("value-del", header_req(&[b"GET /health HTTP/1.1", b"x: a\x7fb"])));
    cs.push(bad("value-ctl-1f", header_req(&[b"GET /health HTTP/1.1", b"x: a\x1fb"])));
    cs.push(bad("obs-fold", header_req(&[b"GET /health HTTP/1.1", b"x: a", b" folded"])));
    cs.push(bad("cl-alpha", header_req(&[b"POST /echo HTTP/1.1", b"content-length: abc"])));
    cs.push(bad("cl-negative", header_req(&[b"POST /echo HTTP/1.1", b"content-length: -1"])));
    cs.push(bad("cl-conflict", {
        let mut v = header_req(&[b"POST /echo HTTP/1.1", b"content-length: 3", b"content-length: 5"]);
        v.extend_from_slice(b"abcde");
        v
    }));
    cs.push(bad("te-not-chunked", header_req(&[b"POST /echo HTTP/1.1", b"transfer-encoding: gzip"])));
    cs.push(bad("version-1.2", header_req(&[b"GET /health HTTP/1.2", b"host: localhost"])));
    cs.push(bad("version-2.0", header_req(&[b"GET /health HTTP/2.0", b"host: localhost"])));
    cs.push(bad("version-junk", header_req(&[b"GET /health HTTX/1.1", b"host: localhost"])));
    cs.push(bad("method-bad-char", header_req(&[b"G<T /health HTTP/1.1", b"host: localhost"])));
    cs.push(bad("no-target", header_req(&[b"GET HTTP/1.1", b"host: localhost"])));
    cs.push(bad("target-ctl", header_req(&[b"GET /he\x01alth HTTP/1.1", b"host: localhost"])));
    cs.push(bad("chunk-size-bad", {
        let mut v = header_req(&[b"POST /echo HTTP/1.1", b"transfer-encoding: chunked"]);
        v.extend_from_slice(b"zz\r\nhello\r\n0\r\n\r\n");
        v
    }));
    cs.push(bad("chunk-no-crlf", {
        let mut v = header_req(&[b"POST /echo HTTP/1.1", b"transfer-encoding: chunked"]);
        v.extend_from_slice(b"5\r\nhelloXX0\r\n\r\n");
        v
    }));
    // well-formed but refused by dropshot (router / extractor / handler errors): the wrap arms
    let refused = |kind: &str, b: Vec<u8>| Case { kind: format!("refused-{}", kind), fault: None, sent: Sent::raw(&b), end: End::Wait };
    cs.push(refused("404", get_close("/nothing/here")));
    cs.push(refused("405", build_request("DELETE", "/health", &[CLOSE], b"")));
    cs.push(refused("path-param", get_close("/w/notanumber")));
    cs.push(refused("query-param", get_close("/w/1?big=notanumber")));
    for code in [400u32, 404, 418, 499, 500, 503, 599] {
        cs.push(refused(&format!("handler-{}", code), get_close(&format!("/fail/{}", code))));
    }
    cs.push(refused("bad-pct-path", get_close("/w/%zz")));
    // escapes that do not decode to UTF-8, in a string path variable: malformed, a 4xx
    for (i, p) in ["/name/%ff", "/name/ab%C3", "/name/%c0%af", "/name/%ed%a0%80", "/name/ok%80", "/name/%F5%80%80%80"].iter().enumerate() {
        cs.push(refused(&format!("bad-utf8-path-{}", i), get_close(p)));
    }
    cs.push(Case { kind: "valid-utf8-path".into(), fault: None, sent: Sent::raw(&get_close("/name/caf%C3%A9")), end: End::Wait });
    // a typed JSON body under odd spellings of its content type: a trailing semicolon, empty
    // and valueless parameters, blanks (whatever the answer - accepted or refused - it comes
    // at once, and the server goes on answering: each is sent on several connections)
    for ct in [
        "application/json", "application/json;", "application/json; x", "application/json;;charset=utf-8",
        "application/json; ", "application/json ;charset=utf-8", "application/json;charset", "application/json;=",
        "application/json; charset=utf-8;", "application/json;\t", "application/json;;;;",
    ] {
        for _ in 0..3 {
            cs.push(Case {
                kind: "answered-typed-ct".into(),
                fault: None,
                sent: Sent::raw(&build_request("POST", "/typed", &[CLOSE, ("content-type", ct)], b"{\"n\": 7}")),
                end: End::Wait,
            });
        }
    }
    // abrupt close at every stage, every way, without reading
    for how in How::ALL {
        for (n, v) in &valid {
            let stages: Vec<usize> = vec![0, 3, v.len() / 2, v.len().saturating_sub(4), v.len()];
            for k in stages {
                cs.push(Case { kind: format!("abrupt-{}-{}", how.name(), n), fault: Some("disc"), sent: Sent::raw(&v[..k]), end: End::Abrupt(how) });
            }
        }
    }
    cs.extend(h2_cases());
    if thorough {
        // every stage of every request for the abrupt family as well
        for how in [How::Rst, How::Close] {
            for (n, v) in &valid {
                for k in 0..v.len() {
                    cs.push(Case { kind: format!("abrupt-{}-{}", how.name(), n), fault: Some("disc"), sent: Sent::raw(&v[..k]), end: End::Abrupt(how) });
                }
            }
        }
    }
    cs
}

/// One sequence against a fresh server: connections (up to `par` at a time),
/// valid lifecycle requests and panicking handlers in between, then health.
fn run_sequence(
    rt: &Arc<tokio::runtime::Runtime>,
    id: &str,
    mode: HandlerTaskMode,
    items: Vec<Item>,
    par: usize,
) -> Vec<String> {
    let ctx = Ctx::new();
    ctx.release_all(); // valid lifecycle handlers run straight through
    let server = start(rt, &ctx, mode);
    let addr = server.local_addr();
    let lines: Arc<Mutex<Vec<(usize, String)>>> = Arc::new(Mutex::new(Vec::new()));
    let next = Arc::new(AtomicUsize::new(0));
    let items = Arc::new(items);
    let bad = Arc::new(AtomicUsize::new(0));
    let held: Arc<Mutex<Vec<std::net::TcpStream>>> = Arc::new(Mutex::new(Vec::new()));
    let mid_health_failed = Arc::new(AtomicUsize::new(0));
    let mut ts = Vec::new();
    for _ in 0..par.max(1) {
        let (ctx, rt, items, next, lines, bad, id) =
            (ctx.clone(), rt.clone(), items.clone(), next.clone(), lines.clone(), bad.clone(), id.to_string());
        let (held, mid_health_failed) = (held.clone(), mid_health_failed.clone());
        ts.push(std::thread::spawn(move || loop {
            let i = next.fetch_add(1, Ordering::SeqCst);
            // a failed health request ends the sequence: the server is already known to be wedged
            if i >= items.len() || mid_health_failed.load(Ordering::SeqCst) > 0 {
                break;
            }
            let c = (i + 1) as u32;
            match &items[i] {
                Item::Conn(case) => {
                    if let Some(f) = case.fault {
                        ctx.log(Ev::Fault(c, f));
                    }
                    match run_conn(&rt, addr, case) {
                        Some(recv) => lines.lock().unwrap().push((i, fc_line(&rt, &format!("{}.{}", id, c), mode, case, &recv))),
                        None => {
                            bad.fetch_add(1, Ordering::SeqCst);
                        }
                    }
                }
                Item::Hold(prefix) => {
                    ctx.log(Ev::Fault(c, "trunc"));
                    match open(addr) {
                        Some(mut s) => {
                            if !prefix.is_empty() {
                                let _ = s.write_all(prefix);
                            }
                            held.lock().unwrap().push(s);
                            // with that connection open and silent, others are still served
                            if !health(addr) {
                                mid_health_failed.fetch_add(1, Ordering::SeqCst);
                            }
                        }
                        None => {
                            bad.fetch_add(1, Ordering::SeqCst);
                        }
                    }
                }
                Item::Lifecycle => {
                    let r = c;
                    let Some(mut s) = open(addr) else {
                        bad.fetch_add(1, Ordering::SeqCst);
                        continue;
                    };
                    let _ = send_logged(&ctx, &mut s, &get(&format!("/w/{}", r)), Ev::ReqSent(c, r));
                    match read_one(&s) {
                        Some(resp) if resp.well_formed && resp.status == 200 && resp.body == b"ok" => {
                            ctx.log(Ev::RespDelivered(r))
                        }
                        _ => {}
                    }
                    close_rst(&rt, s);
                }
                Item::Panic => {
                    let r = c;
                    let Some(mut s) = open(addr) else {
                        bad.fetch_add(1, Ordering::SeqCst);
                        continue;
                    };
                    ctx.log(Ev::Fault(c, "panic"));
                    let _ = send_logged(&ctx, &mut s, &get(&format!("/p/{}", r)), Ev::ReqSent(c, r));
                    let _ = s.set_read_timeout(Some(Duration::from_secs(8)));
                    let mut recv = Vec::new();
                    let mut buf = [0u8; 4096];
                    loop {
                        match s.read(&mut buf) {
                            Ok(0) | Err(_) => break,
                            Ok(n) => recv.extend_from_slice(&buf[..n]),
                        }
                    }
                    close_rst(&rt, s);
                    let case = Case { kind: "panic".into(), fault: Some("panic"), sent: Sent::raw(&get(&format!("/p/{}", r))), end: End::ReadToEof };
                    lines.lock().unwrap().push((i, fc_line(&rt, &format!("{}.{}", id, c), mode, &case, &recv)));
                }
            }
        }));
    }
    for t in ts {
        let _ = t.join();
    }
    // health on a FRESH connection (held connections are still open and silent)
    let healthy = mid_health_failed.load(Ordering::SeqCst) == 0 && health(addr);
    ctx.log(Ev::Health(healthy));
    for s in held.lock().unwrap().drain(..) {
        close_rst(rt, s);
    }
    let closed = close_with_deadline(rt, server, Duration::from_secs(60));
    let log = ctx.snapshot();
    let mut ls = lines.lock().unwrap().clone();
    ls.sort();
    let mut out: Vec<String> = ls.into_iter().map(|(_, l)| l).collect();
    out.push(format!(
        "seq {} {} n={} {} => health={} closed={} unconnected={}",
        id,
        mode_name(mode),
        items.len(),
        enc_log(&log),
        healthy as u8,
        matches!(closed, Some(Ok(()))) as u8,
        bad.load(Ordering::SeqCst)
    ));
    out
}

/// One connection to the HTTPS server.
#[derive(Clone, Debug)]
enum TlsItem {
    /// (i) connect, send nothing, close
    ZeroBytes(How),
    /// (ii) the first k bytes of a real ClientHello, then close
    PartialHello(usize, How),
    /// (ii') the first k bytes of a ClientHello, then stay connected and silent
    /// while the health request is made (a stalled handshake must not hold up others)
    PartialHelloHold(usize),
    /// (iii) bytes in clear (random, or an HTTP request) to the TLS port
    Clear(Vec<u8>),
    /// (iv) complete handshake, then a (faulty or valid) request from the corpus
    After(Case),
    /// valid request through a gated handler: Start/Tick/Done/RespDelivered in the trace
    Lifecycle,
}

/// A sequence against a fresh HTTPS server.  After EACH faulty connection a
/// health request over TLS on a fresh connection (new handshake) must get 200.
fn run_tls_sequence(
    rt: &Arc<tokio::runtime::Runtime>,
    id: &str,
    mode: HandlerTaskMode,
    items: Vec<TlsItem>,
    par: usize,
    kit: &Arc<TlsKit>,
) -> Vec<String> {
    let ctx = Ctx::new();
    ctx.release_all();
    let server = start_opts(rt, &ctx, mode, Some(kit.server.clone()));
    let addr = server.local_addr();
    let lines: Arc<Mutex<Vec<(usize, String)>>> = Arc::new(Mutex::new(Vec::new()));
    let next = Arc::new(AtomicUsize::new(0));
    let items = Arc::new(items);
    let bad = Arc::new(AtomicUsize::new(0));
    let unhealthy = Arc::new(AtomicUsize::new(0));
    let mut ts = Vec::new();
    for _ in 0..par.max(1) {
        let (ctx, rt, items, next, lines, bad, unhealthy, id, kit) = (
            ctx.clone(),
            rt.clone(),
            items.clone(),
            next.clone(),
            lines.clone(),
            bad.clone(),
            unhealthy.clone(),
            id.to_string(),
            kit.clone(),
        );
        ts.push(std::thread::spawn(move || loop {
            let i = next.fetch_add(1, Ordering::SeqCst);
            // a few failed health requests are enough to know the server is wedged
            if i >= items.len() || unhealthy.load(Ordering::SeqCst) >= 3 {
                break;
            }
            let c = (i + 1) as u32;
            let mut faulty = true;
            let mut held: Option<std::net::TcpStream> = None;
            match &items[i] {
                TlsItem::ZeroBytes(how) => {
                    ctx.log(Ev::Fault(c, "disc"));
                    match open(addr) {
                        Some(s) => drop(disconnect(&rt, s, *how)),
                        None => {
                            bad.fetch_add(1, Ordering::SeqCst);
                        }
                    }
                }
                TlsItem::PartialHello(k, how) => {
                    ctx.log(Ev::Fault(c, "trunc"));
                    match open(addr) {
                        Some(mut s) => {
                            let k = (*k).min(kit.hello.len());
                            let _ = s.write_all(&kit.hello[..k]);
                            drop(disconnect(&rt, s, *how));
                        }
                        None => {
                            bad.fetch_add(1, Ordering::SeqCst);
                        }
                    }
                }
                TlsItem::PartialHelloHold(k) => {
                    ctx.log(Ev::Fault(c, "trunc"));
                    match open(addr) {
                        Some(mut s) => {
                            let k = (*k).min(kit.hello.len());
                            let _ = s.write_all(&kit.hello[..k]);
                            held = Some(s);
                        }
                        None => {
                            bad.fetch_add(1, Ordering::SeqCst);
                        }
                    }
                }
                TlsItem::Clear(bytes) => {
                    ctx.log(Ev::Fault(c, "garbage"));
                    match open(addr) {
                        Some(mut s) => {
                            let _ = s.set_read_timeout(Some(Duration::from_secs(8)));
                            let _ = s.write_all(bytes);
                            let _ = s.shutdown(std::net::Shutdown::Write);
                            // whatever comes back is a TLS alert or nothing, not HTTP
                            let mut buf = [0u8; 4096];
                            loop {
                                match s.read(&mut buf) {
                                    Ok(0) | Err(_) => break,
                                    Ok(_) => {}
                                }
                            }
                            close_rst(&rt, s);
                        }
                        None => {
                            bad.fetch_add(1, Ordering::SeqCst);
                        }
                    }
                }
                TlsItem::After(case) => {
                    faulty = case.fault.is_some();
                    if let Some(f) = case.fault {
                        ctx.log(Ev::Fault(c, f));
                    }
                    match tls_connect(addr, &kit) {
                        Some(mut s) => {
                            let _ = s.sock.set_read_timeout(Some(Duration::from_secs(8)));
                            let _ = s.write_all(&case.sent.bytes());
                            let _ = s.flush();
                            let recv = match case.end {
                                End::Abrupt(how) => {
                                    // no close_notify: the TCP connection just goes away
                                    drop(disconnect(&rt, s.sock, how));
                                    Vec::new()
                                }
                                End::ReadToEof | End::WaitThenFin | End::WaitFor(_) => {
                                    s.conn.send_close_notify();
                                    let _ = s.flush();
                                    let _ = s.sock.shutdown(std::net::Shutdown::Write);
                                    let r = tls_read_to_end(&mut s);
                                    close_rst(&rt, s.sock);
                                    r
                                }
                                End::Wait => {
                                    let r = tls_read_to_end(&mut s);
                                    close_rst(&rt, s.sock);
                                    r
                                }
                            };
                            let mut tcase = case.clone();
                            tcase.kind = format!("tls-{}", case.kind);
                            lines.lock().unwrap().push((i, fc_line(&rt, &format!("{}.{}", id, c), mode, &tcase, &recv)));
                        }
                        None => {
                            bad.fetch_add(1, Ordering::SeqCst);
                        }
                    }
                }
                TlsItem::Lifecycle => {
                    faulty = false;
                    let r = c;
                    match tls_connect(addr, &kit) {
                        Some(mut s) => {
                            let _ = s.sock.set_read_timeout(Some(Duration::from_secs(10)));
                            ctx.log(Ev::ReqSent(c, r));
                            let _ = s.write_all(format!("GET /w/{} HTTP/1.1\r\nhost: localhost\r\nconnection: close\r\n\r\n", r).as_bytes());
                            let _ = s.flush();
                            let recv = tls_read_to_end(&mut s);
                            if recv.starts_with(b"HTTP/1.1 200 ") && recv.ends_with(b"ok") {
                                ctx.log(Ev::RespDelivered(r));
                            }
                            close_rst(&rt, s.sock);
                        }
                        None => {
                            bad.fetch_add(1, Ordering::SeqCst);
                        }
                    }
                }
            }
            if faulty {
                // fresh TCP connection, fresh handshake
                let ok = tls_health(addr, &kit);
                ctx.log(Ev::Health(ok));
                if !ok {
                    unhealthy.fetch_add(1, Ordering::SeqCst);
                }
            }
            drop(held);
        }));
    }
    for t in ts {
        let _ = t.join();
    }
    let healthy = tls_health(addr, kit);
    ctx.log(Ev::Health(healthy));
    let closed = close_with_deadline(rt, server, Duration::from_secs(60));
    let log = ctx.snapshot();
    let mut ls = lines.lock().unwrap().clone();
    ls.sort();
    let mut out: Vec<String> = ls.into_iter().map(|(_, l)| l).collect();
    out.push(format!(
        "seq {} {} n={} {} => health={} closed={} unconnected={}",
        id,
        mode_name(mode),
        items.len(),
        enc_log(&log),
        (healthy && unhealthy.load(Ordering::SeqCst) == 0) as u8,
        matches!(closed, Some(Ok(()))) as u8,
        bad.load(Ordering::SeqCst)
    ));
    out
}

#[derive(Clone, Debug)]
enum Item {
    Conn(Case),
    /// connect, send these bytes (possibly none: a completely silent connection, or an
    /// unfinished request head) and STAY connected while a health request is made on a
    /// fresh connection; the connection is only closed after the sequence's final health
    /// request.  An idle or stalled connection must not hold up the others.
    Hold(Vec<u8>),
    /// a valid request through a gated handler: full Start/Tick/Done/RespDelivered trace
    Lifecycle,
    Panic,
}

/// What a held connection has sent before going silent.
/// Descriptor exhaustion: with the process's RLIMIT_NOFILE lowered to just above what is open
/// now, connections are opened (and left idle) until none can be created; one is then closed
/// and replaced a few times, so that a connection waits in the listener's backlog while the
/// process has no free descriptor and the server's accept(2) fails with EMFILE.  The burst is
/// then dropped and the limit restored: a well-formed request on a fresh connection must be
/// answered.  Runs alone, after everything else (the limit is the whole process's).
fn fd_exhaustion(rt: &Arc<tokio::runtime::Runtime>, id: &str, mode: HandlerTaskMode, kit: Option<&TlsKit>) -> String {
    let ctx = Ctx::new();
    let server = start_opts(rt, &ctx, mode, kit.map(|k| k.server.clone()));
    let addr = server.local_addr();
    let probe = |addr: SocketAddr| -> bool {
        match kit {
            Some(k) => tls_health(addr, k),
            None => health(addr),
        }
    };
    let mut log: Vec<String> = Vec::new();
    let before = probe(addr);
    let open_now = std::fs::read_dir("/proc/self/fd").map(|d| d.count()).unwrap_or(64);
    let mut old = libc::rlimit { rlim_cur: 0, rlim_max: 0 };
    // SAFETY: plain libc calls on a local struct
    unsafe { libc::getrlimit(libc::RLIMIT_NOFILE, &mut old) };
    let lowered = libc::rlimit { rlim_cur: (open_now + 30) as libc::rlim_t, rlim_max: old.rlim_max };
    unsafe { libc::setrlimit(libc::RLIMIT_NOFILE, &lowered) };
    let mut burst: Vec<std::net::TcpStream> = Vec::new();
    let mut exhausted = false;
    for _ in 0..400 {
        match std::net::TcpStream::connect_timeout(&addr, Duration::from_secs(2)) {
            Ok(s) => burst.push(s),
            Err(_) => {
                exhausted = true;
                break;
            }
        }
    }
    for _ in 0..4 {
        burst.pop();
        if let Ok(s) = std::net::TcpStream::connect_timeout(&addr, Duration::from_secs(2)) {
            burst.push(s);
        }
        std::thread::sleep(Duration::from_millis(150));
    }
    std::thread::sleep(Duration::from_millis(400));
    let n_burst = burst.len();
    drop(burst);
    unsafe { libc::setrlimit(libc::RLIMIT_NOFILE, &old) };
    log.push("F1:disc".to_string());
    std::thread::sleep(Duration::from_millis(400));
    let mut ok = false;
    for _ in 0..3 {
        if probe(addr) {
            ok = true;
            break;
        }
        std::thread::sleep(Duration::from_millis(300));
    }
    log.push(format!("H{}", ok as u8));
    let closed = rt.block_on(async { tokio::time::timeout(Duration::from_secs(40), server.close()).await })
        .map(|r| r.is_ok())
        .unwrap_or(false);
    eprintln!("fd exhaustion {}: {} open before, {} burst connections, exhausted={} health before={} after={}", id, open_now, n_burst, exhausted, before, ok);
    // a run in which the descriptors were never exhausted says nothing about the property:
    // its id starts with `xn` and the driver gives no verdict on it
    format!(
        "seq {}{} {} n=1 {} => health={} closed={} unconnected=0",
        if exhausted { "" } else { "xn" },
        id,
        mode_name(mode),
        log.join(","),
        (ok && before) as u8,
        closed as u8,
    )
}

fn gen_hold(rng: &mut Rng) -> Vec<u8> {
    match rng.below(6) {
        0 | 1 => Vec::new(),
        2 => b"G".to_vec(),
        3 => b"GET /health HTTP/1.1\r\nhost: loc".to_vec(),
        4 => vec![0x16, 0x03, 0x01],
        _ => {
            let v = v_post();
            v[..v.len() - 3].to_vec()
        }
    }
}

fn main() {
    quiet_handler_panics();
    let rt = Arc::new(
        tokio::runtime::Builder::new_multi_thread().worker_threads(8).enable_all().build().unwrap(),
    );
    let thorough = is_thorough();
    let mut rng = Rng::from_env(18);
    let modes = [HandlerTaskMode::Detached, HandlerTaskMode::CancelOnDisconnect];
    let cs = corpus(thorough);
    let mut jobs: Vec<(String, HandlerTaskMode, Vec<Item>, usize)> = Vec::new();
    // 1. the whole corpus plus random byte strings against ONE long-lived server per mode,
    //    valid requests and panics sprinkled in
    let n_rand = if thorough { 12000 } else { 2500 };
    for &m in &modes {
        let mut items: Vec<Item> = Vec::new();
        for c in &cs {
            items.push(Item::Conn(c.clone()));
        }
        for _ in 0..n_rand {
            items.push(Item::Conn(random_case(&mut rng)));
        }
        // shuffle, then sprinkle
        for i in (1..items.len()).rev() {
            let j = rng.below(i as u64 + 1) as usize;
            items.swap(i, j);
        }
        let mut mixed = Vec::new();
        for (i, it) in items.into_iter().enumerate() {
            mixed.push(it);
            if i % 25 == 7 {
                mixed.push(Item::Lifecycle);
            }
            if i % 100 == 42 {
                mixed.push(Item::Panic);
            }
            if i % 400 == 199 {
                mixed.push(Item::Hold(gen_hold(&mut rng)));
            }
        }
        jobs.push((format!("L{}", mode_name(m)), m, mixed, 6));
    }
    // 2. sequences of 1..50 faulty connections interleaved with valid ones
    let n_seq = if thorough { 600 } else { 120 };
    let small: Vec<Case> = cs.iter().filter(|c| c.sent.bytes().len() < 4000).cloned().collect();
    for i in 0..n_seq {
        let m = modes[i % 2];
        let n = match i % 4 {
            0 => rng.range(1, 3),
            1 => 50,
            _ => rng.range(4, 49),
        } as usize;
        let mut items = Vec::new();
        for _ in 0..n {
            let it = match rng.below(11) {
                0 | 1 => Item::Lifecycle,
                2 => Item::Panic,
                10 => Item::Hold(gen_hold(&mut rng)),
                3 | 4 => Item::Conn(random_case(&mut rng)),
                _ => Item::Conn(rng.pick(&small).clone()),
            };
            items.push(it);
        }
        jobs.push((format!("q{}", i + 1), m, items, 1 + (i % 4)));
    }

    // 3. HTTPS servers: handshake-level and post-handshake faults, a TLS health
    //    request on a fresh connection after each of them
    let kit = Arc::new(tls_kit());
    let mut tls_jobs: Vec<(String, HandlerTaskMode, Vec<TlsItem>, usize)> = Vec::new();
    let after_pool: Vec<Case> = small
        .iter()
        .filter(|c| !c.kind.starts_with("abrupt-") || c.kind.contains("-get"))
        .cloned()
        .collect();
    for &m in &modes {
        // systematic: every prefix length 1..40 of the ClientHello, FIN and RST; the other kinds once
        let mut items = Vec::new();
        for how in How::ALL {
            items.push(TlsItem::ZeroBytes(how));
        }
        for k in 1..=40usize {
            items.push(TlsItem::PartialHello(k, How::Fin));
            items.push(TlsItem::PartialHello(k, How::Rst));
        }
        for k in [1usize, 5, 6, 40, 100, 100000] {
            items.push(TlsItem::PartialHelloHold(k));
        }
        items.push(TlsItem::Clear(get("/health")));
        items.push(TlsItem::Clear(v_post()));
        for _ in 0..6 {
            let n = rng.range(1, 300) as usize;
            items.push(TlsItem::Clear((0..n).map(|_| rng.below(256) as u8).collect()));
        }
        // a TLS record header announcing more than follows / an oversized record / an alert
        items.push(TlsItem::Clear(vec![0x16, 0x03, 0x01, 0x40, 0x00, 0x01]));
        items.push(TlsItem::Clear(vec![0x16, 0x03, 0x03, 0xff, 0xff]));
        items.push(TlsItem::Clear(vec![0x15, 0x03, 0x03, 0x00, 0x02, 0x02, 0x28]));
        for c in after_pool.iter().filter(|c| !c.kind.starts_with("trunc-")) {
            items.push(TlsItem::After(c.clone()));
        }
        for c in after_pool.iter().filter(|c| c.kind.starts_with("trunc-")).step_by(7) {
            items.push(TlsItem::After(c.clone()));
        }
        for i in (1..items.len()).rev() {
            let j = rng.below(i as u64 + 1) as usize;
            items.swap(i, j);
        }
        let mut mixed = Vec::new();
        for (i, it) in items.into_iter().enumerate() {
            mixed.push(it);
            if i % 10 == 3 {
                mixed.push(TlsItem::Lifecycle);
            }
        }
        tls_jobs.push((format!("tL{}", mode_name(m)), m, mixed, 3));
    }
    let n_tls_seq = if thorough { 300 } else { 30 };
    for i in 0..n_tls_seq {
        let m = modes[i % 2];
        let n = rng.range(1, 20) as usize;
        let mut items = Vec::new();
        for _ in 0..n {
            let how = *rng.pick(&How::ALL);
            let it = match rng.below(12) {
                0 => TlsItem::ZeroBytes(how),
                1 | 2 => TlsItem::PartialHello(rng.range(1, 40) as usize, if rng.chance(1, 2) { How::Fin } else { How::Rst }),
                3 => TlsItem::PartialHelloHold(rng.range(1, 300) as usize),
                4 => TlsItem::Clear(get("/health")),
                5 => {
                    let n = rng.range(1, 200) as usize;
                    TlsItem::Clear((0..n).map(|_| rng.below(256) as u8).collect())
                }
                6 | 7 => TlsItem::Lifecycle,
                8 => TlsItem::After(random_case(&mut rng)),
                _ => TlsItem::After(rng.pick(&after_pool).clone()),
            };
            items.push(it);
        }
        tls_jobs.push((format!("t{}", i + 1), m, items, 1 + (i % 3)));
    }

    enum Job {
        Plain(String, HandlerTaskMode, Vec<Item>, usize),
        Tls(String, HandlerTaskMode, Vec<TlsItem>, usize),
    }
    let mut all: Vec<Job> = Vec::new();
    // long jobs first
    for (a, b, c, d) in tls_jobs.drain(..2) {
        all.push(Job::Tls(a, b, c, d));
    }
    for (a, b, c, d) in jobs {
        all.push(Job::Plain(a, b, c, d));
    }
    for (a, b, c, d) in tls_jobs {
        all.push(Job::Tls(a, b, c, d));
    }
    let total = all.len();
    let jobs = Arc::new(all);
    let next = Arc::new(AtomicUsize::new(0));
    let results: Arc<Mutex<Vec<Option<Vec<String>>>>> = Arc::new(Mutex::new(vec![None; total]));
    let mut ws = Vec::new();
    for _ in 0..6 {
        let (jobs, next, results, rt, kit) = (jobs.clone(), next.clone(), results.clone(), rt.clone(), kit.clone());
        ws.push(std::thread::spawn(move || loop {
            let i = next.fetch_add(1, Ordering::SeqCst);
            if i >= jobs.len() {
                break;
            }
            // a sequence that brings its own server down so badly that even closing it panics
            // is a failed sequence (reported as such, with its id), not the end of the run
            let (jid, jmode) = match &jobs[i] {
                Job::Plain(id, m, _, _) | Job::Tls(id, m, _, _) => (id.clone(), *m),
            };
            let ran = std::panic::catch_unwind(std::panic::AssertUnwindSafe(|| match &jobs[i] {
                Job::Plain(id, m, items, par) => run_sequence(&rt, id, *m, items.clone(), *par),
                Job::Tls(id, m, items, par) => run_tls_sequence(&rt, id, *m, items.clone(), *par, &kit),
            }));
            let lines = match ran {
                Ok(l) => l,
                Err(_) => vec![format!("seq {} {} n=1 F1:disc,H0 => health=0 closed=0 unconnected=0", jid, mode_name(jmode))],
            };
            results.lock().unwrap()[i] = Some(lines);
        }));
    }
    // watchdog: a run that does not end (a wedged server makes every probe wait out its
    // timeout) is cut short - the lines produced so far go out, followed by one failed
    // sequence per job that was still in progress
    {
        let (jobs, next, results) = (jobs.clone(), next.clone(), results.clone());
        let limit = Duration::from_secs(if thorough { 1500 } else { 420 });
        std::thread::spawn(move || {
            std::thread::sleep(limit);
            let mut out = std::io::BufWriter::with_capacity(1 << 20, std::io::stdout());
            if let Ok(all) = FC_SO_FAR.lock() {
                for l in all.iter() {
                    let _ = writeln!(out, "{}", l);
                }
            }
            let started = next.load(Ordering::SeqCst).min(jobs.len());
            let done: Vec<bool> = results.lock().map(|r| r.iter().map(|x| x.is_some()).collect()).unwrap_or_default();
            for i in 0..started {
                if !done.get(i).copied().unwrap_or(false) {
                    let (jid, jmode) = match &jobs[i] {
                        Job::Plain(id, m, _, _) | Job::Tls(id, m, _, _) => (id.clone(), *m),
                    };
                    let _ = writeln!(out, "seq {} {} n=1 F1:disc,H0 => health=0 closed=0 unconnected=0", jid, mode_name(jmode));
                }
            }
            let _ = out.flush();
            eprintln!("c18: watchdog: the run did not end within {:?}", limit);
            std::process::exit(0);
        });
    }
    for w in ws {
        w.join().unwrap();
    }
    let mut out = std::io::BufWriter::with_capacity(1 << 20, std::io::stdout());
    for ls in results.lock().unwrap().iter() {
        for l in ls.as_ref().expect("sequence ran") {
            writeln!(out, "{}", l).unwrap();
        }
    }
    // descriptor exhaustion, alone in the process
    for (i, &m) in modes.iter().enumerate() {
        writeln!(out, "{}", fd_exhaustion(&rt, &format!("x{}", i + 1), m, None)).unwrap();
    }
    writeln!(out, "{}", fd_exhaustion(&rt, "xt1", modes[0], Some(&kit))).unwrap();
    out.flush().unwrap();
}
