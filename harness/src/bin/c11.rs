//! C11 correspondence harness: the request-body cap.
//!
//! Streams (one case per line, `<stream> <id> <input…> => <impl…>`):
//!   fs  function level: `StreamingBody::new(body, cap).into_stream()` and
//!       `.into_bytes_mut()` (hooks) on a `dropshot::Body` built from an
//!       explicit frame list (data / trailers / I/O error)
//!   sv  server level: TypedBody / UntypedBody / StreamingBody endpoints with
//!       no / smaller / larger per-endpoint override on servers with
//!       different defaults; bodies around the limit, content-length and
//!       chunked framing; handlers record what they observed

use bytes::Bytes;
use dropshot::endpoint;
use dropshot::verif_hooks as hooks;
use dropshot::ApiDescription;
use dropshot::ApiEndpoint;
use dropshot::HttpError;
use dropshot::HttpResponseOk;
use dropshot::RequestContext;
use dropshot::StreamingBody;
use dropshot::TypedBody;
use dropshot::UntypedBody;
use dsharness::server::*;
use dropshot::ApiEndpointVersions;
use dsharness::util::*;
use futures::StreamExt;
use hyper::body::Frame;
use std::collections::HashMap;
use std::sync::Arc;
use std::sync::Mutex;

// ---------------------------------------------------------------- fs

#[derive(Clone, Debug)]
enum Fr {
    D(Vec<u8>),
    T,
    E,
}

fn mk_body(frames: &[Fr]) -> dropshot::Body {
    let items: Vec<Result<Frame<Bytes>, std::io::Error>> = frames
        .iter()
        .map(|f| match f {
            Fr::D(b) => Ok(Frame::data(Bytes::from(b.clone()))),
            Fr::T => Ok(Frame::trailers(http::HeaderMap::new())),
            Fr::E => Err(std::io::Error::new(std::io::ErrorKind::Other, "boom")),
        })
        .collect();
    dropshot::Body::wrap(http_body_util::StreamBody::new(futures::stream::iter(items)))
}

fn err_kind(e: &HttpError) -> String {
    let k = if e.external_message.contains("exceeded maximum size") {
        "toolarge"
    } else if e.external_message.starts_with("error streaming request body") {
        "transport"
    } else {
        "other"
    };
    format!("{}:{}", k, e.status_code.as_u16())
}

fn fs_case(out: &mut Out, id: &mut u64, cap: usize, frames: &[Fr]) {
    *id += 1;
    let mut line = format!("fs {} {} {}", id, cap, frames.len());
    for f in frames {
        match f {
            Fr::D(b) => line.push_str(&format!(" D{}", hex(b))),
            Fr::T => line.push_str(" T"),
            Fr::E => line.push_str(" E"),
        }
    }
    line.push_str(" =>");
    // streaming consumer
    let (chunks, end) = futures::executor::block_on(async {
        let s = hooks::streaming_body_new(mk_body(frames), cap).into_stream();
        let mut s = Box::pin(s);
        let mut chunks: Vec<Vec<u8>> = Vec::new();
        let mut end = "ok".to_string();
        while let Some(item) = s.next().await {
            match item {
                Ok(b) => chunks.push(b.to_vec()),
                Err(e) => {
                    end = err_kind(&e);
                    // the stream must be finished after an error
                    if s.next().await.is_some() {
                        end.push_str("+more");
                    }
                    break;
                }
            }
        }
        (chunks, end)
    });
    line.push_str(&format!(" {}", chunks.len()));
    for c in &chunks {
        line.push_str(&format!(" {}", hex(c)));
    }
    line.push_str(&format!(" {}", end));
    // buffering consumer
    let buffered = futures::executor::block_on(hooks::streaming_body_into_bytes_mut(hooks::streaming_body_new(
        mk_body(frames),
        cap,
    )));
    match buffered {
        Ok(b) => line.push_str(&format!(" ok:{}", hex(&b))),
        Err(e) => line.push_str(&format!(" {}", err_kind(&e))),
    }
    out.line(&line);
}

struct Counter(u8);
impl Counter {
    fn bytes(&mut self, n: usize) -> Vec<u8> {
        (0..n)
            .map(|_| {
                self.0 = self.0.wrapping_add(1);
                if self.0 == 0 {
                    self.0 = 1;
                }
                self.0
            })
            .collect()
    }
}

fn fs_stream(out: &mut Out, id: &mut u64, rng: &mut Rng, thorough: bool) {
    // ---- exhaustive small scope: caps 0..3 x all lists of <= 4 frames over
    // {data of 0..4 bytes, trailers, error}
    let max_frames = 4;
    for cap in 0..=3usize {
        for n in 0..=max_frames {
            let total = 7usize.pow(n as u32);
            for code in 0..total {
                let mut c = code;
                let mut ctr = Counter(0);
                let mut frames = Vec::new();
                for _ in 0..n {
                    let sym = c % 7;
                    c /= 7;
                    frames.push(match sym {
                        0..=4 => Fr::D(ctr.bytes(sym)),
                        5 => Fr::T,
                        _ => Fr::E,
                    });
                }
                fs_case(out, id, cap, &frames);
            }
        }
    }
    // ---- the probe recorded in DESIGN.md: 3-byte chunks at cap 8
    let mut ctr = Counter(0);
    fs_case(out, id, 8, &[Fr::D(ctr.bytes(3)), Fr::D(ctr.bytes(3)), Fr::D(ctr.bytes(3))]);
    // ---- random: totals around the cap, arbitrary splits
    let n_rand = if thorough { 400_000 } else { 40_000 };
    for i in 0..n_rand {
        let cap = if i % 12 == 5 { 1024usize } else { *rng.pick(&[0usize, 1, 2, 3, 8, 8, 8]) };
        let target = match rng.below(8) {
            0 => cap.saturating_sub(1),
            1 | 2 => cap,
            3 | 4 => cap + 1,
            5 => if cap >= 1024 { cap * 2 } else { cap * 10 },
            6 => rng.below(cap as u64 + 1) as usize,
            _ => cap + 1 + rng.below(2 * cap as u64 + 3) as usize,
        };
        let mut ctr = Counter(0);
        let mut frames: Vec<Fr> = Vec::new();
        let mut left = target;
        while left > 0 {
            let take = match rng.below(4) {
                0 => 1,
                1 => left,
                _ => rng.range(1, left as u64) as usize,
            };
            frames.push(Fr::D(ctr.bytes(take)));
            left -= take;
            if rng.chance(1, 5) {
                frames.push(Fr::D(vec![]));
            }
            if rng.chance(1, 8) {
                frames.push(Fr::T);
            }
        }
        if rng.chance(1, 4) {
            let pos = rng.below(frames.len() as u64 + 1) as usize;
            frames.insert(pos, Fr::D(vec![]));
        }
        if rng.chance(1, 4) {
            frames.push(Fr::T);
        }
        if rng.chance(1, 6) {
            let pos = rng.below(frames.len() as u64 + 1) as usize;
            frames.insert(pos, Fr::E);
        }
        fs_case(out, id, cap, &frames);
    }
}

// ---------------------------------------------------------------- sv

#[derive(Clone, Debug, Default)]
struct Obs {
    cap_seen: usize,
    chunks: Vec<usize>,
    bytes: Vec<u8>,
    err: Option<String>,
}

#[derive(Default)]
struct Ctx {
    seen: Mutex<HashMap<String, Obs>>,
}

fn token<C: dropshot::ServerContext>(rqctx: &RequestContext<C>) -> String {
    rqctx.request.headers().get("x-token").map(|v| v.to_str().unwrap().to_string()).unwrap_or_default()
}

#[endpoint { method = PUT, path = "/typed" }]
async fn h_typed(
    rqctx: RequestContext<Arc<Ctx>>,
    body: TypedBody<serde_json::Value>,
) -> Result<HttpResponseOk<()>, HttpError> {
    let v = body.into_inner();
    let bytes = serde_json::to_vec(&v).unwrap();
    let obs = Obs { cap_seen: rqctx.request_body_max_bytes(), chunks: vec![bytes.len()], bytes, err: None };
    rqctx.context().seen.lock().unwrap().insert(token(&rqctx), obs);
    Ok(HttpResponseOk(()))
}

#[endpoint { method = PUT, path = "/untyped" }]
async fn h_untyped(rqctx: RequestContext<Arc<Ctx>>, body: UntypedBody) -> Result<HttpResponseOk<()>, HttpError> {
    let bytes = body.as_bytes().to_vec();
    let obs = Obs { cap_seen: rqctx.request_body_max_bytes(), chunks: vec![bytes.len()], bytes, err: None };
    rqctx.context().seen.lock().unwrap().insert(token(&rqctx), obs);
    Ok(HttpResponseOk(()))
}

#[endpoint { method = PUT, path = "/streaming" }]
async fn h_streaming(rqctx: RequestContext<Arc<Ctx>>, body: StreamingBody) -> Result<HttpResponseOk<()>, HttpError> {
    let mut obs = Obs { cap_seen: rqctx.request_body_max_bytes(), ..Default::default() };
    let s = body.into_stream();
    let mut s = Box::pin(s);
    let mut failure = None;
    while let Some(item) = s.next().await {
        match item {
            Ok(b) => {
                obs.chunks.push(b.len());
                obs.bytes.extend_from_slice(&b);
            }
            Err(e) => {
                obs.err = Some(err_kind(&e));
                failure = Some(e);
                break;
            }
        }
    }
    rqctx.context().seen.lock().unwrap().insert(token(&rqctx), obs);
    match failure {
        Some(e) => Err(e),
        None => Ok(HttpResponseOk(())),
    }
}

// the same three handlers with the override given in the endpoint macro
const MACRO_CAP: usize = 8;

#[endpoint { method = PUT, path = "/m/typed", request_body_max_bytes = MACRO_CAP }]
async fn hm_typed(
    rqctx: RequestContext<Arc<Ctx>>,
    body: TypedBody<serde_json::Value>,
) -> Result<HttpResponseOk<()>, HttpError> {
    let v = body.into_inner();
    let bytes = serde_json::to_vec(&v).unwrap();
    let obs = Obs { cap_seen: rqctx.request_body_max_bytes(), chunks: vec![bytes.len()], bytes, err: None };
    rqctx.context().seen.lock().unwrap().insert(token(&rqctx), obs);
    Ok(HttpResponseOk(()))
}

#[endpoint { method = PUT, path = "/m/untyped", request_body_max_bytes = 8 }]
async fn hm_untyped(rqctx: RequestContext<Arc<Ctx>>, body: UntypedBody) -> Result<HttpResponseOk<()>, HttpError> {
    let bytes = body.as_bytes().to_vec();
    let obs = Obs { cap_seen: rqctx.request_body_max_bytes(), chunks: vec![bytes.len()], bytes, err: None };
    rqctx.context().seen.lock().unwrap().insert(token(&rqctx), obs);
    Ok(HttpResponseOk(()))
}

#[endpoint { method = PUT, path = "/m/streaming", request_body_max_bytes = MACRO_CAP }]
async fn hm_streaming(rqctx: RequestContext<Arc<Ctx>>, body: StreamingBody) -> Result<HttpResponseOk<()>, HttpError> {
    let mut obs = Obs { cap_seen: rqctx.request_body_max_bytes(), ..Default::default() };
    let s = body.into_stream();
    let mut s = Box::pin(s);
    let mut failure = None;
    while let Some(item) = s.next().await {
        match item {
            Ok(b) => {
                obs.chunks.push(b.len());
                obs.bytes.extend_from_slice(&b);
            }
            Err(e) => {
                obs.err = Some(err_kind(&e));
                failure = Some(e);
                break;
            }
        }
    }
    rqctx.context().seen.lock().unwrap().insert(token(&rqctx), obs);
    match failure {
        Some(e) => Err(e),
        None => Ok(HttpResponseOk(())),
    }
}

const KINDS: &[&str] = &["typed", "untyped", "streaming"];
const OVERRIDES: &[Option<usize>] = &[None, Some(0), Some(3), Some(8), Some(2048)];

fn ov_label(o: Option<usize>) -> String {
    match o {
        None => "N".to_string(),
        Some(n) => n.to_string(),
    }
}

fn build_api(newest_first: bool) -> ApiDescription<Arc<Ctx>> {
    let mut api = ApiDescription::new();
    for kind in KINDS {
        for ov in OVERRIDES {
            let mut ep: ApiEndpoint<Arc<Ctx>> = match *kind {
                "typed" => ApiEndpoint::from(h_typed),
                "untyped" => ApiEndpoint::from(h_untyped),
                _ => ApiEndpoint::from(h_streaming),
            };
            ep.path = format!("/b/{}/o{}", kind, ov_label(*ov));
            ep.operation_id = format!("b_{}_o{}", kind, ov_label(*ov));
            if let Some(n) = ov {
                ep = ep.request_body_max_bytes(*n);
            }
            api.register(ep).unwrap();
        }
    }
    api.register(hm_typed).unwrap();
    api.register(hm_untyped).unwrap();
    api.register(hm_streaming).unwrap();
    // one path and method, three version ranges, three different limits
    let mut vers: Vec<(ApiEndpointVersions, Option<usize>)> = VERSIONED
        .iter()
        .map(|(lo, hi, ov)| {
            let v = |s: &str| semver::Version::parse(s).unwrap();
            let r = match (lo, hi) {
                (None, Some(h)) => ApiEndpointVersions::until(v(h)),
                (Some(l), Some(h)) => ApiEndpointVersions::from_until(v(l), v(h)).unwrap(),
                (Some(l), None) => ApiEndpointVersions::from(v(l)),
                (None, None) => ApiEndpointVersions::all(),
            };
            (r, *ov)
        })
        .collect();
    if newest_first {
        vers.reverse();
    }
    for kind in KINDS {
        for (i, (r, ov)) in vers.drain(..).collect::<Vec<_>>().into_iter().enumerate() {
            let mut ep: ApiEndpoint<Arc<Ctx>> = match *kind {
                "typed" => ApiEndpoint::from(h_typed),
                "untyped" => ApiEndpoint::from(h_untyped),
                _ => ApiEndpoint::from(h_streaming),
            };
            ep.path = format!("/v/{}", kind);
            ep.operation_id = format!("v_{}_{}", kind, i);
            ep.versions = r;
            if let Some(n) = ov {
                ep = ep.request_body_max_bytes(n);
            }
            api.register(ep).unwrap();
        }
        // rebuild the list for the next kind
        vers = VERSIONED
            .iter()
            .map(|(lo, hi, ov)| {
                let v = |s: &str| semver::Version::parse(s).unwrap();
                let r = match (lo, hi) {
                    (None, Some(h)) => ApiEndpointVersions::until(v(h)),
                    (Some(l), Some(h)) => ApiEndpointVersions::from_until(v(l), v(h)).unwrap(),
                    (Some(l), None) => ApiEndpointVersions::from(v(l)),
                    (None, None) => ApiEndpointVersions::all(),
                };
                (r, *ov)
            })
            .collect();
        if newest_first {
            vers.reverse();
        }
    }
    api
}

/// (from, until, override) of the versioned endpoints, and the version that selects each.
const VERSIONED: &[(Option<&str>, Option<&str>, Option<usize>)] =
    &[(None, Some("2.0.0"), Some(40)), (Some("2.0.0"), Some("3.0.0"), None), (Some("3.0.0"), None, Some(8))];
const VERSION_PROBES: &[(&str, Option<usize>)] = &[("1.0.0", Some(40)), ("2.0.0", None), ("3.0.0", Some(8))];

/// A body of exactly `n` bytes; for the typed endpoint it is valid JSON
/// (`n >= 1`): one digit, or a quoted string.
fn make_body(kind: &str, n: usize, rng: &mut Rng) -> Vec<u8> {
    if kind == "typed" {
        if n == 1 {
            return b"7".to_vec();
        }
        let mut v = vec![b'"'];
        for _ in 0..n - 2 {
            v.push(b'a' + rng.below(26) as u8);
        }
        v.push(b'"');
        v
    } else {
        (0..n).map(|_| rng.next() as u8).collect()
    }
}

#[derive(Clone)]
struct SvCase {
    kind: &'static str,
    dflt: usize,
    ov: Option<usize>,
    via: &'static str,
    n: usize,
    chunks: Option<Vec<usize>>,
    body: Vec<u8>,
    token: String,
    /// API version sent in the header (the versioned endpoints `/v/<kind>` have one limit per version)
    version: &'static str,
    /// also send a `Content-Length` header with this value *before* `Transfer-Encoding: chunked`
    clte: Option<usize>,
    /// send over HTTP/2 (prior knowledge): a sized body when `chunks` is None, otherwise DATA
    /// frames of those sizes and no content-length at all
    h2: bool,
}

fn sv_run_h2(addr: std::net::SocketAddr, path: &str, c: &SvCase) -> Option<RawResponse> {
    use http_body_util::BodyExt;
    use hyper_util::rt::{TokioExecutor, TokioIo};
    type Bx = http_body_util::combinators::BoxBody<bytes::Bytes, std::convert::Infallible>;
    let rt = tokio::runtime::Builder::new_current_thread().enable_all().build().ok()?;
    rt.block_on(async {
        let tcp = tokio::net::TcpStream::connect(addr).await.ok()?;
        let (mut sender, conn) =
            hyper::client::conn::http2::handshake::<_, _, Bx>(TokioExecutor::new(), TokioIo::new(tcp)).await.ok()?;
        let conn_task = tokio::spawn(conn);
        let body: Bx = match &c.chunks {
            None => http_body_util::Full::new(bytes::Bytes::from(c.body.clone())).boxed(),
            Some(ch) => {
                let mut frames: Vec<Result<hyper::body::Frame<bytes::Bytes>, std::convert::Infallible>> = Vec::new();
                let mut rest: &[u8] = &c.body;
                for n in ch {
                    let k = (*n).min(rest.len());
                    if k > 0 {
                        frames.push(Ok(hyper::body::Frame::data(bytes::Bytes::copy_from_slice(&rest[..k]))));
                    }
                    rest = &rest[k..];
                }
                if !rest.is_empty() {
                    frames.push(Ok(hyper::body::Frame::data(bytes::Bytes::copy_from_slice(rest))));
                }
                BodyExt::boxed(http_body_util::StreamBody::new(futures::stream::iter(frames)))
            }
        };
        let req = http::Request::builder()
            .method("PUT")
            .uri(format!("http://localhost{}", path))
            .header("content-type", "application/json")
            .header("x-token", c.token.as_str())
            .header("api-version", c.version)
            .body(body)
            .ok()?;
        sender.ready().await.ok()?;
        let rsp = tokio::time::timeout(std::time::Duration::from_secs(20), sender.send_request(req)).await.ok()?.ok()?;
        let mut raw = RawResponse::default();
        raw.status = rsp.status().as_u16();
        raw.body = tokio::time::timeout(std::time::Duration::from_secs(20), rsp.into_body().collect()).await.ok()?.ok()?.to_bytes().to_vec();
        raw.well_formed = true;
        conn_task.abort();
        Some(raw)
    })
}

fn sv_run(addr: std::net::SocketAddr, c: &SvCase) -> Option<RawResponse> {
    let path = if c.via == "m" {
        format!("/m/{}", c.kind)
    } else if c.via == "v" {
        format!("/v/{}", c.kind)
    } else {
        format!("/b/{}/o{}", c.kind, ov_label(c.ov))
    };
    if c.h2 {
        for _ in 0..3 {
            if let Some(r) = sv_run_h2(addr, &path, c) {
                return Some(r);
            }
            std::thread::sleep(std::time::Duration::from_millis(50));
        }
        return None;
    }
    let hdrs = [
        ("content-type", "application/json"),
        ("x-token", c.token.as_str()),
        ("connection", "close"),
        ("api-version", c.version),
    ];
    let raw = match (&c.chunks, c.clte) {
        (None, _) => build_request("PUT", &path, &hdrs, &c.body),
        (Some(ch), None) => build_chunked_request("PUT", &path, &hdrs, &c.body, ch),
        (Some(ch), Some(cl)) => {
            // both framing headers, Content-Length first: hyper decodes the body as chunked
            let plain = build_chunked_request("PUT", &path, &hdrs, &c.body, ch);
            let text = String::from_utf8_lossy(&plain).to_string();
            let patched = text.replacen(
                "transfer-encoding: chunked\r\n",
                &format!("content-length: {}\r\ntransfer-encoding: chunked\r\n", cl),
                1,
            );
            let mut v = patched.into_bytes();
            // the body may contain non-UTF-8 bytes: rebuild from the original tail
            let head_end = plain.windows(4).position(|w| w == b"\r\n\r\n").unwrap() + 4;
            let new_head_end = v.windows(4).position(|w| w == b"\r\n\r\n").unwrap() + 4;
            v.truncate(new_head_end);
            v.extend_from_slice(&plain[head_end..]);
            v
        }
    };
    for _ in 0..3 {
        if let Some(r) = roundtrip(addr, &raw, false) {
            if r.well_formed {
                return Some(r);
            }
        }
        std::thread::sleep(std::time::Duration::from_millis(50));
    }
    None
}

fn csv(v: &[usize]) -> String {
    if v.is_empty() {
        "-".to_string()
    } else {
        v.iter().map(|x| x.to_string()).collect::<Vec<_>>().join(",")
    }
}

fn sv_stream(out: &mut Out, id: &mut u64, rng: &mut Rng, thorough: bool) {
    let rt = tokio::runtime::Builder::new_multi_thread().worker_threads(4).enable_all().build().unwrap();
    let reps = if thorough { 40 } else { 4 };
    for dflt in [0usize, 1, 16, 1024] {
        let ctx = Arc::new(Ctx::default());
        let server = rt.block_on(async {
            let policy = dropshot::VersionPolicy::Dynamic(Box::new(dropshot::ClientSpecifiesVersionInHeader::new(
                http::HeaderName::from_static("api-version"),
                semver::Version::parse("9.0.0").unwrap(),
            )));
            start_server(
                build_api(dflt % 2 == 0),
                ctx.clone(),
                ServerOpts { default_request_body_max_bytes: dflt, version_policy: Some(policy), ..Default::default() },
            )
        });
        let addr = server.local_addr();
        let mut cases: Vec<SvCase> = Vec::new();
        let mut tok = 0u64;
        let mut endpoints: Vec<(&'static str, Option<usize>, &'static str, &'static str)> = Vec::new();
        for kind in KINDS {
            for ov in OVERRIDES {
                endpoints.push((*kind, *ov, "b", "1.0.0"));
            }
            endpoints.push((*kind, Some(MACRO_CAP), "m", "1.0.0"));
            for (ver, ov) in VERSION_PROBES {
                endpoints.push((*kind, *ov, "v", ver));
            }
        }
        for (kind, ov, via, version) in endpoints {
            let cap = ov.unwrap_or(dflt);
            let mut lens = vec![cap.saturating_sub(1), cap, cap + 1, cap * 10, cap / 2, cap + 2];
            if cap == 0 {
                lens.push(5);
            }
            lens.sort();
            lens.dedup();
            for n in lens {
                if kind == "typed" && n == 0 {
                    continue; // the empty body is not JSON; refused whatever the cap
                }
                for rep in 0..(1 + reps) {
                    let body = make_body(kind, n, rng);
                    let chunks = if rep == 0 {
                        None
                    } else {
                        // random chunk boundaries; some straddle the cap
                        let mut v = Vec::new();
                        let mut left = n;
                        while left > 0 {
                            let take = match rng.below(4) {
                                0 => 1,
                                1 => left,
                                2 if cap > 0 && cap < left => cap,
                                _ => rng.range(1, left as u64) as usize,
                            };
                            v.push(take);
                            left -= take;
                        }
                        Some(v)
                    };
                    tok += 1;
                    // some chunked requests also carry a (smaller or equal) Content-Length in front
                    let clte = if chunks.is_some() && rep % 2 == 0 { Some(n.min(cap)) } else { None };
                    // every third case once more over HTTP/2 (its own token: the handler's record is per token)
                    if tok % 3 == 0 {
                        cases.push(SvCase { kind, dflt, ov, via, n, chunks: chunks.clone(), body: body.clone(), token: format!("t{}-{}h", dflt, tok), version, clte: None, h2: true });
                    }
                    cases.push(SvCase { kind, dflt, ov, via, n, chunks, body, token: format!("t{}-{}", dflt, tok), version, clte, h2: false });
                }
            }
        }
        // run on 8 client threads, keep the case order for printing
        let cases = Arc::new(cases);
        let nthreads = 8;
        let mut handles = Vec::new();
        for t in 0..nthreads {
            let cases = cases.clone();
            handles.push(std::thread::spawn(move || {
                let mut res = Vec::new();
                let mut i = t;
                while i < cases.len() {
                    res.push((i, sv_run(addr, &cases[i])));
                    i += nthreads;
                }
                res
            }));
        }
        let mut results: Vec<Option<RawResponse>> = vec![None; cases.len()];
        for h in handles {
            for (i, r) in h.join().unwrap() {
                results[i] = r;
            }
        }
        let seen = ctx.seen.lock().unwrap().clone();
        for (c, r) in cases.iter().zip(results.iter()) {
            *id += 1;
            let head = format!(
                "sv {} {} {} {} {} {} {} {} =>",
                id,
                c.kind,
                c.dflt,
                ov_label(c.ov),
                c.via,
                c.n,
                if c.h2 { if c.chunks.is_some() { "h2ch" } else { "h2cl" } } else if c.clte.is_some() { "ct" } else if c.chunks.is_some() { "ch" } else { "cl" },
                c.chunks.as_ref().map(|v| csv(v)).unwrap_or("-".to_string())
            );
            let Some(r) = r else {
                out.line(&format!("{} noresponse", head));
                continue;
            };
            let ekind = if r.status == 200 {
                "-".to_string()
            } else {
                let msg = serde_json::from_slice::<serde_json::Value>(&r.body)
                    .ok()
                    .and_then(|j| j.get("message").and_then(|m| m.as_str()).map(|s| s.to_string()))
                    .unwrap_or_default();
                if msg.contains("exceeded maximum size") {
                    "toolarge".to_string()
                } else {
                    "other".to_string()
                }
            };
            match seen.get(&c.token) {
                None => out.line(&format!("{} {} {} 0 - - - - - -", head, r.status, ekind)),
                Some(o) => out.line(&format!(
                    "{} {} {} 1 {} {} {} {} {} {}",
                    head,
                    r.status,
                    ekind,
                    o.cap_seen,
                    o.bytes.len(),
                    (o.bytes == c.body) as u8,
                    c.body.starts_with(&o.bytes) as u8,
                    csv(&o.chunks),
                    o.err.clone().unwrap_or("-".to_string())
                )),
            }
        }
        rt.block_on(async {
            let _ = server.close().await;
        });
    }
}

fn main() {
    quiet_panics();
    let mut out = Out::new();
    let mut rng = Rng::from_env(11);
    let thorough = is_thorough();
    let mut id: u64 = 0;
    fs_stream(&mut out, &mut id, &mut rng, thorough);
    sv_stream(&mut out, &mut id, &mut rng, thorough);
    out.flush();
}
