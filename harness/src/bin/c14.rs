//! C14 correspondence harness: page tokens, `PaginationParams` parsing, limits.
//!
//! Streams (one case per line, `<stream> <id> <input…> => <impl…>`):
//!   iss  <ty> <seljson>            => ok <token> <back>            | err 500
//!        issue a token for a selector (real `serialize_page_token`), then read
//!        it back (real `deserialize_page_token`); <back> = ok:<json> | err:<class>
//!   tok  <ty> <token>              => ok <json> | err <class>       (exact stream)
//!   orc  <ty> <token>              => ok | err <class> | panic      (oracle only)
//!   qry  <query>                   => first <sort> <limit> | next <json> <limit> | err
//!        [ "/" same for the query `page_token=<last token>` alone ]
//!   srv  <limit|none> <token|none> <extra|-> => <status> <nitems> <first|-> <next 0/1>
//!        live paginated endpoint (12 000 items), raw TCP
//!   sro  <token> => <status>       live endpoint, oracle only (arbitrary bytes)
//! <ty> is the selector type's descriptor (JSON, hex); all byte strings hex.

use dropshot::endpoint;
use dropshot::verif_hooks as hooks;
use dropshot::ApiDescription;
use dropshot::HttpError;
use dropshot::HttpResponseOk;
use dropshot::PaginationOrder;
use dropshot::PaginationParams;
use dropshot::Query;
use dropshot::RequestContext;
use dropshot::ResultsPage;
use dropshot::WhichPage;
use dsharness::server::*;
use dsharness::util::*;
use schemars::JsonSchema;
use serde::de::DeserializeOwned;
use serde::Deserialize;
use serde::Serialize;

// ---------------------------------------------------------------- selector family

#[derive(Serialize, Deserialize, Debug, Clone, PartialEq)]
#[serde(rename_all = "lowercase")]
enum Color {
    Red,
    Green,
    Blue,
}

#[derive(Serialize, Deserialize, Debug, Clone, PartialEq)]
struct SelA {
    name: String,
    id: u64,
    neg: i64,
    flag: bool,
    ord: PaginationOrder,
    tag: Option<String>,
    color: Color,
}

#[derive(Serialize, Deserialize, Debug, Clone, PartialEq)]
#[serde(rename_all = "kebab-case")]
enum SelE {
    Name(PaginationOrder, String),
    MtimeName(PaginationOrder, i64, String),
    Id(u64),
    Start,
}

#[derive(Serialize, Deserialize, Debug, Clone, PartialEq)]
struct SelC {
    k: String,
    n: Option<u64>,
}

#[derive(Serialize, Deserialize, Debug, Clone, PartialEq)]
struct SelB {
    path: Vec<SelC>,
    last: (i64, u64),
    deep: Vec<Vec<bool>>,
}

/// Recursive selector: `[[[…]]]`.
#[derive(Serialize, Deserialize, Debug, Clone, PartialEq)]
struct N(Vec<N>);

const TY_ORDER: &str = r#"{"E":["ascending","descending"]}"#;
fn ty_color() -> String {
    r#"{"E":["red","green","blue"]}"#.into()
}
fn ty_sela() -> String {
    format!(
        r#"{{"R":[["name","S"],["id","U64"],["neg","I64"],["flag","B"],["ord",{o}],["tag",{{"O":"S"}}],["color",{c}]]}}"#,
        o = TY_ORDER,
        c = ty_color()
    )
}
fn ty_sele() -> String {
    format!(
        r#"{{"X":[["name",[{o},"S"]],["mtime-name",[{o},"I64","S"]],["id",["U64"]],["start",[]]]}}"#,
        o = TY_ORDER
    )
}
fn ty_selb() -> String {
    r#"{"R":[["path",{"V":{"R":[["k","S"],["n",{"O":"U64"}]]}}],["last",{"T":["I64","U64"]}],["deep",{"V":{"V":"B"}}]]}"#.into()
}

// ---------------------------------------------------------------- helpers

use base64::engine::general_purpose::URL_SAFE;
use base64::Engine;

fn b64(s: &[u8]) -> String {
    URL_SAFE.encode(s)
}

fn err_class(msg: &str) -> &'static str {
    if msg.contains("too large") {
        "large"
    } else if msg.contains("corrupted token") {
        "corrupt"
    } else if msg.contains("unsupported version") {
        "version"
    } else {
        "b64"
    }
}

/// Read a token back with the real code; `ok <json>` / `err <class>` / `panic`.
fn read_back<T: Serialize + DeserializeOwned>(tok: &str) -> String {
    let t = tok.to_string();
    match catch(move || hooks::deserialize_page_token::<T>(&t)) {
        Err(_) => "panic".into(),
        Ok(Ok(v)) => format!("ok {}", hex(&serde_json::to_vec(&v).unwrap())),
        Ok(Err(e)) => format!("err {}", err_class(&e)),
    }
}

/// JSON-encoded length of one char inside a string (serde_json's escaping).
fn json_char_len(c: char) -> usize {
    match c {
        '"' | '\\' | '\u{8}' | '\t' | '\n' | '\u{c}' | '\r' => 2,
        c if (c as u32) < 0x20 => 6,
        c => c.len_utf8(),
    }
}

/// A string whose JSON body (between the quotes) is exactly `n` bytes long,
/// drawn from all of Unicode (controls, quotes, 2/3/4-byte characters).
fn unicode_string(rng: &mut Rng, n: usize, plain: bool) -> String {
    let mut s = String::new();
    let mut left = n;
    while left > 0 {
        let c = if plain {
            'e'
        } else {
            match rng.below(12) {
                0 => char::from_u32(rng.below(0x20) as u32).unwrap(),
                1 => *rng.pick(&['"', '\\', '/', '\u{7f}', ' ', '+', '=', '%', '&']),
                2 => char::from_u32(0x80 + rng.below(0x780) as u32).unwrap(),
                3 => {
                    let v = 0x800 + rng.below(0xF800) as u32;
                    char::from_u32(v).unwrap_or('\u{FFFD}')
                }
                4 => char::from_u32(0x10000 + rng.below(0x100000) as u32).unwrap(),
                5 => *rng.pick(&['\u{D7FF}', '\u{E000}', '\u{FFFF}', '\u{10FFFF}', '\u{7FF}', '\u{800}', '\u{80}']),
                _ => (b'a' + rng.below(26) as u8) as char,
            }
        };
        let l = json_char_len(c);
        if l <= left {
            s.push(c);
            left -= l;
        } else {
            s.push('x');
            left -= 1;
        }
    }
    s
}

fn json_len<T: Serialize>(v: &T) -> usize {
    serde_json::to_vec(v).unwrap().len()
}

struct Ctr(u64);
impl Ctr {
    fn next(&mut self, p: &str) -> String {
        self.0 += 1;
        format!("{}{}", p, self.0)
    }
}

// ---------------------------------------------------------------- iss / tok / orc for one type

/// Token-level and JSON-level mutations the model decides exactly.
fn exact_mutations(sel_json: &str, token: &str, alt_ps: &[&str], rng: &mut Rng) -> Vec<String> {
    let mut m: Vec<String> = Vec::new();
    let ps = sel_json;
    let env = |parts: &[(&str, &str)]| -> String {
        let mut s = String::from("{");
        for (i, (k, v)) in parts.iter().enumerate() {
            if i > 0 {
                s.push(',');
            }
            s.push_str(&format!("\"{}\":{}", k, v));
        }
        s.push('}');
        s
    };
    let mut j: Vec<String> = Vec::new();
    // version field changed / odd / missing
    for v in [r#""v2""#, r#""V1""#, r#""""#, "1", "null", r#"{"v1":null}"#, r#"{"v1":1}"#, r#"{"v2":null}"#, r#"["v1"]"#, r#"{"v1":null,"v1":null}"#, "true", r#""v1 ""#, r#""v1""#] {
        j.push(env(&[("v", v), ("page_start", ps)]));
    }
    j.push(env(&[("page_start", ps)]));
    j.push(env(&[("v", r#""v1""#)]));
    j.push("{}".into());
    // extra / duplicate / reordered fields
    for x in ["1", r#"{"a":[1,2,{"b":null}]}"#, r#""sé😀""#, "[]", "-17", "[[[[[[]]]]]]"] {
        j.push(env(&[("x", x), ("v", r#""v1""#), ("page_start", ps)]));
        j.push(env(&[("v", r#""v1""#), ("x", x), ("page_start", ps)]));
        j.push(env(&[("v", r#""v1""#), ("page_start", ps), ("x", x)]));
    }
    j.push(env(&[("v", r#""v1""#), ("page_start", ps), ("", "0"), ("V", "1"), ("page_start ", "2")]));
    j.push(env(&[("v", r#""v1""#), ("v", r#""v1""#), ("page_start", ps)]));
    j.push(env(&[("v", r#""v1""#), ("page_start", ps), ("page_start", ps)]));
    j.push(env(&[("v", r#""v1""#), ("page_start", ps), ("v", r#""v2""#)]));
    j.push(env(&[("page_start", ps), ("v", r#""v1""#)]));
    j.push(env(&[("\\u0076", r#""v1""#), ("page_\\u0073tart", ps)]));
    // array envelope
    j.push(format!(r#"["v1",{}]"#, ps));
    j.push(r#"["v1"]"#.into());
    j.push(format!(r#"["v1",{},1]"#, ps));
    j.push(format!(r#"[{},"v1"]"#, ps));
    j.push(format!(r#"[{{"v1":null}},{}]"#, ps));
    j.push(format!(r#"["v2",{}]"#, ps));
    j.push("[]".into());
    // wrong JSON type for page_start (type-dependent verdict)
    for x in ["null", "1", r#""s""#, "[]", "{}", "true", "[1]", r#"{"a":1}"#, r#"[[]]"#, r#""red""#, r#"{"red":null}"#, r#""start""#, r#"{"start":null}"#, r#"{"id":7}"#, r#"{"id":[7]}"#, r#"{"name":["ascending","q"]}"#, r#"{"name":["ascending"]}"#, r#"{"name":"ascending"}"#, r#""name""#, r#"{"id":7,"start":null}"#, "18446744073709551615", "18446744073709551616", "-1", "-9223372036854775808", "-9223372036854775809", "9223372036854775807", "9223372036854775808"] {
        j.push(env(&[("v", r#""v1""#), ("page_start", x)]));
    }
    for x in alt_ps {
        j.push(env(&[("v", r#""v1""#), ("page_start", x)]));
    }
    // whole document of the wrong shape
    for x in [r#""v1""#, "1", "null", "true", r#"{"v":"v1","page_start":"#, "{", "", " ", "nul", r#"{"v":"v1""#] {
        j.push(x.to_string());
    }
    // whitespace, trailing bytes, bad syntax
    j.push(format!(" {{ \"v\" :\t\"v1\" ,\n\"page_start\"\r: {} }} \n", ps));
    j.push(format!("{}x", env(&[("v", r#""v1""#), ("page_start", ps)])));
    j.push(format!("{}{{}}", env(&[("v", r#""v1""#), ("page_start", ps)])));
    j.push(format!("{} ", env(&[("v", r#""v1""#), ("page_start", ps)])));
    j.push(format!("{},", env(&[("v", r#""v1""#), ("page_start", ps)])));
    j.push(format!(r#"{{"v":"v1","page_start":{},}}"#, ps));
    j.push(format!(r#"{{"v":"v1" "page_start":{}}}"#, ps));
    j.push(format!(r#"{{"v":"v1","page_start":{},"x":01}}"#, ps));
    j.push(format!(r#"{{"v":"v1","page_start":{},"x":"\ud800"}}"#, ps));
    j.push(format!(r#"{{"v":"v1","page_start":{},"x":"\udc00\ud800"}}"#, ps));
    j.push(format!(r#"{{"v":"v1","page_start":{},"x":"\q"}}"#, ps));
    j.push(format!("{{\"v\":\"v1\",\"page_start\":{},\"x\":\"\t\"}}", ps));
    j.push(format!(r#"{{"v":"v1","page_start":{},"x":"😀\/\b\f"}}"#, ps));
    j.push(format!(r#"{{'v':'v1','page_start':{}}}"#, ps));
    // whitespace padding up to and across the 512 bound (trailing spaces are valid JSON)
    let base = env(&[("v", r#""v1""#), ("page_start", ps)]);
    for target in [381usize, 382, 383, 384, 385, 386, 387, 388, 390] {
        if base.len() <= target {
            let mut s = base.clone();
            while s.len() < target {
                s.push(' ');
            }
            j.push(s);
        }
    }
    // nesting depth around serde_json's recursion limit, in an ignored field
    for d in [125usize, 126, 127, 128] {
        let x = format!("{}{}", "[".repeat(d), "]".repeat(d));
        let s = env(&[("v", r#""v1""#), ("x", &x), ("page_start", ps)]);
        if s.len() <= 384 {
            j.push(s);
        }
    }
    for s in &j {
        m.push(b64(s.as_bytes()));
    }
    // token-level
    let t = token.to_string();
    for k in 1..=4 {
        if t.len() >= k {
            m.push(t[..t.len() - k].to_string());
        }
        m.push(format!("{}{}", t, "A".repeat(k)));
        m.push(format!("{}{}", t, "=".repeat(k)));
    }
    m.push(t.replace('-', "+").replace('_', "/"));
    m.push(t.replace('A', "-").replace('B', "_"));
    m.push(t.replace('e', "+"));
    m.push(t.replace('w', "/"));
    m.push(t.trim_end_matches('=').to_string());
    m.push(format!("={}", t));
    if t.len() > 8 {
        let mid = t.len() / 2;
        m.push(format!("{}={}", &t[..mid], &t[mid + 1..]));
        m.push(format!("{} {}", &t[..mid], &t[mid..]));
        m.push(format!("{}\n{}", &t[..mid], &t[mid..]));
        m.push(format!("{}%{}", &t[..mid], &t[mid + 1..]));
        m.push(format!("{}\u{e9}{}", &t[..mid], &t[mid + 1..]));
    }
    // non-zero trailing bits: bump the last symbol before the padding
    {
        let core = t.trim_end_matches('=');
        let pad = &t[core.len()..];
        if !core.is_empty() {
            let alphabet = b"ABCDEFGHIJKLMNOPQRSTUVWXYZabcdefghijklmnopqrstuvwxyz0123456789-_";
            let last = core.as_bytes()[core.len() - 1];
            if let Some(p) = alphabet.iter().position(|c| *c == last) {
                for d in [1usize, 2, 3, 4, 16] {
                    let nc = alphabet[(p + d) % 64] as char;
                    m.push(format!("{}{}{}", &core[..core.len() - 1], nc, pad));
                }
            }
        }
    }
    // 1-2 random single-symbol substitutions inside the alphabet (still valid base64;
    // JSON may or may not survive) restricted to the envelope prefix so the
    // damaged text stays in the modelled fragment (ASCII punctuation/letters).
    for _ in 0..6 {
        let mut b = t.clone().into_bytes();
        if b.len() > 4 {
            let i = rng.below(b.len().min(30) as u64) as usize;
            let alphabet = b"ABCDEFGHIJKLMNOPQRSTUVWXYZabcdefghijklmnopqrstuvwxyz0123456789-_";
            b[i] = alphabet[rng.below(64) as usize];
            m.push(String::from_utf8(b).unwrap());
        }
    }
    m
}

/// Exact mutations may leave the modelled JSON fragment (floats, `-0`,
/// integers with more than 19 digits inside ignored fields): such documents are
/// routed to the oracle stream instead.
fn in_fragment(tok: &str) -> bool {
    let Ok(bytes) = URL_SAFE.decode(tok.as_bytes()) else {
        return true;
    };
    let Ok(s) = std::str::from_utf8(&bytes) else {
        // invalid UTF-8: inside an *ignored* string serde_json does not
        // validate; keep it out of the exact stream
        return false;
    };
    // outside string literals: no '.', 'e', 'E' after a digit, no "-0", no > 19 digit runs
    let b = s.as_bytes();
    let mut i = 0;
    let mut in_str = false;
    while i < b.len() {
        let c = b[i];
        if in_str {
            if c == b'\\' {
                // lone / unpaired surrogates inside ignored strings are not validated either
                if i + 1 < b.len() && b[i + 1] == b'u' {
                    let h = &s[i + 2..(i + 6).min(s.len())];
                    if let Ok(v) = u32::from_str_radix(h, 16) {
                        if (0xD800..0xE000).contains(&v) {
                            return false;
                        }
                    }
                }
                i += 2;
                continue;
            }
            if c == b'"' {
                in_str = false;
            }
            if c < 0x20 {
                return true; // both refuse
            }
            i += 1;
            continue;
        }
        if c == b'"' {
            in_str = true;
        } else if c == b'-' || c.is_ascii_digit() {
            let st = i;
            if c == b'-' {
                i += 1;
            }
            let ds = i;
            while i < b.len() && b[i].is_ascii_digit() {
                i += 1;
            }
            let nd = i - ds;
            if nd > 19 {
                return false;
            }
            if b[st] == b'-' && nd == 1 && b[ds] == b'0' {
                return false;
            }
            if i < b.len() && (b[i] == b'.' || b[i] == b'e' || b[i] == b'E') {
                return false;
            }
            continue;
        }
        i += 1;
    }
    true
}

/// A selector whose serialisation fails after part of it has been written.
struct FailsLate {
    name: String,
}
impl Serialize for FailsLate {
    fn serialize<S: serde::Serializer>(&self, s: S) -> Result<S::Ok, S::Error> {
        use serde::ser::SerializeStruct;
        let mut st = s.serialize_struct("FailsLate", 2)?;
        st.serialize_field("name", &self.name)?;
        Err(serde::ser::Error::custom("this selector cannot be serialised"))
    }
}

/// History: a token that could not be issued (the selector fails to serialise part-way: a
/// 500 for that request) must leave nothing behind for the tokens issued afterwards.
fn failed_issue_first() -> bool {
    matches!(
        catch(|| hooks::serialize_page_token(&FailsLate { name: "left-over \"fragment\" of a failed token".repeat(3) })),
        Ok(Err(_))
    )
}

fn run_type<T: Serialize + DeserializeOwned + std::panic::RefUnwindSafe>(
    out: &mut Out,
    ctr: &mut Ctr,
    rng: &mut Rng,
    ty: &str,
    values: &[T],
    alt_ps: &[&str],
    mutate_every: usize,
) {
    let tyh = hex(ty.as_bytes());
    for (vi, v) in values.iter().enumerate() {
        let sj = serde_json::to_vec(v).unwrap();
        // every third token is issued right after one that could not be
        let clean_failure = vi % 3 != 1 || failed_issue_first();
        let issued = catch(|| hooks::serialize_page_token(v));
        let line = match &issued {
            _ if !clean_failure => "panic".to_string(),
            Err(_) => "panic".to_string(),
            Ok(Err(e)) => format!("err {}", e.status_code.as_u16()),
            Ok(Ok(t)) => {
                let back = read_back::<T>(t).replace(' ', ":");
                format!("ok {} {}", hex(t.as_bytes()), back)
            }
        };
        out.line(&format!("iss {} {} {} => {}", ctr.next("i"), tyh, hex(&sj), line));
        let Ok(Ok(tok)) = issued else { continue };
        let every = if is_thorough() { 1 } else { (mutate_every + 2) / 3 };
        if mutate_every == 0 || vi % every.max(1) != 0 {
            continue;
        }
        let sjs = String::from_utf8(sj.clone()).unwrap();
        for mt in exact_mutations(&sjs, &tok, alt_ps, rng) {
            let r = read_back::<T>(&mt);
            let stream = if in_fragment(&mt) { "tok" } else { "orc" };
            out.line(&format!("{} {} {} {} => {}", stream, ctr.next("t"), tyh, hex(mt.as_bytes()), r));
        }
        // oracle-only: arbitrary byte flips / insertions / deletions
        let n_orc = if is_thorough() { 400 } else { 80 };
        for _ in 0..n_orc {
            let mt = random_damage(&tok, rng);
            let r = read_back::<T>(&mt);
            out.line(&format!("orc {} {} {} => {}", ctr.next("o"), tyh, hex(mt.as_bytes()), r));
        }
    }
}

fn random_damage(tok: &str, rng: &mut Rng) -> String {
    let mut cs: Vec<char> = tok.chars().collect();
    let k = 1 + rng.below(3);
    for _ in 0..k {
        let any = |rng: &mut Rng| -> char {
            match rng.below(6) {
                0 => char::from_u32(rng.below(0x80) as u32).unwrap(),
                1 => char::from_u32(0x80 + rng.below(0x700) as u32).unwrap(),
                2 => *rng.pick(&['+', '/', '=', '-', '_', ' ', '\0', '\u{FFFD}', '\u{1F600}']),
                _ => *rng.pick(&"ABCDEFGHIJKLMNOPQRSTUVWXYZabcdefghijklmnopqrstuvwxyz0123456789-_".chars().collect::<Vec<_>>()),
            }
        };
        let n = cs.len().max(1);
        match rng.below(4) {
            0 => {
                let i = rng.below(n as u64) as usize;
                if i < cs.len() {
                    cs[i] = any(rng);
                }
            }
            1 => {
                let i = rng.below(n as u64 + 1) as usize;
                cs.insert(i.min(cs.len()), any(rng));
            }
            2 => {
                if !cs.is_empty() {
                    let i = rng.below(cs.len() as u64) as usize;
                    cs.remove(i);
                }
            }
            _ => {
                // flip one bit of an ASCII symbol
                let i = rng.below(n as u64) as usize;
                if i < cs.len() && cs[i].is_ascii() {
                    let b = (cs[i] as u8) ^ (1 << rng.below(7));
                    cs[i] = b as char;
                }
            }
        }
    }
    // sometimes make the damaged token over-long as well, with a multi-byte character
    // somewhere near its start (whatever the refusal message is built from, it is a refusal)
    if rng.chance(1, 5) {
        let multi = *rng.pick(&['é', 'ß', '日', '\u{1F600}', '\u{80}', '\u{7FF}', '\u{FFFD}']);
        let at = (rng.below(64) as usize).min(cs.len());
        cs.insert(at, multi);
        let want = 513 + rng.below(200) as usize;
        let mut len: usize = cs.iter().map(|c| c.len_utf8()).sum();
        while len < want {
            cs.push(*rng.pick(&['A', 'b', '7', '-', '_', 'é']));
            len = cs.iter().map(|c| c.len_utf8()).sum();
        }
    }
    cs.into_iter().collect()
}

/// Selector values of type `T` built by `mk(pad)` so that their JSON lengths
/// cover `lens` exactly.
fn sized<T: Serialize>(rng: &mut Rng, lens: &[usize], mk: &dyn Fn(String) -> T) -> Vec<T> {
    let mut out = Vec::new();
    let base = json_len(&mk(String::new()));
    for &l in lens {
        if l < base {
            continue;
        }
        let plain = rng.chance(1, 4);
        let v = mk(unicode_string(rng, l - base, plain));
        assert_eq!(json_len(&v), l);
        out.push(v);
    }
    out
}

fn nest(d: usize) -> N {
    let mut n = N(vec![]);
    for _ in 0..d {
        n = N(vec![n]);
    }
    n
}

// ---------------------------------------------------------------- query-level types

#[derive(Serialize, Deserialize, Debug, Clone, PartialEq, JsonSchema)]
#[serde(rename_all = "kebab-case")]
enum Sort {
    ByIdAscending,
    ByIdDescending,
}

#[derive(Deserialize, Debug, Clone, JsonSchema)]
struct ScanP {
    sort: Option<Sort>,
}

#[derive(Serialize, Deserialize, Debug, Clone, PartialEq)]
struct SelS {
    last: u64,
}

fn qry_result(q: &str) -> String {
    let qs = q.to_string();
    let r = catch(move || serde_urlencoded::from_str::<PaginationParams<ScanP, SelS>>(&qs));
    match r {
        Err(_) => "panic".into(),
        Ok(Err(_)) => "err".into(),
        Ok(Ok(p)) => {
            // the same rule `RequestContext::page_limit` applies needs a server; the
            // raw client limit is visible through Debug only (pub(crate) field)
            let dbg = format!("{:?}", p);
            let lim = match dbg.rfind("limit: ") {
                Some(i) => {
                    let t = &dbg[i + 7..];
                    if t.starts_with("None") {
                        "none".to_string()
                    } else {
                        t.trim_start_matches("Some(").chars().take_while(|c| c.is_ascii_digit()).collect()
                    }
                }
                None => "?".into(),
            };
            match p.page {
                WhichPage::First(s) => format!(
                    "first {} {}",
                    match s.sort {
                        None => "none",
                        Some(Sort::ByIdAscending) => "by-id-ascending",
                        Some(Sort::ByIdDescending) => "by-id-descending",
                    },
                    lim
                ),
                WhichPage::Next(s) => format!("next {} {}", hex(&serde_json::to_vec(&s).unwrap()), lim),
            }
        }
    }
}

fn limit_strings() -> Vec<String> {
    let alpha: Vec<char> = "0123456789-+a. ".chars().collect();
    let mut v = vec![String::new()];
    let mut frontier = vec![String::new()];
    for _ in 0..3 {
        let mut next = Vec::new();
        for s in &frontier {
            for c in &alpha {
                let mut t = s.clone();
                t.push(*c);
                next.push(t);
            }
        }
        v.extend(next.iter().cloned());
        frontier = next;
    }
    for e in [
        "4294967295", "4294967296", "4294967294", "04294967295", "+4294967295", "00000000000000000001",
        "18446744073709551615", "18446744073709551616", "99999999999999999999999999", "2147483647", "2147483648",
        "-4294967295", "10000", "10001", "9999", "100", "1_000", "0x10", "1e3", "١٢", "１", "1\u{0}", "\u{feff}1",
        "١", "+", "-", "++1", "+-1", "+0", "-0", "00", "000", "1.0", " 1", "1 ", "\t1", "1\n", "NaN", "inf", "true", "١٠",
    ] {
        v.push(e.to_string());
    }
    v
}

// ---------------------------------------------------------------- live endpoint

struct Coll {
    n: u64,
}

#[endpoint { method = GET, path = "/items" }]
async fn list_items(
    rqctx: RequestContext<Coll>,
    query: Query<PaginationParams<ScanP, SelS>>,
) -> Result<HttpResponseOk<ResultsPage<u64>>, HttpError> {
    let p = query.into_inner();
    let limit = rqctx.page_limit(&p)?.get() as u64;
    let n = rqctx.context().n;
    let start = match &p.page {
        WhichPage::First(_) => 0,
        WhichPage::Next(SelS { last }) => last.saturating_add(1),
    };
    let items: Vec<u64> = (start.min(n)..n).take(limit as usize).collect();
    Ok(HttpResponseOk(ResultsPage::new(items, &(), |i: &u64, _| SelS { last: *i })?))
}

#[derive(Deserialize)]
struct PageOut {
    next_page: Option<String>,
    items: Vec<u64>,
}

fn srv_case(addr: std::net::SocketAddr, query: &str) -> String {
    let target = if query.is_empty() { "/items".to_string() } else { format!("/items?{}", query) };
    let req = build_request("GET", &target, &[("connection", "close")], b"");
    for _attempt in 0..3 {
        if let Some(r) = roundtrip(addr, &req, false) {
            if !r.well_formed {
                return format!("0 0 - 0 malformed:{}", r.problem.replace(' ', "_"));
            }
            if r.status == 200 {
                return match serde_json::from_slice::<PageOut>(&r.body) {
                    Ok(p) => format!(
                        "200 {} {} {}",
                        p.items.len(),
                        p.items.first().map(|x| x.to_string()).unwrap_or("-".into()),
                        if p.next_page.is_some() { 1 } else { 0 }
                    ),
                    Err(_) => "200 0 - 0 bad-body".to_string(),
                };
            }
            return format!("{} 0 - 0", r.status);
        }
        std::thread::sleep(std::time::Duration::from_millis(50));
    }
    "0 0 - 0 no-response".to_string()
}

// ---------------------------------------------------------------- main

fn main() {
    quiet_panics();
    let mut out = Out::new();
    let mut ctr = Ctr(0);
    let mut rng = Rng::from_env(14);

    // JSON lengths of the selector: envelope adds 24 bytes; token length is
    // 4*ceil((L+24)/3): L = 330..378 covers token lengths 472..536.
    let all_lens: Vec<usize> = (326..=380).collect();
    let some_lens: Vec<usize> = vec![8, 40, 100, 200, 300, 333, 336, 350, 357, 358, 359, 360, 361, 362, 363, 364, 366, 372, 400, 1000];

    // String
    let vals = sized(&mut rng, &all_lens, &|p| p);
    run_type::<String>(&mut out, &mut ctr, &mut rng, "\"S\"", &vals, &[], 9);
    let vals = sized(&mut rng, &[2, 3, 10, 57], &|p| p);
    run_type::<String>(&mut out, &mut ctr, &mut rng, "\"S\"", &vals, &[], 1);

    // integers, bool, unit enum
    let u: Vec<u64> = vec![0, 1, 9, 10, 255, 256, 4294967295, 4294967296, 9223372036854775807, 9223372036854775808, u64::MAX, u64::MAX - 1];
    run_type::<u64>(&mut out, &mut ctr, &mut rng, "\"U64\"", &u, &[], 4);
    let i: Vec<i64> = vec![0, -1, 1, i64::MIN, i64::MIN + 1, i64::MAX, -4294967296, 1000000];
    run_type::<i64>(&mut out, &mut ctr, &mut rng, "\"I64\"", &i, &[], 3);
    // 128-bit selectors (ids, addresses): serde_json writes and reads them exactly
    let w: Vec<u128> = vec![0, u64::MAX as u128, 1u128 << 64, (1u128 << 64) + 1, 1u128 << 100, u128::MAX - 1, u128::MAX];
    run_type::<u128>(&mut out, &mut ctr, &mut rng, "\"U128\"", &w, &[], 0);
    let wi: Vec<i128> = vec![0, -1, i64::MIN as i128, (i64::MIN as i128) - 1, (i64::MAX as i128) + 1, i128::MIN, i128::MAX];
    run_type::<i128>(&mut out, &mut ctr, &mut rng, "\"I128\"", &wi, &[], 0);
    run_type::<bool>(&mut out, &mut ctr, &mut rng, "\"B\"", &[true, false], &[], 1);
    run_type::<Color>(&mut out, &mut ctr, &mut rng, &ty_color(), &[Color::Red, Color::Green, Color::Blue], &[], 2);

    // struct with every scalar kind
    let mut k = 0u64;
    let mut mk_a = |p: String| -> SelA {
        k += 1;
        SelA {
            name: p,
            id: [0, u64::MAX, 42, 1 << 53][(k % 4) as usize],
            neg: [i64::MIN, -1, 0, i64::MAX][(k % 4) as usize],
            flag: k % 2 == 0,
            ord: if k % 3 == 0 { PaginationOrder::Ascending } else { PaginationOrder::Descending },
            tag: if k % 5 == 0 { None } else { Some(format!("t{}", k)) },
            color: [Color::Red, Color::Green, Color::Blue][(k % 3) as usize].clone(),
        }
    };
    let mut vals_a = Vec::new();
    for &l in all_lens.iter().chain(some_lens.iter()) {
        // base changes with k; build, then fix the pad length
        let mut v = mk_a(String::new());
        let b = json_len(&v);
        if l < b {
            continue;
        }
        let plain = rng.chance(1, 4);
        v.name = unicode_string(&mut rng, l - b, plain);
        assert_eq!(json_len(&v), l);
        vals_a.push(v);
    }
    let sela_alts = [
        r#"{"name":"n","id":1,"neg":-1,"flag":true,"ord":"ascending","color":"red"}"#,
        r#"{"name":"n","id":1,"neg":-1,"flag":true,"ord":"ascending","tag":null,"color":"red","zzz":[1,{"q":"r"}]}"#,
        r#"{"id":1,"neg":-1,"flag":true,"ord":"ascending","tag":null,"color":"red"}"#,
        r#"{"name":"n","name":"m","id":1,"neg":-1,"flag":true,"ord":"ascending","tag":null,"color":"red"}"#,
        r#"["n",1,-1,true,"ascending",null,"red"]"#,
        r#"["n",1,-1,true,"ascending",null]"#,
        r#"["n",1,-1,true,"ascending",null,"red",0]"#,
        r#"{"name":"n","id":-1,"neg":-1,"flag":true,"ord":"ascending","tag":null,"color":"red"}"#,
        r#"{"name":"n","id":18446744073709551616,"neg":-1,"flag":true,"ord":"ascending","tag":null,"color":"red"}"#,
        r#"{"name":"n","id":1,"neg":9223372036854775808,"flag":true,"ord":"ascending","tag":null,"color":"red"}"#,
        r#"{"name":"n","id":1,"neg":-1,"flag":"true","ord":"ascending","tag":null,"color":"red"}"#,
        r#"{"name":"n","id":1,"neg":-1,"flag":true,"ord":"Ascending","tag":null,"color":"red"}"#,
        r#"{"name":"n","id":1,"neg":-1,"flag":true,"ord":{"descending":null},"tag":"x","color":{"blue":null}}"#,
        r#"{"name":"n","id":1,"neg":-1,"flag":true,"ord":"ascending","tag":7,"color":"red"}"#,
        r#"{"name":1,"id":1,"neg":-1,"flag":true,"ord":"ascending","tag":null,"color":"red"}"#,
        r#"{"color":"blue","tag":null,"ord":"descending","flag":false,"neg":0,"id":0,"name":""}"#,
    ];
    run_type::<SelA>(&mut out, &mut ctr, &mut rng, &ty_sela(), &vals_a, &sela_alts, 11);
    // Option<SelA>: a missing page_start is `None`
    let opt_vals: Vec<Option<SelA>> = vec![None, Some(vals_a[0].clone()), Some(vals_a[vals_a.len() / 2].clone())];
    run_type::<Option<SelA>>(&mut out, &mut ctr, &mut rng, &format!(r#"{{"O":{}}}"#, ty_sela()), &opt_vals, &sela_alts, 1);

    // enum with tuple / newtype / unit variants (as in examples/pagination-multiple-sorts.rs)
    let mut vals_e: Vec<SelE> = vec![SelE::Start, SelE::Id(0), SelE::Id(u64::MAX)];
    vals_e.extend(sized(&mut rng, &all_lens, &|p| SelE::Name(PaginationOrder::Descending, p)));
    vals_e.extend(sized(&mut rng, &some_lens, &|p| SelE::MtimeName(PaginationOrder::Ascending, i64::MIN, p)));
    let sele_alts = [
        r#"{"mtime-name":["ascending",5,"z"]}"#,
        r#"{"mtime-name":["ascending",5]}"#,
        r#"{"mtime-name":["ascending",5,"z",1]}"#,
        r#"{"mtime-name":["ascending","5","z"]}"#,
        r#"{"MtimeName":["ascending",5,"z"]}"#,
        r#"{"id":18446744073709551615}"#,
        r#"{"id":null}"#,
        r#"{}"#,
        r#"{"name":[{"ascending":null},"q"]}"#,
        r#"{"start":[]}"#,
        r#""id""#,
    ];
    run_type::<SelE>(&mut out, &mut ctr, &mut rng, &ty_sele(), &vals_e, &sele_alts, 13);

    // nested vec / struct / tuple
    let mut vals_b: Vec<SelB> = Vec::new();
    for (idx, &l) in all_lens.iter().chain(some_lens.iter()).enumerate() {
        let mk = |p: String| SelB {
            path: vec![
                SelC { k: p, n: if idx % 2 == 0 { None } else { Some(u64::MAX) } },
                SelC { k: "\u{0}\u{1f}\"".into(), n: Some(idx as u64) },
            ],
            last: (-(idx as i64), idx as u64),
            deep: vec![vec![], vec![true, false], vec![idx % 2 == 0]],
        };
        let base = json_len(&mk(String::new()));
        if l < base {
            continue;
        }
        let v = mk(unicode_string(&mut rng, l - base, false));
        assert_eq!(json_len(&v), l);
        vals_b.push(v);
    }
    vals_b.push(SelB { path: vec![], last: (0, 0), deep: vec![] });
    let selb_alts = [
        r#"{"path":[],"last":[1,2],"deep":[]}"#,
        r#"{"path":[],"last":[1],"deep":[]}"#,
        r#"{"path":[],"last":[1,2,3],"deep":[]}"#,
        r#"{"path":[],"last":[1,-2],"deep":[]}"#,
        r#"{"path":[{"k":"a"}],"last":[1,2],"deep":[[true],[]]}"#,
        r#"{"path":[{"n":1}],"last":[1,2],"deep":[]}"#,
        r#"{"path":[["a",null],["b",3]],"last":[1,2],"deep":[]}"#,
        r#"{"path":{},"last":[1,2],"deep":[]}"#,
        r#"{"path":[],"last":[1,2],"deep":[[1]]}"#,
        r#"{"path":[],"last":{"0":1,"1":2},"deep":[]}"#,
        r#"[[],[1,2],[]]"#,
    ];
    run_type::<SelB>(&mut out, &mut ctr, &mut rng, &ty_selb(), &vals_b, &selb_alts, 14);

    // Vec<String>
    let vals_v: Vec<Vec<String>> = sized(&mut rng, &[2, 20, 340, 355, 359, 360, 361, 365, 370], &|p| vec![p.clone()])
        .into_iter()
        .chain(vec![vec![], vec!["".into(), "".into()]])
        .collect();
    run_type::<Vec<String>>(&mut out, &mut ctr, &mut rng, r#"{"V":"S"}"#, &vals_v, &[], 4);

    // recursive selector: nesting up to and beyond serde_json's recursion limit
    // and up to and beyond the size bound (finding K4 lives at depth >= 126)
    let deep: Vec<N> = [0usize, 1, 2, 50, 100, 120, 124, 125, 126, 127, 128, 129, 150, 170, 177, 178, 179, 180, 181, 200, 300]
        .iter()
        .map(|d| nest(*d))
        .collect();
    run_type::<N>(&mut out, &mut ctr, &mut rng, "\"N\"", &deep, &[], 7);

    // ---- query level
    let tok = hooks::serialize_page_token(&SelS { last: 41 }).unwrap();
    let tok2 = hooks::serialize_page_token(&SelS { last: u64::MAX }).unwrap();
    let bad_tok = b64(br#"{"v":"v2","page_start":{"last":41}}"#);
    let mut queries: Vec<(String, Option<String>)> = Vec::new();
    for s in limit_strings() {
        queries.push((format!("limit={}", pct_encode(s.as_bytes())), None));
        if s.is_ascii() && !s.contains('&') && !s.contains('#') && !s.contains('\n') && !s.contains('\t') && !s.contains('\0') {
            queries.push((format!("limit={}", s), None));
        }
    }
    for (q, t) in [
        ("".to_string(), None),
        ("&&".to_string(), None),
        ("limit".to_string(), None),
        ("limit=".to_string(), None),
        ("limit=1&limit=2".to_string(), None),
        ("limit=1&limit=1".to_string(), None),
        ("limit=1&limit=".to_string(), None),
        ("limit=0&limit=1".to_string(), None),
        ("Limit=5".to_string(), None),
        ("limit%20=5".to_string(), None),
        ("%6cimit=5".to_string(), None),
        ("sort=by-id-ascending".to_string(), None),
        ("sort=by-id-descending&limit=7".to_string(), None),
        ("sort=bogus".to_string(), None),
        ("sort=".to_string(), None),
        ("sort=by-id-ascending&sort=bogus".to_string(), None),
        ("sort=bogus&sort=by-id-descending".to_string(), None),
        ("bogus=1&other=2".to_string(), None),
        ("sort=By-Id-Ascending".to_string(), None),
        ("sort=by-id-ascending&bogus=%ff".to_string(), None),
        (format!("page_token={}", tok), Some(tok.clone())),
        (format!("page_token={}&limit=12", tok), Some(tok.clone())),
        (format!("limit=12&page_token={}", tok), Some(tok.clone())),
        (format!("sort=by-id-descending&page_token={}", tok), Some(tok.clone())),
        (format!("page_token={}&sort=bogus", tok), Some(tok.clone())),
        (format!("sort=bogus&page_token={}&bogus=1&limit=4294967295", tok), Some(tok.clone())),
        (format!("page_token={}&page_token={}", bad_tok, tok), Some(tok.clone())),
        (format!("page_token={}&page_token={}", tok, bad_tok), Some(bad_tok.clone())),
        (format!("page_token={}&page_token={}", tok, tok2), Some(tok2.clone())),
        (format!("page_token={}", bad_tok), Some(bad_tok.clone())),
        (format!("sort=by-id-ascending&page_token={}", bad_tok), Some(bad_tok.clone())),
        ("page_token=".to_string(), Some(String::new())),
        ("page_token".to_string(), Some(String::new())),
        ("page_token=q".to_string(), Some("q".to_string())),
        (format!("page_token={}&limit=0", tok), Some(tok.clone())),
        (format!("page_token={}&limit=-3", tok), Some(tok.clone())),
        (format!("page_token={}&limit=1&limit=2", tok), Some(tok.clone())),
        (format!("Page_Token={}", tok), None),
        (format!("page%5Ftoken={}", tok), Some(tok.clone())),
        (format!("page_token={}", tok.replace('=', "%3D")), Some(tok.clone())),
        (format!("page_token={}", tok.replace('e', "%65")), Some(tok.clone())),
        (format!("page_token={}+", tok), Some(format!("{} ", tok))),
    ] {
        queries.push((q, t));
    }
    for (q, t) in &queries {
        let r = qry_result(q);
        let alone = match t {
            Some(t) => format!(" / {}", qry_result(&format!("page_token={}", pct_encode(t.as_bytes())))),
            None => String::new(),
        };
        out.line(&format!("qry {} {} => {}{}", ctr.next("q"), hex(q.as_bytes()), r, alone));
    }
    out.flush();

    // ---- live endpoint
    let rt = tokio::runtime::Builder::new_multi_thread().worker_threads(4).enable_all().build().unwrap();
    let n_items: u64 = 12000;
    let server = rt.block_on(async {
        let mut api = ApiDescription::new();
        api.register(list_items).unwrap();
        start_server(api, Coll { n: n_items }, ServerOpts::default())
    });
    let addr = server.local_addr();
    let limits: Vec<Option<&str>> = vec![
        None, Some("1"), Some("5"), Some("100"), Some("101"), Some("9999"), Some("10000"), Some("10001"),
        Some("4294967295"), Some("4294967296"), Some("0"), Some("-1"), Some("abc"), Some("+7"), Some(" 7"), Some(""),
        Some("18446744073709551616"), Some("007"), Some("1.5"),
    ];
    let tok_at = |k: u64| hooks::serialize_page_token(&SelS { last: k }).unwrap();
    let mut tokens: Vec<Option<String>> = vec![
        None,
        Some(tok_at(0)),
        Some(tok_at(41)),
        Some(tok_at(1999)),
        Some(tok_at(n_items - 3)),
        Some(tok_at(n_items - 1)),
        Some(tok_at(n_items + 5)),
        Some(tok_at(u64::MAX)),
    ];
    // refused tokens from the exact grammar (a spread of kinds)
    let exact = exact_mutations(r#"{"last":41}"#, &tok_at(41), &[r#"{"last":-1}"#, r#"{"last":"41"}"#, r#"[41]"#, r#"{"last":41,"more":1}"#], &mut rng);
    let stride = if is_thorough() { 1 } else { 3 };
    let n_fixed = tokens.len();
    for (i, t) in exact.iter().enumerate() {
        if i % stride == 0 && in_fragment(t) {
            tokens.push(Some(t.clone()));
        }
    }
    for (ti, t) in tokens.iter().enumerate() {
        for (li, l) in limits.iter().enumerate() {
            // full cross for well-formed tokens; refused tokens with a few limits
            if ti >= n_fixed && !(li == 0 || li == 2 || li == 7 || li == 10) {
                continue;
            }
            for extra in ["", "sort=by-id-descending", "sort=bogus"] {
                if !extra.is_empty() && !(li <= 1 && (ti <= 2 || ti % 10 == 0)) {
                    continue;
                }
                let mut parts: Vec<String> = Vec::new();
                if !extra.is_empty() {
                    parts.push(extra.to_string());
                }
                if let Some(l) = l {
                    parts.push(format!("limit={}", pct_encode(l.as_bytes())));
                }
                if let Some(t) = t {
                    parts.push(format!("page_token={}", pct_encode(t.as_bytes())));
                }
                let q = parts.join("&");
                let r = srv_case(addr, &q);
                out.line(&format!(
                    "srv {} {} {} {} => {}",
                    ctr.next("s"),
                    l.map(|l| hex(l.as_bytes())).map(|h| format!("L{}", h)).unwrap_or("none".into()),
                    t.as_ref().map(|t| format!("T{}", hex(t.as_bytes()))).unwrap_or("none".into()),
                    if extra.is_empty() { "-".to_string() } else { hex(extra.as_bytes()) },
                    r
                ));
            }
        }
    }
    // oracle-only through the server: arbitrary bytes (also invalid UTF-8) in the token
    let n_sro = if is_thorough() { 5000 } else { 1000 };
    for _ in 0..n_sro {
        let base = tok_at(rng.below(n_items));
        let mut b = random_damage(&base, &mut rng).into_bytes();
        if rng.chance(1, 3) && !b.is_empty() {
            let i = rng.below(b.len() as u64) as usize;
            b[i] = 0x80 + rng.below(0x80) as u8;
        }
        let q = format!("page_token={}", pct_encode(&b));
        let r = srv_case(addr, &q);
        out.line(&format!("sro {} {} => {}", ctr.next("r"), hex(&b), r));
    }
    out.flush();
    rt.block_on(async {
        let _ = server.close().await;
    });
}
