use std::io::Write;

/// splitmix64: the only source of randomness in the harness.
#[derive(Clone)]
pub struct Rng(pub u64);

impl Rng {
    pub fn from_env(stream: u64) -> Rng {
        let seed: u64 = std::env::var("VERIF_SEED")
            .ok()
            .and_then(|s| s.parse().ok())
            .unwrap_or(0);
        Rng(seed.wrapping_mul(0x9E3779B97F4A7C15) ^ stream.wrapping_mul(0xD1B54A32D192ED03))
    }
    pub fn next(&mut self) -> u64 {
        self.0 = self.0.wrapping_add(0x9E3779B97F4A7C15);
        let mut z = self.0;
        z = (z ^ (z >> 30)).wrapping_mul(0xBF58476D1CE4E5B9);
        z = (z ^ (z >> 27)).wrapping_mul(0x94D049BB133111EB);
        z ^ (z >> 31)
    }
    pub fn below(&mut self, n: u64) -> u64 {
        if n == 0 { 0 } else { self.next() % n }
    }
    pub fn range(&mut self, lo: u64, hi_incl: u64) -> u64 {
        lo + self.below(hi_incl - lo + 1)
    }
    pub fn chance(&mut self, num: u64, den: u64) -> bool {
        self.below(den) < num
    }
    pub fn pick<'a, T>(&mut self, xs: &'a [T]) -> &'a T {
        &xs[self.below(xs.len() as u64) as usize]
    }
    pub fn pick_s<'a>(&mut self, xs: &[&'a str]) -> &'a str {
        xs[self.below(xs.len() as u64) as usize]
    }
}

pub fn hex(b: &[u8]) -> String {
    if b.is_empty() {
        return "-".to_string();
    }
    let mut s = String::with_capacity(b.len() * 2);
    for x in b {
        s.push_str(&format!("{:02x}", x));
    }
    s
}

pub fn unhex(s: &str) -> Vec<u8> {
    if s == "-" {
        return vec![];
    }
    (0..s.len() / 2)
        .map(|i| u8::from_str_radix(&s[2 * i..2 * i + 2], 16).unwrap())
        .collect()
}

pub fn tier() -> String {
    std::env::var("VERIF_TIER").unwrap_or_else(|_| "quick".to_string())
}

pub fn is_thorough() -> bool {
    tier() == "thorough"
}

/// Buffered line writer on stdout.
pub struct Out(std::io::BufWriter<std::io::Stdout>);

impl Out {
    pub fn new() -> Out {
        Out(std::io::BufWriter::with_capacity(1 << 20, std::io::stdout()))
    }
    pub fn line(&mut self, s: &str) {
        self.0.write_all(s.as_bytes()).unwrap();
        self.0.write_all(b"\n").unwrap();
    }
    pub fn flush(&mut self) {
        self.0.flush().unwrap();
    }
}

/// Run `f`, turning a panic into `Err(message)`; the panic hook is silenced by
/// `quiet_panics()`.
pub fn catch<T>(f: impl FnOnce() -> T + std::panic::UnwindSafe) -> Result<T, String> {
    match std::panic::catch_unwind(f) {
        Ok(v) => Ok(v),
        Err(e) => {
            if let Some(s) = e.downcast_ref::<String>() {
                Err(s.clone())
            } else if let Some(s) = e.downcast_ref::<&str>() {
                Err(s.to_string())
            } else {
                Err("panic".to_string())
            }
        }
    }
}

pub fn quiet_panics() {
    std::panic::set_hook(Box::new(|_| {}));
}
