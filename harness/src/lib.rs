//! Shared helpers for the correspondence harness: PRNG, hex, line output.
pub mod server;
pub mod table;
pub mod util;
