//! Route-table helpers shared by the router-core harnesses (C01, C02, C04,
//! C06): endpoint descriptors, building real `ApiEndpoint`s with parameters
//! consistent with the path template, registration with every refusal mapped
//! to a small enum, lookups and OpenAPI operation extraction.

use crate::util::*;
use dropshot::verif_hooks as hooks;
use dropshot::ApiDescription;
use dropshot::ApiEndpoint;
use dropshot::ApiEndpointParameter;
use dropshot::ApiEndpointParameterLocation;
use dropshot::ApiEndpointVersions as R;
use dropshot::HttpError;
use dropshot::HttpResponseOk;
use dropshot::StubContext;
use semver::Version;

#[derive(Clone, Debug, PartialEq)]
pub enum Rg {
    All,
    From(String),
    FromUntil(String, String),
    Until(String),
}

impl Rg {
    pub fn enc(&self) -> String {
        match self {
            Rg::All => "A".into(),
            Rg::From(a) => format!("F:{}", a),
            Rg::FromUntil(a, b) => format!("FU:{}:{}", a, b),
            Rg::Until(b) => format!("U:{}", b),
        }
    }
    pub fn real(&self) -> Option<R> {
        let v = |s: &String| Version::parse(s).unwrap();
        match self {
            Rg::All => Some(R::all()),
            Rg::From(a) => Some(R::from(v(a))),
            Rg::FromUntil(a, b) => R::from_until(v(a), v(b)).ok(),
            Rg::Until(b) => Some(R::until(v(b))),
        }
    }
}

/// What a generated endpoint looks like.
#[derive(Clone, Debug)]
pub struct Ep {
    pub id: usize,
    pub method: String,
    pub path: String,
    pub range: Rg,
    pub visible: bool,
}

impl Ep {
    /// The endpoint's tags, a function of its id (the Lean drivers compute the same):
    /// none for ids = 3 mod 4, else the single tag `g<id mod 5>`.
    pub fn tags(&self) -> Vec<String> {
        if self.id % 4 == 3 {
            vec![]
        } else {
            vec![format!("g{}", self.id % 5)]
        }
    }
    pub fn enc(&self) -> String {
        format!(
            "{};{};{};{};{}",
            self.id,
            self.method,
            hex(self.path.as_bytes()),
            self.range.enc(),
            self.visible as u8
        )
    }
    pub fn op(&self) -> String {
        format!("op{}", self.id)
    }
}

pub fn enc_table(eps: &[Ep]) -> String {
    let mut s = format!("{}", eps.len());
    for e in eps {
        s.push(' ');
        s.push_str(&e.enc());
    }
    s
}

fn string_schema() -> schemars::schema::Schema {
    schemars::schema::SchemaObject {
        instance_type: Some(schemars::schema::InstanceType::String.into()),
        ..Default::default()
    }
    .into()
}

fn string_array_schema() -> schemars::schema::Schema {
    schemars::schema::SchemaObject {
        instance_type: Some(schemars::schema::InstanceType::Array.into()),
        array: Some(Box::new(schemars::schema::ArrayValidation {
            items: Some(schemars::schema::SingleOrVec::Single(Box::new(string_schema()))),
            ..Default::default()
        })),
        ..Default::default()
    }
    .into()
}

/// Variable names of a template, with wildcard flag, tolerant of malformed
/// templates (those are refused by the router itself).
pub fn template_vars(path: &str) -> Vec<(String, bool)> {
    let mut out = vec![];
    for seg in path.split('/') {
        if seg.len() >= 2 && seg.starts_with('{') && seg.ends_with('}') {
            let inner = &seg[1..seg.len() - 1];
            match inner.find(':') {
                Some(i) => out.push((inner[..i].to_string(), true)),
                None => out.push((inner.to_string(), false)),
            }
        }
    }
    out
}

/// A real endpoint for the descriptor: path parameters are declared to match
/// the template's variables (so that only the router's own checks decide).
pub fn real_endpoint(e: &Ep) -> Option<ApiEndpoint<StubContext>> {
    let r = e.range.real()?;
    let method = http::Method::from_bytes(e.method.as_bytes()).ok()?;
    let mut ep = ApiEndpoint::new_for_types::<(), Result<HttpResponseOk<()>, HttpError>>(
        e.op(),
        method,
        "application/json",
        &e.path,
        r,
    );
    ep.visible = e.visible;
    ep.tags = e.tags();
    // one parameter per distinct name; for a repeated name the last occurrence
    // decides the declared type, as `validate_named_parameters` collects the
    // template's variables into a map (so that the router's own duplicate
    // check is what refuses the template)
    let mut kinds = std::collections::BTreeMap::new();
    for (name, wild) in template_vars(&e.path) {
        if !name.is_empty() {
            kinds.insert(name, wild);
        }
    }
    for (name, wild) in kinds {
        ep.parameters.push(ApiEndpointParameter::new_named(
            &ApiEndpointParameterLocation::Path,
            name,
            None,
            true,
            hooks::ApiSchemaGenerator::Static {
                schema: Box::new(if wild { string_array_schema() } else { string_schema() }),
                dependencies: indexmap::IndexMap::new(),
            },
            vec![],
        ));
    }
    Some(ep)
}

/// Map a refusal (error string from `register`, or panic message from the
/// router) to the model's error names.
pub fn classify_refusal(msg: &str) -> &'static str {
    let has = |s: &str| msg.contains(s);
    if has("route paths must begin with a '/'") {
        "noLeadingSlash"
    } else if has("path segments may not be empty") {
        "emptySegment"
    } else if has("missing leading") {
        "missingOpenBrace"
    } else if has("missing trailing") {
        "missingCloseBrace"
    } else if has("variable name must not be empty") {
        "emptyVarName"
    } else if has("Only the pattern '.*' is currently supported") {
        "badPattern"
    } else if has("is used more than once") {
        "dupVar"
    } else if has("attempted to match segments after the wildcard") {
        "afterWildcard"
    } else if has("for literal path segment") {
        "litVsVar"
    } else if has("variable path segment (variable name") && has("literal path segment") {
        "varVsLit"
    } else if has("variable path segment (variable name") && has("remainder of the path") {
        "varVsRest"
    } else if has("variable path regex") && has("literal path segment") {
        "wildVsLit"
    } else if has("variable path regex") && has("for a segment") {
        "wildVsVar"
    } else if has("but a different name") {
        "nameMismatch"
    } else if has("attempted to create duplicate route") {
        "duplicate"
    } else if has("overlapping version ranges") {
        "overlap"
    } else if has("begin <= end") || has("slice index") || has("byte index") {
        "slicePanic"
    } else {
        "other"
    }
}

/// Register in order.  Returns (number accepted, "ok" | refusal kind, api of the accepted prefix).
pub fn register_all(eps: &[Ep]) -> (usize, String, ApiDescription<StubContext>) {
    let mut api = ApiDescription::<StubContext>::new();
    for (i, e) in eps.iter().enumerate() {
        let Some(real) = real_endpoint(e) else {
            return (i, "unbuildable".to_string(), rebuild(&eps[..i]));
        };
        let res = catch(std::panic::AssertUnwindSafe(|| api.register(real)));
        match res {
            Ok(Ok(())) => {}
            Ok(Err(err)) => {
                return (i, format!("reg:{}", classify_refusal(err.message())), rebuild(&eps[..i]));
            }
            Err(panic_msg) => {
                // the description may be partially modified: rebuild the accepted prefix
                return (i, classify_refusal(&panic_msg).to_string(), rebuild(&eps[..i]));
            }
        }
    }
    (eps.len(), "ok".to_string(), api)
}

fn rebuild(eps: &[Ep]) -> ApiDescription<StubContext> {
    let mut api = ApiDescription::<StubContext>::new();
    for e in eps {
        api.register(real_endpoint(e).unwrap()).unwrap();
    }
    api
}

pub fn enc_vars(vars: &hooks::VariableSet) -> String {
    if vars.is_empty() {
        return "-".to_string();
    }
    let mut parts = vec![];
    for (k, v) in vars.iter() {
        match v {
            hooks::VariableValue::String(s) => parts.push(format!("{}=S:{}", k, hex(s.as_bytes()))),
            hooks::VariableValue::Components(c) => {
                let cs: Vec<String> = c.iter().map(|s| hex(s.as_bytes())).collect();
                parts.push(format!("{}=C:{}", k, if cs.is_empty() { "".to_string() } else { cs.join("/") }))
            }
        }
    }
    parts.join(",")
}

/// Run lookups against the router of `api` (the router type cannot be named
/// outside the crate, so the description is consumed here).
pub fn lookups(
    api: ApiDescription<StubContext>,
    reqs: &[(String, String, Option<Version>)],
) -> Vec<String> {
    let router = api.into_router();
    reqs.iter()
        .map(|(method, path, version)| {
            let m = http::Method::from_bytes(method.as_bytes()).unwrap();
            match router.lookup_route(&m, path.as_str().into(), version.as_ref()) {
                Ok(res) => format!(
                    "ok:{}:{}",
                    res.endpoint.operation_id.trim_start_matches("op"),
                    enc_vars(&res.endpoint.variables)
                ),
                Err(e) => {
                    let code = e.status_code.as_u16();
                    if code == 405 {
                        let mut allow: Vec<String> = e
                            .headers
                            .as_ref()
                            .map(|h| {
                                h.get_all(http::header::ALLOW)
                                    .iter()
                                    .map(|v| v.to_str().unwrap_or("?").to_string())
                                    .collect()
                            })
                            .unwrap_or_default();
                        allow.sort();
                        format!(
                            "err:405:{}",
                            if allow.is_empty() { "-".to_string() } else { allow.join(",") }
                        )
                    } else {
                        format!("err:{}", code)
                    }
                }
            }
        })
        .collect()
}

/// The (path, lower-case method, operationId) triples of the OpenAPI document
/// for `version`, sorted; plus the serialized bytes of the document.
pub fn doc_ops(api: &ApiDescription<StubContext>, version: &str) -> (Vec<(String, String, String)>, Vec<u8>) {
    let def = api.openapi("t", Version::parse(version).unwrap());
    let mut bytes = vec![];
    def.write(&mut bytes).unwrap();
    let json: serde_json::Value = serde_json::from_slice(&bytes).unwrap();
    let mut ops = vec![];
    if let Some(paths) = json.get("paths").and_then(|p| p.as_object()) {
        for (path, item) in paths {
            if let Some(item) = item.as_object() {
                for (method, op) in item {
                    if let Some(id) = op.get("operationId").and_then(|x| x.as_str()) {
                        // operation id, then the operation's own tags
                        let tags: Vec<String> = op
                            .get("tags")
                            .and_then(|t| t.as_array())
                            .map(|a| a.iter().filter_map(|x| x.as_str().map(|s| s.to_string())).collect())
                            .unwrap_or_default();
                        ops.push((path.clone(), method.clone(), format!("{}:{}", id, tags.join("+"))));
                    }
                }
            }
        }
    }
    ops.sort();
    (ops, bytes)
}

/// Names in the document's top-level `tags` array, in document order.
pub fn doc_tags(bytes: &[u8]) -> Vec<String> {
    let json: serde_json::Value = serde_json::from_slice(bytes).unwrap();
    json.get("tags")
        .and_then(|t| t.as_array())
        .map(|a| a.iter().filter_map(|x| x.get("name").and_then(|n| n.as_str()).map(|s| s.to_string())).collect())
        .unwrap_or_default()
}

/// All `$ref` strings in a JSON value.
pub fn collect_refs(v: &serde_json::Value, out: &mut Vec<String>) {
    match v {
        serde_json::Value::Object(m) => {
            for (k, x) in m {
                if k == "$ref" {
                    if let Some(s) = x.as_str() {
                        out.push(s.to_string());
                    }
                }
                collect_refs(x, out);
            }
        }
        serde_json::Value::Array(a) => {
            for x in a {
                collect_refs(x, out);
            }
        }
        _ => {}
    }
}

/// Does `#/a/b/c` resolve inside `doc`?
pub fn ref_resolves(doc: &serde_json::Value, r: &str) -> bool {
    let Some(ptr) = r.strip_prefix('#') else { return false };
    doc.pointer(ptr).is_some()
}

// ---------------------------------------------------------------------------
// Parameter / tag validation (C02 `pv` stream)

#[derive(Clone, Debug)]
pub enum Shape {
    /// single instance type; `plain` = no array/object validation attached
    Typed(char, bool),
    Sub(char, Vec<Shape>),
    Ref(String),
    ArrayOf(Box<Shape>),
    Other,
}

impl Shape {
    pub fn enc(&self) -> String {
        match self {
            Shape::Typed(t, p) => format!("t{}{}", t, *p as u8),
            Shape::Sub(k, subs) => {
                let inner: Vec<String> = subs.iter().map(|s| s.enc()).collect();
                format!("S{}({})", k, inner.join(","))
            }
            Shape::Ref(n) => format!("R{}", n),
            Shape::ArrayOf(i) => format!("A({})", i.enc()),
            Shape::Other => "X".to_string(),
        }
    }

    pub fn schema(&self) -> schemars::schema::Schema {
        use schemars::schema::*;
        match self {
            Shape::Typed(t, plain) => {
                let it = match t {
                    'b' => InstanceType::Boolean,
                    'n' => InstanceType::Number,
                    's' => InstanceType::String,
                    'i' => InstanceType::Integer,
                    'a' => InstanceType::Array,
                    'o' => InstanceType::Object,
                    _ => InstanceType::Null,
                };
                let mut o = SchemaObject { instance_type: Some(it.into()), ..Default::default() };
                if !*plain {
                    o.object = Some(Box::new(ObjectValidation::default()));
                }
                o.into()
            }
            Shape::Sub(k, subs) => {
                let v: Vec<Schema> = subs.iter().map(|s| s.schema()).collect();
                let mut sv = SubschemaValidation::default();
                match k {
                    'a' => sv.all_of = Some(v),
                    'y' => sv.any_of = Some(v),
                    _ => sv.one_of = Some(v),
                }
                SchemaObject { subschemas: Some(Box::new(sv)), ..Default::default() }.into()
            }
            Shape::Ref(n) => SchemaObject {
                reference: Some(format!("#/components/schemas/{}", n)),
                ..Default::default()
            }
            .into(),
            Shape::ArrayOf(item) => SchemaObject {
                instance_type: Some(InstanceType::Array.into()),
                array: Some(Box::new(ArrayValidation {
                    items: Some(SingleOrVec::Single(Box::new(item.schema()))),
                    ..Default::default()
                })),
                ..Default::default()
            }
            .into(),
            Shape::Other => Schema::Bool(true),
        }
    }
}

#[derive(Clone, Debug)]
pub struct PvParam {
    pub loc: char, // p | q
    pub name: String,
    pub shape: Shape,
}

pub struct PvCase {
    pub policy: char, // n(any) | a(atLeastOne) | e(exactlyOne)
    pub allow_other: bool,
    pub defined: Vec<String>,
    pub visible: bool,
    pub tags: Vec<String>,
    pub path: String,
    pub deps: Vec<(String, Shape)>,
    pub params: Vec<PvParam>,
}

fn join_or_dash(v: &[String]) -> String {
    if v.is_empty() {
        "-".to_string()
    } else {
        v.join(",")
    }
}

impl PvCase {
    pub fn enc(&self) -> String {
        let deps: Vec<String> = self.deps.iter().map(|(n, s)| format!("{}={}", n, s.enc())).collect();
        let params: Vec<String> =
            self.params.iter().map(|p| format!("{}:{}:{}", p.loc, p.name, p.shape.enc())).collect();
        format!(
            "{} {} {} {} {} {} {} {} {} {}",
            self.policy,
            self.allow_other as u8,
            join_or_dash(&self.defined),
            self.visible as u8,
            join_or_dash(&self.tags),
            hex(self.path.as_bytes()),
            self.deps.len(),
            if deps.is_empty() { "-".to_string() } else { deps.join(" ") },
            self.params.len(),
            if params.is_empty() { "-".to_string() } else { params.join(" ") },
        )
    }

    /// Run the real `register` and classify the outcome.
    pub fn run(&self) -> String {
        use dropshot::{EndpointTagPolicy, TagConfig, TagDetails};
        let mut ep = ApiEndpoint::new_for_types::<(), Result<HttpResponseOk<()>, HttpError>>(
            "op".to_string(),
            http::Method::GET,
            "application/json",
            &self.path,
            R::all(),
        );
        ep.visible = self.visible;
        ep.tags = self.tags.clone();
        let mut deps = indexmap::IndexMap::new();
        for (n, s) in &self.deps {
            deps.insert(n.clone(), s.schema());
        }
        for p in &self.params {
            ep.parameters.push(ApiEndpointParameter::new_named(
                &if p.loc == 'p' { ApiEndpointParameterLocation::Path } else { ApiEndpointParameterLocation::Query },
                p.name.clone(),
                None,
                true,
                hooks::ApiSchemaGenerator::Static { schema: Box::new(p.shape.schema()), dependencies: deps.clone() },
                vec![],
            ));
        }
        let mut tags = std::collections::HashMap::new();
        for t in &self.defined {
            tags.insert(t.clone(), TagDetails { description: None, external_docs: None });
        }
        let cfg = TagConfig {
            allow_other_tags: self.allow_other,
            policy: match self.policy {
                'a' => EndpointTagPolicy::AtLeastOne,
                'e' => EndpointTagPolicy::ExactlyOne,
                _ => EndpointTagPolicy::Any,
            },
            tags,
        };
        let res = catch(std::panic::AssertUnwindSafe(|| {
            let mut api = ApiDescription::<StubContext>::new().tag_config(cfg);
            api.register(ep)
        }));
        match res {
            Ok(Ok(())) => "ok".to_string(),
            Ok(Err(e)) => {
                let m = e.message();
                let kind = if m.contains("At least one tag") {
                    "tagAtLeastOne"
                } else if m.contains("Exactly one tag") {
                    "tagExactlyOne"
                } else if m.contains("Invalid tag") {
                    "tagInvalid"
                } else if m.contains("path parameters are not consumed")
                    || m.contains("specified parameters do not appear in the path")
                {
                    "pathParamsMismatch"
                } else if m.contains("for both query and path") {
                    "bothPathAndQuery"
                } else if m.contains("must have a scalar type") {
                    "notScalar"
                } else if m.contains("must be an array of strings") {
                    "notStringArray"
                } else {
                    "other"
                };
                format!("err:{}", kind)
            }
            Err(p) => format!("panic:{}", classify_refusal(&p)),
        }
    }
}


// ---------------------------------------------------------------------------
// Live-server variant: the same tables behind a real `HttpServer` with the
// header version policy; one echo handler reports which endpoint ran and the
// variables it was given.

async fn echo_handler(
    rqctx: dropshot::RequestContext<()>,
) -> Result<hyper::Response<dropshot::Body>, HttpError> {
    let body = format!(
        "ok:{}:{}",
        rqctx.endpoint.operation_id.trim_start_matches("op"),
        enc_vars(&rqctx.endpoint.variables)
    );
    Ok(hyper::Response::builder().status(200).body(body.into()).unwrap())
}

pub fn live_endpoint(e: &Ep) -> Option<ApiEndpoint<()>> {
    let r = e.range.real()?;
    let method = http::Method::from_bytes(e.method.as_bytes()).ok()?;
    let mut ep = ApiEndpoint::new(e.op(), echo_handler, method, "application/json", &e.path, r);
    ep.visible = e.visible;
    let mut kinds = std::collections::BTreeMap::new();
    for (name, wild) in template_vars(&e.path) {
        if !name.is_empty() {
            kinds.insert(name, wild);
        }
    }
    for (name, wild) in kinds {
        ep.parameters.push(ApiEndpointParameter::new_named(
            &ApiEndpointParameterLocation::Path,
            name,
            None,
            true,
            hooks::ApiSchemaGenerator::Static {
                schema: Box::new(if wild { string_array_schema() } else { string_schema() }),
                dependencies: indexmap::IndexMap::new(),
            },
            vec![],
        ));
    }
    Some(ep)
}

/// Serve `eps` (must be an accepted table) and answer each request over TCP.
/// `version` is sent in the `api-version` header when present.
pub async fn live_lookups(
    eps: &[Ep],
    reqs: &[(String, String, Option<Version>)],
    max_version: &str,
) -> Option<Vec<String>> {
    use crate::server::*;
    let mut api = ApiDescription::<()>::new();
    for e in eps {
        api.register(live_endpoint(e)?).ok()?;
    }
    let policy = dropshot::VersionPolicy::Dynamic(Box::new(dropshot::ClientSpecifiesVersionInHeader::new(
        http::HeaderName::from_static("api-version"),
        Version::parse(max_version).unwrap(),
    )));
    let server = start_server(api, (), ServerOpts { version_policy: Some(policy), ..Default::default() });
    let addr = server.local_addr();
    let reqs2: Vec<(String, String, Option<Version>)> = reqs.to_vec();
    let out = tokio::task::spawn_blocking(move || {
        let mut out = vec![];
        for (k, (m, p, v)) in reqs2.iter().enumerate() {
            let vs = v.as_ref().map(|v| v.to_string());
            let mut hdrs: Vec<(&str, &str)> = vec![];
            if let Some(vs) = vs.as_ref() {
                hdrs.push(("api-version", vs.as_str()));
            }
            let req = build_request(m, p, &hdrs, b"");
            // dispatch does not depend on the protocol version of the request: every fourth
            // request is made with an HTTP/1.0 request line, every fourth over HTTP/2 (when an
            // HTTP/2 client can express it)
            let h2_ok = http::Method::from_bytes(m.as_bytes()).is_ok()
                && format!("http://localhost{}", p).parse::<http::Uri>().is_ok()
                && m != "CONNECT";
            let resp = if k % 4 == 3 && h2_ok {
                h2_roundtrip(addr, m, p, &hdrs, b"", true)
            } else if k % 4 == 1 {
                let text = String::from_utf8_lossy(&req).replacen(" HTTP/1.1\r\n", " HTTP/1.0\r\n", 1);
                roundtrip(addr, text.as_bytes(), m == "HEAD")
            } else {
                roundtrip(addr, &req, m == "HEAD")
            };
            out.push(match resp {
                None => "noresponse".to_string(),
                Some(r) => match r.status {
                    200 => String::from_utf8_lossy(&r.body).to_string(),
                    405 => {
                        let mut allow: Vec<String> = r
                            .header_all("allow")
                            .iter()
                            .flat_map(|v| v.split(',').map(|s| s.trim().to_string()).collect::<Vec<_>>())
                            .collect();
                        allow.sort();
                        format!("err:405:{}", if allow.is_empty() { "-".to_string() } else { allow.join(",") })
                    }
                    c => format!("err:{}", c),
                },
            });
        }
        out
    })
    .await
    .ok()?;
    server.close().await.ok()?;
    Some(out)
}
