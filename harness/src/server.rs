//! Shared server-level helpers: start a real dropshot `HttpServer` on
//! 127.0.0.1:0 and talk to it over raw `TcpStream`s so that framing,
//! pipelining, truncation and disconnect points are under the caller's control.

use dropshot::ApiDescription;
use dropshot::ConfigDropshot;
use dropshot::HandlerTaskMode;
use dropshot::HttpServer;
use dropshot::ServerBuilder;
use dropshot::ServerContext;
use dropshot::VersionPolicy;
use std::io::Read;
use std::io::Write;
use std::net::SocketAddr;
use std::net::TcpStream;
use std::time::Duration;

pub fn discard_log() -> slog::Logger {
    slog::Logger::root(slog::Discard, slog::o!())
}

pub struct ServerOpts {
    pub default_request_body_max_bytes: usize,
    pub mode: HandlerTaskMode,
    pub version_policy: Option<VersionPolicy>,
}

impl Default for ServerOpts {
    fn default() -> Self {
        ServerOpts {
            default_request_body_max_bytes: 1024,
            mode: HandlerTaskMode::Detached,
            version_policy: None,
        }
    }
}

/// Start a server (must be called inside a tokio runtime).
pub fn start_server<C: ServerContext>(
    api: ApiDescription<C>,
    ctx: C,
    opts: ServerOpts,
) -> HttpServer<C> {
    let config = ConfigDropshot {
        bind_address: "127.0.0.1:0".parse().unwrap(),
        default_request_body_max_bytes: opts.default_request_body_max_bytes,
        default_handler_task_mode: opts.mode,
        log_headers: vec![],
    };
    let mut b = ServerBuilder::new(api, ctx, discard_log()).config(config);
    if let Some(vp) = opts.version_policy {
        b = b.version_policy(vp);
    }
    b.start().expect("server starts")
}

/// A parsed HTTP/1.1 response as read off the wire.
#[derive(Debug, Clone, Default)]
pub struct RawResponse {
    pub status: u16,
    pub reason: String,
    /// header (lower-cased name, value) in wire order
    pub headers: Vec<(String, String)>,
    pub body: Vec<u8>,
    /// the response framing was syntactically valid
    pub well_formed: bool,
    /// why it was not
    pub problem: String,
}

impl RawResponse {
    pub fn header(&self, name: &str) -> Option<&str> {
        self.headers.iter().find(|(n, _)| n == name).map(|(_, v)| v.as_str())
    }
    pub fn header_all(&self, name: &str) -> Vec<&str> {
        self.headers.iter().filter(|(n, _)| n == name).map(|(_, v)| v.as_str()).collect()
    }
}

pub fn connect(addr: SocketAddr) -> std::io::Result<TcpStream> {
    let s = TcpStream::connect_timeout(&addr, Duration::from_secs(5))?;
    s.set_read_timeout(Some(Duration::from_secs(10)))?;
    s.set_write_timeout(Some(Duration::from_secs(10)))?;
    s.set_nodelay(true)?;
    Ok(s)
}

fn find(hay: &[u8], needle: &[u8]) -> Option<usize> {
    hay.windows(needle.len()).position(|w| w == needle)
}

/// Incremental reader of responses on one connection (supports pipelining).
pub struct RespReader {
    pub stream: TcpStream,
    buf: Vec<u8>,
}

impl RespReader {
    pub fn new(stream: TcpStream) -> Self {
        RespReader { stream, buf: Vec::new() }
    }

    fn fill(&mut self) -> std::io::Result<usize> {
        let mut tmp = [0u8; 16384];
        let n = self.stream.read(&mut tmp)?;
        self.buf.extend_from_slice(&tmp[..n]);
        Ok(n)
    }

    /// Everything that follows on the connection (after an upgrade), until the peer
    /// closes or the read times out.
    pub fn drain_to_eof(&mut self) -> Vec<u8> {
        loop {
            match self.fill() {
                Ok(0) | Err(_) => break,
                Ok(_) => {}
            }
        }
        std::mem::take(&mut self.buf)
    }

    /// Read one response. `head_only`: the request was HEAD (no body follows).
    /// Returns `None` if the peer closed before any byte of a response.
    pub fn read_response(&mut self, head_only: bool) -> Option<RawResponse> {
        let mut r = RawResponse::default();
        let head_end = loop {
            if let Some(p) = find(&self.buf, b"\r\n\r\n") {
                break p;
            }
            match self.fill() {
                Ok(0) | Err(_) => {
                    if self.buf.is_empty() {
                        return None;
                    }
                    r.problem = "eof-in-head".into();
                    return Some(r);
                }
                Ok(_) => {}
            }
        };
        let head = String::from_utf8_lossy(&self.buf[..head_end]).to_string();
        self.buf.drain(..head_end + 4);
        let mut lines = head.split("\r\n");
        let status_line = lines.next().unwrap_or("");
        let mut sp = status_line.splitn(3, ' ');
        let ver = sp.next().unwrap_or("");
        let code = sp.next().unwrap_or("");
        r.reason = sp.next().unwrap_or("").to_string();
        if !(ver == "HTTP/1.1" || ver == "HTTP/1.0") || code.len() != 3 {
            r.problem = format!("bad-status-line:{}", status_line);
            return Some(r);
        }
        r.status = match code.parse() {
            Ok(c) => c,
            Err(_) => {
                r.problem = "bad-status-code".into();
                return Some(r);
            }
        };
        for l in lines {
            match l.split_once(':') {
                Some((n, v)) if !n.is_empty() && !n.contains(' ') => {
                    r.headers.push((n.to_ascii_lowercase(), v.trim().to_string()))
                }
                _ => {
                    r.problem = format!("bad-header-line:{}", l);
                    return Some(r);
                }
            }
        }
        let no_body = head_only || r.status / 100 == 1 || r.status == 204 || r.status == 304;
        if no_body {
            r.well_formed = true;
            return Some(r);
        }
        let chunked = r
            .header("transfer-encoding")
            .map(|v| v.to_ascii_lowercase().contains("chunked"))
            .unwrap_or(false);
        if chunked {
            loop {
                let line_end = loop {
                    if let Some(p) = find(&self.buf, b"\r\n") {
                        break p;
                    }
                    match self.fill() {
                        Ok(0) | Err(_) => {
                            r.problem = "eof-in-chunk-size".into();
                            return Some(r);
                        }
                        Ok(_) => {}
                    }
                };
                let size_line = String::from_utf8_lossy(&self.buf[..line_end]).to_string();
                let size_hex = size_line.split(';').next().unwrap_or("").trim();
                let Ok(size) = usize::from_str_radix(size_hex, 16) else {
                    r.problem = format!("bad-chunk-size:{}", size_line);
                    return Some(r);
                };
                self.buf.drain(..line_end + 2);
                while self.buf.len() < size + 2 {
                    match self.fill() {
                        Ok(0) | Err(_) => {
                            r.problem = "eof-in-chunk".into();
                            return Some(r);
                        }
                        Ok(_) => {}
                    }
                }
                if size == 0 {
                    // (trailers are not used by dropshot) expect the final CRLF
                    if &self.buf[..2] != b"\r\n" {
                        r.problem = "trailers-or-garbage-after-last-chunk".into();
                        return Some(r);
                    }
                    self.buf.drain(..2);
                    break;
                }
                r.body.extend_from_slice(&self.buf[..size]);
                if &self.buf[size..size + 2] != b"\r\n" {
                    r.problem = "chunk-not-terminated".into();
                    return Some(r);
                }
                self.buf.drain(..size + 2);
            }
            r.well_formed = true;
            return Some(r);
        }
        if let Some(cl) = r.header("content-length") {
            let Ok(n) = cl.parse::<usize>() else {
                r.problem = "bad-content-length".into();
                return Some(r);
            };
            while self.buf.len() < n {
                match self.fill() {
                    Ok(0) | Err(_) => {
                        r.problem = "eof-in-body".into();
                        r.body = std::mem::take(&mut self.buf);
                        return Some(r);
                    }
                    Ok(_) => {}
                }
            }
            r.body = self.buf.drain(..n).collect();
            r.well_formed = true;
            return Some(r);
        }
        // read until close
        loop {
            match self.fill() {
                Ok(0) => break,
                Err(_) => break,
                Ok(_) => {}
            }
        }
        r.body = std::mem::take(&mut self.buf);
        r.well_formed = true;
        Some(r)
    }

    /// After an upgrade: read exactly `n` raw bytes.
    pub fn read_raw(&mut self, n: usize) -> Option<Vec<u8>> {
        while self.buf.len() < n {
            match self.fill() {
                Ok(0) | Err(_) => return None,
                Ok(_) => {}
            }
        }
        Some(self.buf.drain(..n).collect())
    }
}

/// One-shot: open a connection, send `request` bytes, read one response.
pub fn roundtrip(addr: SocketAddr, request: &[u8], head_only: bool) -> Option<RawResponse> {
    let mut s = connect(addr).ok()?;
    s.write_all(request).ok()?;
    let mut rr = RespReader::new(s);
    rr.read_response(head_only)
}

/// One request over HTTP/2 (prior knowledge, its own connection).  `sized`: the body is sent
/// with a content-length; otherwise as DATA frames delimited by END_STREAM alone.
pub fn h2_roundtrip(
    addr: SocketAddr,
    method: &str,
    target: &str,
    headers: &[(&str, &str)],
    body: &[u8],
    sized: bool,
) -> Option<RawResponse> {
    use http_body_util::BodyExt;
    use hyper_util::rt::{TokioExecutor, TokioIo};
    type Bx = http_body_util::combinators::BoxBody<bytes::Bytes, std::convert::Infallible>;
    let rt = tokio::runtime::Builder::new_current_thread().enable_all().build().ok()?;
    rt.block_on(async {
        let tcp = tokio::net::TcpStream::connect(addr).await.ok()?;
        let (mut sender, conn) =
            hyper::client::conn::http2::handshake::<_, _, Bx>(TokioExecutor::new(), TokioIo::new(tcp)).await.ok()?;
        let conn_task = tokio::spawn(conn);
        let b: Bx = if body.is_empty() {
            BodyExt::boxed(http_body_util::Empty::<bytes::Bytes>::new())
        } else if sized {
            BodyExt::boxed(http_body_util::Full::new(bytes::Bytes::copy_from_slice(body)))
        } else {
            let frames: Vec<Result<hyper::body::Frame<bytes::Bytes>, std::convert::Infallible>> =
                body.chunks(1000).map(|c| Ok(hyper::body::Frame::data(bytes::Bytes::copy_from_slice(c)))).collect();
            BodyExt::boxed(http_body_util::StreamBody::new(futures::stream::iter(frames)))
        };
        let mut rb = http::Request::builder().method(method).uri(format!("http://localhost{}", target));
        for (n, v) in headers {
            if n.eq_ignore_ascii_case("connection") {
                continue; // connection-specific headers do not exist in HTTP/2
            }
            rb = rb.header(*n, *v);
        }
        let req = rb.body(b).ok()?;
        sender.ready().await.ok()?;
        let rsp = tokio::time::timeout(Duration::from_secs(20), sender.send_request(req)).await.ok()?.ok()?;
        let mut raw = RawResponse::default();
        raw.status = rsp.status().as_u16();
        for (n, v) in rsp.headers() {
            raw.headers.push((n.as_str().to_string(), String::from_utf8_lossy(v.as_bytes()).trim().to_string()));
        }
        if method == "HEAD" {
            // hyper's HTTP/2 server sends the DATA frames of a response to HEAD like any other
            // (dropshot's error bodies among them) and an HTTP/2 client resets the stream when
            // they arrive: status and headers are what a HEAD response has to offer
            let _ = tokio::time::timeout(Duration::from_secs(5), rsp.into_body().collect()).await;
        } else {
            raw.body = tokio::time::timeout(Duration::from_secs(20), rsp.into_body().collect()).await.ok()?.ok()?.to_bytes().to_vec();
        }
        raw.well_formed = true;
        conn_task.abort();
        Some(raw)
    })
}

/// Build a simple request with a Content-Length body.
pub fn build_request(method: &str, target: &str, headers: &[(&str, &str)], body: &[u8]) -> Vec<u8> {
    let mut v = format!("{} {} HTTP/1.1\r\nhost: localhost\r\n", method, target).into_bytes();
    for (n, val) in headers {
        v.extend_from_slice(format!("{}: {}\r\n", n, val).as_bytes());
    }
    if !body.is_empty() || method == "POST" || method == "PUT" {
        v.extend_from_slice(format!("content-length: {}\r\n", body.len()).as_bytes());
    }
    v.extend_from_slice(b"\r\n");
    v.extend_from_slice(body);
    v
}

/// Build a request whose body is sent with chunked transfer coding, split at
/// the given chunk sizes (the remainder goes in a last chunk).
pub fn build_chunked_request(
    method: &str,
    target: &str,
    headers: &[(&str, &str)],
    body: &[u8],
    chunk_sizes: &[usize],
) -> Vec<u8> {
    let mut v = format!("{} {} HTTP/1.1\r\nhost: localhost\r\ntransfer-encoding: chunked\r\n", method, target)
        .into_bytes();
    for (n, val) in headers {
        v.extend_from_slice(format!("{}: {}\r\n", n, val).as_bytes());
    }
    v.extend_from_slice(b"\r\n");
    let mut pos = 0;
    for &sz in chunk_sizes {
        if pos >= body.len() {
            break;
        }
        let sz = sz.max(1).min(body.len() - pos);
        v.extend_from_slice(format!("{:x}\r\n", sz).as_bytes());
        v.extend_from_slice(&body[pos..pos + sz]);
        v.extend_from_slice(b"\r\n");
        pos += sz;
    }
    if pos < body.len() {
        v.extend_from_slice(format!("{:x}\r\n", body.len() - pos).as_bytes());
        v.extend_from_slice(&body[pos..]);
        v.extend_from_slice(b"\r\n");
    }
    v.extend_from_slice(b"0\r\n\r\n");
    v
}

/// Percent-encode every byte that is not unreserved (RFC 3986).
pub fn pct_encode(bytes: &[u8]) -> String {
    let mut s = String::new();
    for &b in bytes {
        if b.is_ascii_alphanumeric() || b == b'-' || b == b'.' || b == b'_' || b == b'~' {
            s.push(b as char);
        } else {
            s.push_str(&format!("%{:02X}", b));
        }
    }
    s
}
