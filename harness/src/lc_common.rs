//! Shared by the trace-validated slices C16 / C17 / C18 (included with
//! `#[path] mod lc;` from each binary, not part of the library).
//!
//! * one event log per scenario (`Ctx::log`): a `Mutex<Vec<Ev>>`; the position
//!   in the vector is the global sequence number;
//! * handlers that log `Start/Tick/Done`, a drop-guard that logs `Drop` when the
//!   handler future is dropped before `Done`, a marker `Panic` written just
//!   before a deliberate `panic!`;
//! * handlers block on a per-request `tokio::sync::Semaphore` ("gate") that the
//!   scenario releases - never on sleeps;
//! * raw-TCP client helpers.
//!
//! Logging convention (what makes the log order causally meaningful):
//! an event that is a *cause* for the server (`ReqSent`, `Disconnect`, `Fault`,
//! `CloseRequested`) is logged immediately BEFORE the system call that makes it
//! visible to the server; an event that is an *effect* observed by the client
//! (`RespDelivered`, `ConnClosed`, `WaiterReleased`, `ConnectRefused`,
//! `ConnectAccepted`, `Health`) is logged AFTER the call returned; handler
//! events are logged by the handler itself (`Start` first statement, `Done`
//! last statement).  Hence if event A causes event B on the real system, A
//! precedes B in the log; causally unrelated events appear in either order.
#![allow(dead_code)]

use dropshot::endpoint;
use dropshot::ApiDescription;
use dropshot::Body;
use dropshot::HandlerTaskMode;
use dropshot::HttpError;
use dropshot::HttpServer;
use dropshot::Path;
use dropshot::Query;
use dropshot::RequestContext;
use dropshot::UntypedBody;
use dropshot::ConfigDropshot;
use dropshot::ConfigTls;
use dropshot::ServerBuilder;
use dsharness::server::{connect, RawResponse, RespReader};
use schemars::JsonSchema;
use serde::Deserialize;
use std::collections::HashMap;
use std::io::Write;
use std::net::{SocketAddr, TcpStream};
use std::sync::atomic::{AtomicBool, AtomicUsize, Ordering};
use std::sync::{Arc, Mutex};
use std::time::{Duration, Instant};
use tokio::sync::Semaphore;

#[derive(Clone, Debug, PartialEq, Eq)]
pub enum Ev {
    ReqSent(u32, u32),
    Start(u32),
    Tick(u32),
    Disconnect(u32),
    Done(u32),
    Drop(u32),
    Panic(u32),
    RespDelivered(u32),
    // C17
    CloseRequested,
    ConnClosed(u32),
    WaiterReleased(u32, bool),
    ConnectRefused,
    ConnectAccepted,
    // C18
    Fault(u32, &'static str),
    Health(bool),
}

impl Ev {
    pub fn enc(&self) -> String {
        match self {
            Ev::ReqSent(c, r) => format!("Q{}:{}", c, r),
            Ev::Start(r) => format!("S{}", r),
            Ev::Tick(r) => format!("T{}", r),
            Ev::Disconnect(c) => format!("C{}", c),
            Ev::Done(r) => format!("D{}", r),
            Ev::Drop(r) => format!("X{}", r),
            Ev::Panic(r) => format!("P{}", r),
            Ev::RespDelivered(r) => format!("R{}", r),
            Ev::CloseRequested => "CL".into(),
            Ev::ConnClosed(c) => format!("K{}", c),
            Ev::WaiterReleased(i, ok) => format!("W{}:{}", i, if *ok { "ok" } else { "err" }),
            Ev::ConnectRefused => "NR".into(),
            Ev::ConnectAccepted => "NA".into(),
            Ev::Fault(c, k) => format!("F{}:{}", c, k),
            Ev::Health(ok) => format!("H{}", if *ok { 1 } else { 0 }),
        }
    }
}

pub fn enc_log(evs: &[Ev]) -> String {
    if evs.is_empty() {
        return "-".into();
    }
    evs.iter().map(|e| e.enc()).collect::<Vec<_>>().join(",")
}

struct Gates {
    open_all: bool,
    map: HashMap<u32, Arc<Semaphore>>,
}

/// Per-scenario server context: event log + handler gates.
pub struct Ctx {
    /// identifies this scenario's server (GET /id)
    pub id: u64,
    /// number of "request handling cancelled (client disconnected)" records the
    /// server has logged: the observable sign that hyper noticed a departed
    /// client and dropped the service future (server.rs 798-818)
    pub noticed: Arc<AtomicUsize>,
    log: Mutex<Vec<Ev>>,
    gates: Mutex<Gates>,
    pub frozen: AtomicBool,
}

const MANY: usize = 1 << 20;

impl Ctx {
    pub fn new() -> Arc<Ctx> {
        static NEXT: std::sync::atomic::AtomicU64 = std::sync::atomic::AtomicU64::new(1);
        let id = ((std::process::id() as u64) << 32) | NEXT.fetch_add(1, Ordering::SeqCst);
        Arc::new(Ctx {
            id,
            noticed: Arc::new(AtomicUsize::new(0)),
            log: Mutex::new(Vec::new()),
            gates: Mutex::new(Gates { open_all: false, map: HashMap::new() }),
            frozen: AtomicBool::new(false),
        })
    }
    pub fn log(&self, e: Ev) {
        let mut l = self.log.lock().unwrap();
        if !self.frozen.load(Ordering::SeqCst) {
            l.push(e);
        }
    }
    /// Take the final log; later events (there must be none) are discarded.
    pub fn snapshot(&self) -> Vec<Ev> {
        let l = self.log.lock().unwrap();
        self.frozen.store(true, Ordering::SeqCst);
        l.clone()
    }
    pub fn peek(&self) -> Vec<Ev> {
        self.log.lock().unwrap().clone()
    }
    pub fn has(&self, e: &Ev) -> bool {
        self.log.lock().unwrap().iter().any(|x| x == e)
    }
    fn gate(&self, r: u32) -> Arc<Semaphore> {
        let mut g = self.gates.lock().unwrap();
        let open = g.open_all;
        g.map
            .entry(r)
            .or_insert_with(|| Arc::new(Semaphore::new(if open { MANY } else { 0 })))
            .clone()
    }
    /// Let handler `r` pass its gate (may be called before the handler waits).
    pub fn release(&self, r: u32) {
        self.gate(r).add_permits(1);
    }
    /// Open every gate, present and future.
    pub fn release_all(&self) {
        let mut g = self.gates.lock().unwrap();
        g.open_all = true;
        for s in g.map.values() {
            s.add_permits(MANY);
        }
    }
    /// Poll (every 2 ms) until `e` is in the log; false when the deadline passes.
    pub fn wait_for(&self, e: &Ev, deadline: Duration) -> bool {
        wait_until(deadline, || self.has(e))
    }
}

pub fn wait_until(deadline: Duration, mut f: impl FnMut() -> bool) -> bool {
    let t0 = Instant::now();
    loop {
        if f() {
            return true;
        }
        if t0.elapsed() >= deadline {
            return false;
        }
        std::thread::sleep(Duration::from_millis(2));
    }
}

/// Logs `Start` on creation and `Drop` when destroyed before `done()`/`panicking()`.
struct Guard {
    ctx: Arc<Ctx>,
    r: u32,
    ended: bool,
}

impl Guard {
    fn start(ctx: &Arc<Ctx>, r: u32) -> Guard {
        ctx.log(Ev::Start(r));
        Guard { ctx: ctx.clone(), r, ended: false }
    }
    fn done(&mut self) {
        self.ended = true;
        self.ctx.log(Ev::Done(self.r));
    }
    fn panicking(&mut self) {
        self.ended = true;
        self.ctx.log(Ev::Panic(self.r));
    }
}

impl Drop for Guard {
    fn drop(&mut self) {
        if !self.ended {
            self.ctx.log(Ev::Drop(self.r));
        }
    }
}

#[derive(Deserialize, JsonSchema)]
struct ReqPath {
    r: u32,
}

#[derive(Deserialize, JsonSchema)]
struct WaitQuery {
    /// size of the response body in bytes
    big: Option<usize>,
}

async fn wait_common(ctx: &Arc<Ctx>, r: u32, big: usize) -> Result<http::Response<Body>, HttpError> {
    let mut g = Guard::start(ctx, r);
    ctx.log(Ev::Tick(r));
    let gate = ctx.gate(r);
    // closed never; a permit is added by `release`/`release_all`
    let p = gate.acquire().await.expect("gate semaphore is never closed");
    p.forget();
    ctx.log(Ev::Tick(r));
    let body: Vec<u8> = if big == 0 { b"ok".to_vec() } else { vec![b'x'; big] };
    let resp = http::Response::builder()
        .status(200)
        .header("content-type", "application/octet-stream")
        .body(Body::from(body))
        .unwrap();
    g.done();
    Ok(resp)
}

/// GET /w/{r}[?big=N]: Start, Tick, wait for the gate, Tick, Done.
#[endpoint { method = GET, path = "/w/{r}" }]
async fn h_wait(
    rqctx: RequestContext<Arc<Ctx>>,
    p: Path<ReqPath>,
    q: Query<WaitQuery>,
) -> Result<http::Response<Body>, HttpError> {
    wait_common(rqctx.context(), p.into_inner().r, q.into_inner().big.unwrap_or(0)).await
}

/// GET /wd/{r}: like /w/{r}, but the handler moves what it needs out of the
/// RequestContext and drops it BEFORE waiting at its gate.
#[endpoint { method = GET, path = "/wd/{r}" }]
async fn h_wait_dropctx(
    rqctx: RequestContext<Arc<Ctx>>,
    p: Path<ReqPath>,
) -> Result<http::Response<Body>, HttpError> {
    let ctx: Arc<Ctx> = rqctx.context().clone();
    let r = p.into_inner().r;
    std::mem::drop(rqctx);
    wait_common(&ctx, r, 0).await
}

/// POST /wb/{r}: the body is consumed by the extractor before the handler starts.
#[endpoint { method = POST, path = "/wb/{r}" }]
async fn h_wait_body(
    rqctx: RequestContext<Arc<Ctx>>,
    p: Path<ReqPath>,
    _body: UntypedBody,
) -> Result<http::Response<Body>, HttpError> {
    wait_common(rqctx.context(), p.into_inner().r, 0).await
}

/// POST /wn/{r}: no body extractor, a request body stays unread.
#[endpoint { method = POST, path = "/wn/{r}" }]
async fn h_wait_nobody(
    rqctx: RequestContext<Arc<Ctx>>,
    p: Path<ReqPath>,
) -> Result<http::Response<Body>, HttpError> {
    wait_common(rqctx.context(), p.into_inner().r, 0).await
}

/// GET /p/{r}: Start, Panic marker, panic!.
#[endpoint { method = GET, path = "/p/{r}" }]
async fn h_panic(
    rqctx: RequestContext<Arc<Ctx>>,
    p: Path<ReqPath>,
) -> Result<http::Response<Body>, HttpError> {
    let r = p.into_inner().r;
    let mut g = Guard::start(rqctx.context(), r);
    g.panicking();
    panic!("deliberate handler panic (request {})", r);
}

/// GET /health
#[endpoint { method = GET, path = "/health" }]
async fn h_health(_rqctx: RequestContext<Arc<Ctx>>) -> Result<http::Response<Body>, HttpError> {
    Ok(http::Response::builder()
        .status(200)
        .header("content-type", "text/plain")
        .body(Body::from("healthy".to_string()))
        .unwrap())
}

/// GET /id: which server is this (C17: is the old port served by the closed server?)
#[endpoint { method = GET, path = "/id" }]
async fn h_id(rqctx: RequestContext<Arc<Ctx>>) -> Result<http::Response<Body>, HttpError> {
    Ok(http::Response::builder()
        .status(200)
        .header("content-type", "text/plain")
        .body(Body::from(format!("{}", rqctx.context().id)))
        .unwrap())
}

/// POST /echo: UntypedBody echoed (C18 valid POST requests).
#[endpoint { method = POST, path = "/echo" }]
async fn h_echo(
    _rqctx: RequestContext<Arc<Ctx>>,
    body: UntypedBody,
) -> Result<http::Response<Body>, HttpError> {
    Ok(http::Response::builder()
        .status(200)
        .header("content-type", "application/octet-stream")
        .body(Body::from(body.as_bytes().to_vec()))
        .unwrap())
}

/// POST /typed: a typed JSON body (C18: odd but legal `Content-Type` spellings).
#[derive(Deserialize, JsonSchema)]
struct TypedIn {
    #[allow(dead_code)]
    n: u32,
}
#[endpoint { method = POST, path = "/typed" }]
async fn h_typed(
    _rqctx: RequestContext<Arc<Ctx>>,
    _body: dropshot::TypedBody<TypedIn>,
) -> Result<http::Response<Body>, HttpError> {
    Ok(http::Response::builder().status(200).header("content-type", "text/plain").body(Body::from("typed")).unwrap())
}

/// GET /name/{name}: a string path variable (C18: escapes that are not UTF-8).
#[derive(Deserialize, JsonSchema)]
struct NamePath {
    #[allow(dead_code)]
    name: String,
}
#[endpoint { method = GET, path = "/name/{name}" }]
async fn h_name(
    _rqctx: RequestContext<Arc<Ctx>>,
    _p: Path<NamePath>,
) -> Result<http::Response<Body>, HttpError> {
    Ok(http::Response::builder().status(200).header("content-type", "text/plain").body(Body::from("named")).unwrap())
}

/// GET /fail/{r}: handler returns an HttpError with status `r` (4xx/5xx).
#[endpoint { method = GET, path = "/fail/{r}" }]
async fn h_fail(
    _rqctx: RequestContext<Arc<Ctx>>,
    p: Path<ReqPath>,
) -> Result<http::Response<Body>, HttpError> {
    let code = p.into_inner().r as u16;
    let sc = dropshot::ErrorStatusCode::from_u16(code)
        .unwrap_or(dropshot::ErrorStatusCode::INTERNAL_SERVER_ERROR);
    Err(HttpError {
        status_code: sc,
        error_code: None,
        external_message: "fail".into(),
        internal_message: "fail".into(),
        headers: None,
    })
}

pub fn api() -> ApiDescription<Arc<Ctx>> {
    let mut api = ApiDescription::new();
    api.register(h_wait).unwrap();
    api.register(h_wait_body).unwrap();
    api.register(h_wait_dropctx).unwrap();
    api.register(h_wait_nobody).unwrap();
    api.register(h_panic).unwrap();
    api.register(h_health).unwrap();
    api.register(h_id).unwrap();
    api.register(h_echo).unwrap();
    api.register(h_typed).unwrap();
    api.register(h_name).unwrap();
    api.register(h_fail).unwrap();
    api
}

/// Like `dsharness::util::quiet_panics`, but only the deliberate handler
/// panics (and the panics hyper/tokio re-raise from them) are silenced; a panic
/// of the harness itself is still reported on stderr.
pub fn quiet_handler_panics() {
    dsharness::util::quiet_panics();
    std::panic::set_hook(Box::new(|info| {
        let msg = if let Some(s) = info.payload().downcast_ref::<String>() {
            s.clone()
        } else if let Some(s) = info.payload().downcast_ref::<&str>() {
            s.to_string()
        } else {
            String::new()
        };
        if !msg.contains("deliberate handler panic") && !msg.contains("server starts") {
            eprintln!("harness panic: {} at {:?}", msg, info.location());
        }
    }));
}

pub fn mode_name(m: HandlerTaskMode) -> &'static str {
    match m {
        HandlerTaskMode::Detached => "detached",
        HandlerTaskMode::CancelOnDisconnect => "cancel",
    }
}

/// slog drain that only counts the server's "client disconnected" records.
/// The servers' log drain: it notices the "request handling cancelled" records, and - like
/// the synchronous `Mutex<drain>.fuse()` loggers applications use - it formats every key and
/// value of every record (the record's own and the logger's) under a lock, so that whatever
/// the server hands to its logger is really rendered.  Rendering must not fail: with such a
/// logger a panic in here poisons the lock and takes every later log call, i.e. the server,
/// with it.
struct NoticeDrain(Arc<AtomicUsize>, Mutex<String>);

struct RenderAll<'a>(&'a mut String);
impl slog::Serializer for RenderAll<'_> {
    fn emit_arguments(&mut self, key: slog::Key, val: &std::fmt::Arguments) -> slog::Result {
        use std::fmt::Write as _;
        let _ = write!(self.0, "{}={};", key, val);
        Ok(())
    }
}

impl slog::Drain for NoticeDrain {
    type Ok = ();
    type Err = slog::Never;
    fn log(&self, record: &slog::Record, values: &slog::OwnedKVList) -> Result<(), slog::Never> {
        use slog::KV;
        if format!("{}", record.msg()).starts_with("request handling cancelled") {
            self.0.fetch_add(1, Ordering::SeqCst);
        }
        // (a rendering that panicked has poisoned the lock: the request it belonged to has
        // already failed and is reported as such; carry on, so that the run ends with the
        // failing case on record instead of with every later log call panicking)
        let mut line = self.1.lock().unwrap_or_else(|poisoned| poisoned.into_inner());
        line.clear();
        let _ = record.kv().serialize(record, &mut RenderAll(&mut line));
        let _ = values.serialize(record, &mut RenderAll(&mut line));
        Ok(())
    }
}

pub fn start(rt: &tokio::runtime::Runtime, ctx: &Arc<Ctx>, mode: HandlerTaskMode) -> HttpServer<Arc<Ctx>> {
    start_opts(rt, ctx, mode, None)
}

/// Start a server for this scenario (plain, or HTTPS when `tls` is given).
pub fn start_opts(
    rt: &tokio::runtime::Runtime,
    ctx: &Arc<Ctx>,
    mode: HandlerTaskMode,
    tls: Option<ConfigTls>,
) -> HttpServer<Arc<Ctx>> {
    let _g = rt.enter();
    // bind(127.0.0.1:0) can fail transiently when the ephemeral port range is
    // crowded (many sockets in TIME_WAIT from earlier runs): retry.
    let mut tries = 0;
    loop {
        let log = slog::Logger::root(NoticeDrain(ctx.noticed.clone(), Mutex::new(String::new())), slog::o!());
        let config = ConfigDropshot {
            bind_address: "127.0.0.1:0".parse().unwrap(),
            default_request_body_max_bytes: 1024,
            default_handler_task_mode: mode,
            // one request header is logged with every record of the request
            log_headers: vec!["x-trace".to_string()],
        };
        // every other server is configured the way deployments are: from a serialised
        // configuration (written out as JSON and read back), which must say the same
        let config = if ctx.id % 2 == 0 {
            let text = serde_json::to_string(&config).expect("configuration serialises");
            serde_json::from_str::<ConfigDropshot>(&text).expect("configuration reads back")
        } else {
            config
        };
        match ServerBuilder::new(api(), ctx.clone(), log).config(config).tls(tls.clone()).start() {
            Ok(s) => return s,
            Err(e) => {
                tries += 1;
                if tries > 100 {
                    panic!("server starts: {:?}", e);
                }
                std::thread::sleep(Duration::from_millis(100));
            }
        }
    }
}

/// Close with SO_LINGER 0 (RST): leaves no socket in TIME_WAIT, so the
/// ephemeral port is free again at once.  Only used when nothing more is to be
/// read from the connection.
pub fn close_rst(rt: &tokio::runtime::Runtime, s: TcpStream) {
    let _ = disconnect(rt, s, How::Rst);
}

/// How a client gives up its connection.
#[derive(Clone, Copy, Debug, PartialEq, Eq)]
pub enum How {
    /// shutdown(Write): FIN, the socket stays readable
    Fin,
    /// shutdown(Both)
    Both,
    /// SO_LINGER 0 then close: RST
    Rst,
    /// plain close
    Close,
}

impl How {
    pub fn name(&self) -> &'static str {
        match self {
            How::Fin => "fin",
            How::Both => "both",
            How::Rst => "rst",
            How::Close => "close",
        }
    }
    pub const ALL: [How; 4] = [How::Fin, How::Both, How::Rst, How::Close];
}

/// Give up the connection as requested.  Returns the stream when it is still
/// open on our side (`Fin`), so the caller decides when to close it.
pub fn disconnect(rt: &tokio::runtime::Runtime, s: TcpStream, how: How) -> Option<TcpStream> {
    match how {
        How::Fin => {
            let _ = s.shutdown(std::net::Shutdown::Write);
            Some(s)
        }
        How::Both => {
            let _ = s.shutdown(std::net::Shutdown::Both);
            drop(s);
            None
        }
        How::Rst => {
            // std has no stable SO_LINGER setter; tokio has.
            let _g = rt.enter();
            let _ = s.set_nonblocking(true);
            match tokio::net::TcpStream::from_std(s) {
                Ok(ts) => {
                    let _ = ts.set_linger(Some(Duration::ZERO));
                    drop(ts);
                }
                Err(_) => {}
            }
            None
        }
        How::Close => {
            drop(s);
            None
        }
    }
}

pub fn get(path: &str) -> Vec<u8> {
    format!("GET {} HTTP/1.1\r\nhost: localhost\r\n\r\n", path).into_bytes()
}

/// Write all of `bytes` but log `ev` immediately before the bytes that
/// complete the header block go out (the last write).
pub fn send_logged(ctx: &Ctx, s: &mut TcpStream, bytes: &[u8], ev: Ev) -> std::io::Result<()> {
    ctx.log(ev);
    s.write_all(bytes)?;
    s.flush()
}

/// The inode of the socket LISTENing on `addr` (from /proc/net/tcp{,6}): identifies *this
/// server's* listening socket.  After shutdown has finished it must be gone - whatever else has
/// been given the port number meanwhile is another socket with another inode.
pub fn listen_inode(addr: SocketAddr) -> Option<u64> {
    let port = addr.port();
    for (file, want_v6) in [("/proc/net/tcp", false), ("/proc/net/tcp6", true)] {
        if addr.is_ipv6() != want_v6 {
            continue;
        }
        let Ok(text) = std::fs::read_to_string(file) else { continue };
        for line in text.lines().skip(1) {
            let f: Vec<&str> = line.split_whitespace().collect();
            if f.len() < 10 || f[3] != "0A" {
                continue;
            }
            let Some((_, p)) = f[1].rsplit_once(':') else { continue };
            if u16::from_str_radix(p, 16).ok() != Some(port) {
                continue;
            }
            if let Ok(ino) = f[9].parse::<u64>() {
                return Some(ino);
            }
        }
    }
    None
}

/// Is the listening socket with this inode still there (polled for up to `wait`)?
pub fn listener_still_open(addr: SocketAddr, inode: Option<u64>, wait: Duration) -> bool {
    let Some(ino) = inode else { return false };
    let t0 = std::time::Instant::now();
    loop {
        if listen_inode(addr) != Some(ino) {
            return false;
        }
        if t0.elapsed() >= wait {
            return true;
        }
        std::thread::sleep(Duration::from_millis(50));
    }
}

pub fn health(addr: SocketAddr) -> bool {
    match dsharness::server::roundtrip(addr, &get("/health"), false) {
        Some(r) => r.well_formed && r.status == 200 && r.body == b"healthy",
        None => false,
    }
}

pub fn read_one(s: &TcpStream) -> Option<RawResponse> {
    let mut rr = RespReader::new(s.try_clone().ok()?);
    rr.read_response(false)
}

pub fn open(addr: SocketAddr) -> Option<TcpStream> {
    for _ in 0..50 {
        if let Ok(s) = connect(addr) {
            return Some(s);
        }
        std::thread::sleep(Duration::from_millis(20));
    }
    None
}

/// Close the server while the handler gates are still shut; only when close()
/// has not returned after `first` are all gates opened (and `second` more
/// waited).  Used in cancel mode, where every handler that is still gated
/// belongs to a client that has left: graceful shutdown must get rid of them
/// by cancellation, not by letting them finish.
pub fn close_then_release(
    rt: &tokio::runtime::Runtime,
    server: HttpServer<Arc<Ctx>>,
    ctx: &Arc<Ctx>,
    first: Duration,
    second: Duration,
) -> Option<Result<(), String>> {
    let ctx = ctx.clone();
    rt.block_on(async move {
        let fut = server.close();
        tokio::pin!(fut);
        match tokio::time::timeout(first, &mut fut).await {
            Ok(r) => Some(r),
            Err(_) => {
                ctx.release_all();
                tokio::time::timeout(second, &mut fut).await.ok()
            }
        }
    })
}

/// Close the server with a deadline; `Some(result)` when close() returned.
pub fn close_with_deadline(
    rt: &tokio::runtime::Runtime,
    server: HttpServer<Arc<Ctx>>,
    deadline: Duration,
) -> Option<Result<(), String>> {
    rt.block_on(async move {
        match tokio::time::timeout(deadline, server.close()).await {
            Ok(r) => Some(r),
            Err(_) => None,
        }
    })
}

// ---------------------------------------------------------------------------
// TLS (C18): self-signed certificate, accept-anything client, sync client I/O
// ---------------------------------------------------------------------------

#[derive(Debug)]
struct NoVerify;

impl rustls::client::danger::ServerCertVerifier for NoVerify {
    fn verify_server_cert(
        &self,
        _end_entity: &rustls::pki_types::CertificateDer<'_>,
        _intermediates: &[rustls::pki_types::CertificateDer<'_>],
        _server_name: &rustls::pki_types::ServerName<'_>,
        _ocsp_response: &[u8],
        _now: rustls::pki_types::UnixTime,
    ) -> Result<rustls::client::danger::ServerCertVerified, rustls::Error> {
        Ok(rustls::client::danger::ServerCertVerified::assertion())
    }
    fn verify_tls12_signature(
        &self,
        _message: &[u8],
        _cert: &rustls::pki_types::CertificateDer<'_>,
        _dss: &rustls::DigitallySignedStruct,
    ) -> Result<rustls::client::danger::HandshakeSignatureValid, rustls::Error> {
        Ok(rustls::client::danger::HandshakeSignatureValid::assertion())
    }
    fn verify_tls13_signature(
        &self,
        _message: &[u8],
        _cert: &rustls::pki_types::CertificateDer<'_>,
        _dss: &rustls::DigitallySignedStruct,
    ) -> Result<rustls::client::danger::HandshakeSignatureValid, rustls::Error> {
        Ok(rustls::client::danger::HandshakeSignatureValid::assertion())
    }
    fn supported_verify_schemes(&self) -> Vec<rustls::SignatureScheme> {
        use rustls::SignatureScheme::*;
        vec![
            ECDSA_NISTP256_SHA256,
            ECDSA_NISTP384_SHA384,
            ED25519,
            RSA_PSS_SHA256,
            RSA_PSS_SHA384,
            RSA_PSS_SHA512,
            RSA_PKCS1_SHA256,
            RSA_PKCS1_SHA384,
            RSA_PKCS1_SHA512,
        ]
    }
}

pub struct TlsKit {
    pub server: ConfigTls,
    pub client: Arc<rustls::ClientConfig>,
    /// the TLS record(s) a real client sends first (ClientHello)
    pub hello: Vec<u8>,
}

pub fn tls_kit() -> TlsKit {
    let ck = rcgen::generate_simple_self_signed(vec!["localhost".to_string()]).expect("self-signed certificate");
    let server = ConfigTls::AsBytes { certs: ck.cert.pem().into_bytes(), key: ck.key_pair.serialize_pem().into_bytes() };
    let client = Arc::new(
        rustls::ClientConfig::builder()
            .dangerous()
            .with_custom_certificate_verifier(Arc::new(NoVerify))
            .with_no_client_auth(),
    );
    let mut conn = rustls::ClientConnection::new(client.clone(), tls_name()).expect("client connection");
    let mut hello = Vec::new();
    while conn.wants_write() {
        conn.write_tls(&mut hello).expect("client hello");
    }
    TlsKit { server, client, hello }
}

fn tls_name() -> rustls::pki_types::ServerName<'static> {
    rustls::pki_types::ServerName::try_from("localhost").unwrap()
}

pub type TlsStream = rustls::StreamOwned<rustls::ClientConnection, TcpStream>;

/// TCP connect + complete TLS handshake (new session, nothing pooled).
pub fn tls_connect(addr: SocketAddr, kit: &TlsKit) -> Option<TlsStream> {
    let mut tcp = open(addr)?;
    let mut conn = rustls::ClientConnection::new(kit.client.clone(), tls_name()).ok()?;
    while conn.is_handshaking() {
        if conn.complete_io(&mut tcp).is_err() {
            return None;
        }
    }
    Some(rustls::StreamOwned::new(conn, tcp))
}

/// Read decrypted bytes until the peer closes (close_notify, FIN or reset) or a timeout.
pub fn tls_read_to_end(s: &mut TlsStream) -> Vec<u8> {
    use std::io::Read;
    let mut recv = Vec::new();
    let mut buf = [0u8; 16384];
    loop {
        match s.read(&mut buf) {
            Ok(0) => break,
            Ok(n) => recv.extend_from_slice(&buf[..n]),
            Err(e) if e.kind() == std::io::ErrorKind::Interrupted => continue,
            Err(_) => break,
        }
    }
    recv
}

/// Health request over TLS on a FRESH connection (new TCP connection, new handshake).
pub fn tls_health(addr: SocketAddr, kit: &TlsKit) -> bool {
    let Some(mut s) = tls_connect(addr, kit) else { return false };
    if s.write_all(b"GET /health HTTP/1.1\r\nhost: localhost\r\nconnection: close\r\n\r\n").is_err() {
        return false;
    }
    let _ = s.flush();
    let recv = tls_read_to_end(&mut s);
    recv.starts_with(b"HTTP/1.1 200 ") && recv.ends_with(b"healthy")
}
