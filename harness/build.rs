// The real sources of the proc-macro crate `dropshot_endpoint` are compiled into
// bin c19 as ordinary modules.  Their location follows the checkout the harness is
// built against: /repo, or the scratch worktree named by VERIF_REPO when a seeded
// change is tried (the registered commands never set it).
use std::io::Write;
fn main() {
    println!("cargo:rerun-if-env-changed=VERIF_REPO");
    let repo = std::env::var("VERIF_REPO").unwrap_or_else(|_| "/repo".to_string());
    let out = std::path::PathBuf::from(std::env::var("OUT_DIR").unwrap()).join("macrosrc.rs");
    let mut f = std::fs::File::create(out).unwrap();
    for m in ["api_trait", "channel", "doc", "endpoint", "error_store", "metadata", "params", "syn_parsing", "util"] {
        let p = format!("{}/dropshot_endpoint/src/{}.rs", repo, m);
        println!("cargo:rerun-if-changed={}", p);
        writeln!(f, "#[path = \"{}\"]\nmod {};", p, m).unwrap();
    }
}
