#!/usr/bin/env python3
"""
Generates harness/src/c19_programs.rs (checked in; re-run only to change the family):

    python3 gen_c19_programs.py > src/c19_programs.rs

One fixed family of endpoint and channel declarations, written out TWICE as plain
Rust source -- once as free functions (`#[dropshot::endpoint]`, `#[dropshot::channel]`),
once as an API trait (`#[dropshot::api_description]`, with an impl) -- plus the
static table recording what was declared.  The family is chosen greedily (fixed
seed) so that every pair of values of any two declaration parameters that can
occur together does occur (pairwise coverage); the script prints the coverage
it reached on stderr.
"""
import random, sys, itertools

rnd = random.Random(19)

METHODS = ["GET", "PUT", "POST", "DELETE", "HEAD", "PATCH", "OPTIONS", "CHANNEL"]
PATHS = ["lit", "lit2", "var1", "var2", "trail", "wild"]
VERSIONS = ["none", "all", "until_lit", "from_lit", "fromuntil_lit", "single", "from_ident", "until_ident",
            "fromuntil_mixed", "fromuntil_idents"]
TAGS = [[], ["alpha"], ["alpha", "beta"], ["beta", "alpha"], None]  # None: a tag unique to the declaration
OPID = [False, True]
CT = ["none", "application/json", "application/x-www-form-urlencoded", "multipart/form-data"]
MAX = ["none", "1024", "MAX_2048", "4 * 1024"]
MAXVAL = {"none": None, "1024": 1024, "MAX_2048": 2048, "4 * 1024": 4096}
FLAG = ["absent", "true", "false"]
DOCS = list(range(12))
EXTRACT = ["none", "query", "typed", "query+typed", "untyped", "stream", "multipart", "raw"]
RET = ["ok", "created", "updated", "accepted", "raw", "deleted"]

PARAMS = [("method", METHODS), ("path", PATHS), ("versions", VERSIONS), ("tags", list(range(5))), ("opid", OPID),
          ("ct", CT), ("max", MAX), ("deprecated", FLAG), ("unpublished", FLAG), ("doc", DOCS),
          ("extract", EXTRACT), ("ret", RET)]


def valid(r):
    ch = r["method"] == "CHANNEL"
    if ch and (r["ct"] != "none" or r["max"] != "none" or r["extract"] not in ("none", "query")
               or r["ret"] != "ok" or r["path"] == "wild"):
        return False
    if r["path"] == "wild" and r["unpublished"] != "true":
        return False
    return True


def pairs_of(r):
    ks = [k for k, _ in PARAMS]
    return {((a, r[a] if not isinstance(r[a], list) else tuple(r[a])), (b, r[b])) for a, b in itertools.combinations(ks, 2)}


def all_valid_pairs():
    """Pairs (of parameter values) that some valid row contains."""
    want = set()
    for (a, av), (b, bv) in itertools.combinations(PARAMS, 2):
        for x in av:
            for y in bv:
                # is there a valid row with a=x, b=y?
                ok = False
                for _ in range(60):
                    r = {k: rnd.choice(v) for k, v in PARAMS}
                    r[a] = x
                    r[b] = y
                    if r["method"] == "CHANNEL" and a != "method" and b != "method":
                        pass
                    fix(r, keep=(a, b))
                    if valid(r):
                        ok = True
                        break
                if ok:
                    want.add(((a, x), (b, y)))
    return want


def fix(r, keep=()):
    """Repair a random row towards validity without touching `keep`."""
    if r["method"] == "CHANNEL":
        for k, v in (("ct", "none"), ("max", "none"), ("ret", "ok")):
            if k not in keep:
                r[k] = v
        if "extract" not in keep and r["extract"] not in ("none", "query"):
            r["extract"] = rnd.choice(["none", "query"])
        if "path" not in keep and r["path"] == "wild":
            r["path"] = "lit"
    else:
        pass
    if r["path"] == "wild" and "unpublished" not in keep:
        r["unpublished"] = "true"
    if r["method"] == "CHANNEL" and "method" not in keep:
        # a kept value may be incompatible with channels
        if r["ct"] != "none" or r["max"] != "none" or r["extract"] not in ("none", "query") or r["ret"] != "ok" \
                or r["path"] == "wild":
            r["method"] = rnd.choice(METHODS[:-1])


def choose_rows():
    want = all_valid_pairs()
    uncovered = set(want)
    rows = []
    while uncovered:
        best, best_gain = None, -1
        seedpair = rnd.choice(sorted(uncovered, key=str))
        for _ in range(400):
            r = {k: rnd.choice(v) for k, v in PARAMS}
            (a, x), (b, y) = seedpair
            r[a], r[b] = x, y
            fix(r, keep=(a, b))
            if not valid(r):
                continue
            gain = len(pairs_of(r) & uncovered)
            if gain > best_gain:
                best, best_gain = r, gain
        if best is None:
            uncovered.discard(seedpair)
            continue
        rows.append(best)
        uncovered -= pairs_of(best)
    sys.stderr.write(f"rows {len(rows)}, pairs covered {len(want)}\n")
    return rows


# ---------------------------------------------------------------------------

def rs(s):
    """Rust string literal."""
    out = '"'
    for ch in s:
        if ch == '"':
            out += '\\"'
        elif ch == "\\":
            out += "\\\\"
        elif ch == "\n":
            out += "\\n"
        elif ch == "\t":
            out += "\\t"
        elif ord(ch) < 128:
            out += ch
        else:
            out += "\\u{%x}" % ord(ch)
    return out + '"'


def doc_shape(k, i):
    """(source lines, attribute values) of doc shape k for declaration i."""
    L = lambda t: ("///" + t, t)            # line comment: value is the text after `///`
    shapes = {
        0: [],
        1: [L(f" Summary only {i}")],
        2: [L(f" Summary {i}"), L(" and a one line description")],
        3: [L(f" Summary {i}"), L(""), L(" Para one"), L(" continues here."), L(""), L(""), L(" Para two")],
        4: [L(f" Summary {i}"), L(" a hyphen-"), L(" ated word, then a dash -"), L(" and the end")],
        5: [(f"/** Block summary {i}\n * block description\n * more of it\n */",
             f" Block summary {i}\n * block description\n * more of it\n ")],
        6: [(f"/**\n * Late block summary {i}\n *\n * * bullet one\n * * bullet two\n *no space after star\n */",
             f"\n * Late block summary {i}\n *\n * * bullet one\n * * bullet two\n *no space after star\n ")],
        7: [L(f" Größe {i} — 日本語"), L(" naïve text   wide space"), L(" \U0001f980 crab")],
        8: [L(""), L("   "), L(f" Late summary {i}"), L(""), L(" late description"), L("")],
        9: [L(f" Mixed {i}"), (f"#[doc = \" explicit attribute\\n second line of it\"]", " explicit attribute\n second line of it"),
            ("/** then a block\n   * with odd indent */", " then a block\n   * with odd indent "), L(" and a line")],
        10: [L(f"\tTabbed\tsummary {i}\t"), L("\t\tand\ta\ttabbed description\t"), L("\t")],
        11: [L(f" List summary {i}"), L(" * bullet one"), L(" * bullet two"), L(" *emphasis* and 2 * 3"), L("* at the margin")],
    }
    items = shapes[k]
    return [s for s, _ in items], [v for _, v in items]


VERS_SRC = {
    "none": (None, "None"),
    "all": ("..", "Some(VSyn::All)"),
    "until_lit": ('.."2.0.0"', 'Some(VSyn::Until(lit("2.0.0")))'),
    "from_lit": ('"1.0.0"..', 'Some(VSyn::From(lit("1.0.0")))'),
    "fromuntil_lit": ('"1.0.0".."3.0.0"', 'Some(VSyn::FromUntil(lit("1.0.0"), lit("3.0.0")))'),
    "single": ('"2.0.0".."2.0.0"', 'Some(VSyn::FromUntil(lit("2.0.0"), lit("2.0.0")))'),
    "from_ident": ("versions::V2_0_0..", 'Some(VSyn::From(ident("versions::V2_0_0")))'),
    "until_ident": ("..V3_0_0", 'Some(VSyn::Until(ident("V3_0_0")))'),
    "fromuntil_mixed": ('"1.0.0"..versions::V2_0_0', 'Some(VSyn::FromUntil(lit("1.0.0"), ident("versions::V2_0_0")))'),
    "fromuntil_idents": ("V1_0_0..V3_0_0", 'Some(VSyn::FromUntil(ident("V1_0_0"), ident("V3_0_0")))'),
}

RET_TY = {
    "ok": "Result<HttpResponseOk<B>, HttpError>",
    "created": "Result<HttpResponseCreated<B>, HttpError>",
    "updated": "Result<HttpResponseUpdatedNoContent, HttpError>",
    "accepted": "Result<HttpResponseAccepted<B>, HttpError>",
    "raw": "Result<Response<Body>, HttpError>",
    "deleted": "Result<HttpResponseDeleted, HttpError>",
}


def build(i, r):
    ch = r["method"] == "CHANNEL"
    name = f"e{i}"
    base = r.get("_base", f"/e{i}")
    path, req, pty = {
        "lit": (base, base, None),
        "lit2": (base + "/sub", base + "/sub", None),
        "var1": (base + "/{x}", base + "/vx", "P1"),
        "var2": (base + "/{x}/mid/{y}", base + "/vx/mid/7", "P2"),
        "trail": (base + "/", base + "/", None),
        "wild": (base + "/{rest:.*}", base + "/a/b", "PW"),
    }[r["path"]]
    args = []
    if ch:
        args.append("protocol = WEBSOCKETS")
    else:
        args.append(f"method = {r['method']}")
    args.append(f"path = {rs(path)}")
    vsrc, vtab = VERS_SRC[r["versions"]]
    if vsrc is not None:
        args.append(f"versions = {vsrc}")
    tags = TAGS[r["tags"]]
    if tags is None:
        tags = ["only%d" % i]
    if tags:
        args.append("tags = [" + ", ".join(rs(t) for t in tags) + "]")
    opid = f"custom_op_{i}" if r["opid"] else None
    if opid:
        args.append(f"operation_id = {rs(opid)}")
    if r["ct"] != "none":
        args.append(f"content_type = {rs(r['ct'])}")
    if r["max"] != "none":
        args.append(f"request_body_max_bytes = {r['max']}")
    for k in ("deprecated", "unpublished"):
        if r[k] != "absent":
            args.append(f"{k} = {r[k]}")
    # argument order varies with the declaration
    rr = random.Random(1000 + i)
    rr.shuffle(args)
    args_t = list(args)
    rr.shuffle(args_t)      # the trait form uses another order

    doc_src, doc_vals = doc_shape(r["doc"], i)

    params = []
    if pty:
        params.append(f"_p: Path<{pty}>")
    ex = r["extract"]
    if "query" in ex:
        params.append("_q: Query<Q>")
    body = "none"
    if ch:
        params.append("_conn: WebsocketConnection")
        ret = "WebsocketChannelResult"
    else:
        if "typed" in ex and "untyped" not in ex:
            params.append("_b: TypedBody<B>")
            body = "typed"
        elif ex == "untyped":
            params.append("_b: UntypedBody")
            body = "untyped"
        elif ex == "stream":
            params.append("_b: StreamingBody")
            body = "stream"
        elif ex == "multipart":
            params.append("_b: MultipartBody")
            body = "multipart"
        elif ex == "raw":
            params.append("_r: RawRequest")
            body = "raw"
        ret = RET_TY[r["ret"]]
    macro = "channel" if ch else "endpoint"

    def fn_src(ctx, attr_args, prefix, in_trait):
        sig = ", ".join([f"_rqctx: RequestContext<{ctx}>"] + params)
        lines = list(doc_src)
        lines.append(f"#[{prefix}{macro} {{ {', '.join(attr_args)} }}]")
        if in_trait:
            lines.append(f"async fn {name}({sig}) -> {ret};")
        else:
            lines.append(f"pub async fn {name}({sig}) -> {ret} {{ unreachable!() }}")
        return "\n".join(lines)

    f_src = fn_src("()", args, "dropshot::", False)
    t_src = fn_src("Self::Context", args_t, "", True)
    i_src = f"async fn {name}(" + ", ".join(["_rqctx: RequestContext<Self::Context>"] + params) + f") -> {ret} {{ unreachable!() }}"

    tab = "(Decl { channel: %s, method: %s, protocol: %s, path: Some(%s.into()), versions: %s, tags: vec![%s], " \
          "operation_id: %s, content_type: %s, max_bytes: %s, deprecated: %s, unpublished: %s, dropshot_crate: None, " \
          "name: %s.into(), doc: vec![%s] }, %s, %s)" % (
              "true" if ch else "false",
              "None" if ch else f"Some({rs(r['method'])}.into())",
              'Some("WEBSOCKETS".into())' if ch else "None",
              rs(path), vtab, ", ".join(rs(t) + ".into()" for t in tags),
              f"Some({rs(opid)}.into())" if opid else "None",
              "None" if r["ct"] == "none" else f"Some({rs(r['ct'])}.into())",
              "None" if MAXVAL[r["max"]] is None else f"Some({MAXVAL[r['max']]})",
              "true" if r["deprecated"] == "true" else "false",
              "true" if r["unpublished"] == "true" else "false",
              rs(name), ", ".join(rs(v) + ".into()" for v in doc_vals), rs(body), rs(req))
    return name, f_src, t_src, i_src, tab


HEADER = '''//! C19 programs: GENERATED by harness/gen_c19_programs.py -- do not edit by hand.
//!
//! One fixed family of endpoint and channel declarations written out twice as
//! ordinary Rust source: as free functions (module `func`) and as an API trait
//! (module `tr`, with an implementation; the stub comes from the generated
//! `stub_api_description()`), and `table()`, the harness's own record of what
//! each declaration says.  `run` prints, for the three resulting API
//! descriptions, the registered records, the document entries and the lookup
//! metadata per version, and whether the documents / routing tables are equal.
#![allow(dead_code, unused_imports, clippy::all)]

use crate::{hs, list_hs, opt_hs, rec_of, Decl, VSpec, VSyn};
use dsharness::util::Out;
use std::collections::BTreeMap;

pub mod types {
    use schemars::JsonSchema;
    use serde::{Deserialize, Serialize};
    #[derive(Deserialize, JsonSchema)]
    pub struct Q {
        pub q: Option<String>,
    }
    #[derive(Deserialize, JsonSchema)]
    pub struct P1 {
        pub x: String,
    }
    #[derive(Deserialize, JsonSchema)]
    pub struct P2 {
        pub x: String,
        pub y: u32,
    }
    #[derive(Deserialize, JsonSchema)]
    pub struct PW {
        pub rest: Vec<String>,
    }
    #[derive(Deserialize, Serialize, JsonSchema)]
    pub struct B {
        pub n: u32,
    }
    pub mod versions {
        pub const V1_0_0: semver::Version = semver::Version::new(1, 0, 0);
        pub const V2_0_0: semver::Version = semver::Version::new(2, 0, 0);
        pub const V3_0_0: semver::Version = semver::Version::new(3, 0, 0);
    }
    pub use versions::*;
    pub const MAX_2048: usize = 2048;
}

fn lit(s: &str) -> VSpec {
    VSpec::Lit(s.to_string())
}
fn ident(s: &str) -> VSpec {
    VSpec::Ident(s.to_string())
}
'''

PRELUDE = '''    use super::types::*;
    use dropshot::{
        Body, HttpError, HttpResponseAccepted, HttpResponseCreated, HttpResponseDeleted, HttpResponseOk,
        HttpResponseUpdatedNoContent, MultipartBody, Path, Query, RawRequest, RequestContext, StreamingBody,
        TypedBody, UntypedBody, WebsocketChannelResult, WebsocketConnection,
    };
    use http::Response;
'''

RUN = r'''
/// Versions at which documents and lookups are taken.
const PROBES: &[&str] = &["0.9.0", "1.0.0-rc.1", "1.0.0", "1.5.0", "2.0.0-rc.1", "2.0.0", "2.0.1", "3.0.0-alpha", "3.0.0", "4.0.0"];

fn recs<C: dropshot::ServerContext>(api: dropshot::ApiDescription<C>) -> (BTreeMap<String, String>, Vec<String>) {
    let router = api.into_router();
    let mut by_op = BTreeMap::new();
    let mut table = vec![];
    for (path, method, e) in router.endpoints(None) {
        let r = rec_of(e);
        table.push(format!("{} {} {}", path, method, r));
        by_op.insert(e.operation_id.clone(), r);
    }
    table.sort();
    (by_op, table)
}

fn doc_entry(doc: &serde_json::Value, d: &Decl) -> String {
    // the document lists a path without its trailing slash (router iterator)
    let path = d.path.clone().unwrap();
    let method = if d.channel { "get".to_string() } else { d.method.clone().unwrap().to_lowercase() };
    let mut found: Option<(String, &serde_json::Value)> = None;
    if let Some(paths) = doc.get("paths").and_then(|p| p.as_object()) {
        for (p, item) in paths {
            if let Some(op) = item.get(&method) {
                let want = d.operation_id.clone().unwrap_or(d.name.clone());
                if op.get("operationId").and_then(|o| o.as_str()) == Some(want.as_str()) {
                    found = Some((p.clone(), op));
                }
            }
        }
    }
    let _ = path;
    match found {
        None => "absent".to_string(),
        Some((p, op)) => {
            let s = |k: &str| op.get(k).and_then(|v| v.as_str()).map(|s| s.to_string());
            let tags: Vec<String> = op
                .get("tags")
                .and_then(|t| t.as_array())
                .map(|a| a.iter().map(|x| x.as_str().unwrap().to_string()).collect())
                .unwrap_or_default();
            let rb = op
                .get("requestBody")
                .and_then(|b| b.get("content"))
                .and_then(|c| c.as_object())
                .and_then(|o| o.keys().next().cloned());
            format!(
                "{} {} {} {} {} {} {} {}",
                method.to_uppercase(),
                hs(&p),
                hs(&s("operationId").unwrap_or_default()),
                list_hs('T', &tags),
                op.get("deprecated").and_then(|v| v.as_bool()).unwrap_or(false) as u8,
                opt_hs(&s("summary")),
                opt_hs(&s("description")),
                opt_hs(&rb)
            )
        }
    }
}

/// All lookups (probe-major, declaration-minor) against one API description.
fn lookups<C: dropshot::ServerContext>(
    api: dropshot::ApiDescription<C>,
    decls: &[(Decl, &'static str, &'static str)],
    probes: &[Option<semver::Version>],
) -> Vec<String> {
    use dropshot::ApiEndpointBodyContentType as B;
    let router = api.into_router();
    let mut res = vec![];
    for v in probes {
        for (d, _, req) in decls {
            let m = if d.channel { "GET".to_string() } else { d.method.clone().unwrap() };
            let method = http::Method::from_bytes(m.as_bytes()).unwrap();
            res.push(match router.lookup_route(&method, (*req).into(), v.as_ref()) {
                Ok(r) => {
                    let e = &r.endpoint;
                    format!(
                        "{} {} {}",
                        hs(&e.operation_id),
                        match e.body_content_type {
                            B::Bytes => "bytes",
                            B::Json => "json",
                            B::UrlEncoded => "urlencoded",
                            B::MultipartFormData => "multipart",
                        },
                        match e.request_body_max_bytes {
                            None => "~".to_string(),
                            Some(n) => n.to_string(),
                        }
                    )
                }
                Err(e) => format!("{}", e.status_code.as_u16()),
            });
        }
    }
    res
}

pub fn run(out: &mut Out, id: &mut u64) {
    let decls = table();
    let build_f = || func::api();
    let build_i = || tr::c19_api_mod::api_description::<tr::Impl>().expect("trait API description builds");
    let build_s = || tr::c19_api_mod::stub_api_description().expect("stub API description builds");

    // ---- registered records and routing tables
    let (rf, tf) = recs(build_f());
    let (ri, ti) = recs(build_i());
    let (rs, ts) = recs(build_s());
    for (d, _, _) in &decls {
        let op = d.operation_id.clone().unwrap_or(d.name.clone());
        let g = |m: &BTreeMap<String, String>| m.get(&op).cloned().unwrap_or("missing".to_string());
        *id += 1;
        out.line(&format!("pe {} {} => {} | {} | {}", id, d.enc(), g(&rf), g(&ri), g(&rs)));
    }
    *id += 1;
    out.line(&format!("pr {} {} => {} {} {}", id, decls.len(), (tf == ti) as u8, (ti == ts) as u8, tf.len()));

    // ---- documents
    let (af, ai, a_s) = (build_f(), build_i(), build_s());
    for p in PROBES {
        let v = semver::Version::parse(p).unwrap();
        let jf = af.openapi("t", v.clone()).json().unwrap();
        let ji = ai.openapi("t", v.clone()).json().unwrap();
        let js = a_s.openapi("t", v.clone()).json().unwrap();
        *id += 1;
        out.line(&format!("pj {} {} => {} {}", id, p, (jf == ji) as u8, (ji == js) as u8));
        // the document's top-level tag list against the whole table of declarations
        *id += 1;
        let tag_names = |j: &serde_json::Value| -> String {
            let v: Vec<String> = j
                .get("tags")
                .and_then(|t| t.as_array())
                .map(|a| a.iter().filter_map(|x| x.get("name").and_then(|n| n.as_str()).map(hs)).collect())
                .unwrap_or_default();
            if v.is_empty() { "-".to_string() } else { v.join(",") }
        };
        out.line(&format!(
            "pt {} {} {} => {} | {} | {}",
            id,
            p,
            decls.iter().map(|(d, _, _)| d.enc()).collect::<Vec<_>>().join(" | "),
            tag_names(&jf),
            tag_names(&ji),
            tag_names(&js)
        ));
        for (d, body, _) in &decls {
            *id += 1;
            out.line(&format!(
                "pd {} {} {} {} => {} | {} | {}",
                id,
                p,
                body,
                d.enc(),
                doc_entry(&jf, d),
                doc_entry(&ji, d),
                doc_entry(&js, d)
            ));
        }
    }

    // ---- lookups
    let mut probes: Vec<Option<semver::Version>> = PROBES.iter().map(|p| Some(semver::Version::parse(p).unwrap())).collect();
    probes.push(None);
    let (lf, li, ls) = (lookups(af, &decls, &probes), lookups(ai, &decls, &probes), lookups(a_s, &decls, &probes));
    let mut k = 0;
    for v in &probes {
        let vs = match v {
            Some(v) => v.to_string(),
            None => "N".to_string(),
        };
        for (d, _, _) in &decls {
            *id += 1;
            // declarations sharing this one's method and path (other version ranges) ride along:
            // at a version outside this one's range the request belongs to one of them
            let sibs: String = decls
                .iter()
                .filter(|(o, _, _)| o.name != d.name && o.method == d.method && o.path == d.path && o.channel == d.channel)
                .map(|(o, _, _)| format!(" | {}", o.enc()))
                .collect();
            out.line(&format!("pl {} {} {}{} => {} | {} | {}", id, vs, d.enc(), sibs, lf[k], li[k], ls[k]));
            k += 1;
        }
    }
}
'''


def main():
    rows = choose_rows()
    # adjacent version ranges on one method and path, declared newest first and oldest
    # first: which endpoint serves a version must not depend on the order of declaration
    def extra(base, versions, **kw):
        r = dict(method="GET", path="lit", versions=versions, tags=4, opid=False, ct="none", max="none",
                 deprecated="absent", unpublished="absent", doc=1, extract="none", ret="ok", _base=base)
        r.update(kw)
        return r
    rows += [extra("/adj", "from_ident"), extra("/adj", "until_lit"),
             extra("/adj2", "fromuntil_mixed"), extra("/adj2", "from_ident", opid=True)]
    built = [build(i, r) for i, r in enumerate(rows)]
    o = [HEADER]
    o.append("/// Declared once as free functions.\npub mod func {\n" + PRELUDE)
    for name, f_src, _, _, _ in built:
        o.append("\n".join(("    " + l) if not (l.startswith("///") or l.startswith("/**") or l.startswith(" *")
                                                 or l.startswith("   *") or l.startswith("#[doc")) else l
                           for l in f_src.split("\n")))
        o.append("")
    o.append("    pub fn api() -> dropshot::ApiDescription<()> {")
    o.append("        let mut api = dropshot::ApiDescription::new();")
    for k, (name, *_) in enumerate(built):
        o.append(f"        api.register({name}).expect(\"registers\");")
        if k in (0, len(built) // 3, len(built) - 2):
            # documents are also generated while the description is still being built (before
            # the first, in the middle of and just before the last registrations): what is
            # registered later must be documented all the same
            o.append("        for p in super::PROBES {")
            o.append("            let _ = api.openapi(\"t\", semver::Version::parse(p).unwrap()).json();")
            o.append("        }")
    o.append("        api\n    }\n}\n")
    o.append("/// Declared a second time as an API trait.\npub mod tr {\n" + PRELUDE)
    o.append("    #[dropshot::api_description]\n    pub trait C19Api {\n        type Context;\n")
    for _, _, t_src, _, _ in built:
        o.append("\n".join(("        " + l) if not (l.startswith("///") or l.startswith("/**") or l.startswith(" *")
                                                     or l.startswith("   *") or l.startswith("#[doc")) else l
                           for l in t_src.split("\n")))
        o.append("")
    o.append("    }\n\n    pub enum Impl {}\n\n    impl C19Api for Impl {\n        type Context = ();\n")
    for _, _, _, i_src, _ in built:
        o.append("        " + i_src)
    o.append("    }\n}\n")
    o.append("/// What was declared: (declaration, body extractor kind, a concrete request path).")
    o.append("pub fn table() -> Vec<(Decl, &'static str, &'static str)> {\n    vec![")
    for *_, tab in built:
        o.append("        " + tab + ",")
    o.append("    ]\n}")
    o.append(RUN)
    print("\n".join(o))


main()
