#!/usr/bin/env python3
"""Regenerate MANIFEST.json from checks/*.json (claimed) and properties.jsonl."""
import json, os, glob
ROOT = os.path.dirname(os.path.abspath(__file__))
props = [json.loads(l) for l in open(os.path.join(ROOT, "properties.jsonl"))]
# checks/CLAIMED lists the property ids whose checks have been reviewed and are
# green on the unchanged tree; only those are claimed in MANIFEST.json.
allow = set(open(os.path.join(ROOT, "checks", "CLAIMED")).read().split())
claimed = {}
for f in sorted(glob.glob(os.path.join(ROOT, "checks", "C*.json"))):
    s = json.load(open(f))
    if s["id"] in allow:
        claimed[s["id"]] = s
manifest = {
    "version": 1,
    "setup_cmd": "./setup.sh",
    "hooks": {
        "guard": "--cfg dropshot_verif",
        "enable": "harness/.cargo/config.toml sets rustflags = [\"--cfg\", \"dropshot_verif\"]; the harness crate depends on /repo/dropshot by path, so every check rebuilds /repo's working tree with the hooks on",
        "baseline_off_cmd": "cd /repo && (cargo nextest run --workspace --no-fail-fast --test-threads 8 --offline || cargo test --workspace --no-fail-fast --offline)",
        "source_commits": ["addc92a", "599edcf", "641899e"],
        "add_only": True,
    },
    "engines": [
        {"name": "lean-model-and-proofs", "path": "lean/", "serves_properties": sorted(claimed),
         "kind_free_text": "Lean 4.33 lake project: DropshotModel (executable model, core+Std only), DropshotProofs (property theorems per Cxx.lean, helper lemmas under Lemmas/), Driver (line-protocol model drivers compiled to native executables)"},
        {"name": "correspondence-harness", "path": "harness/", "serves_properties": sorted(claimed),
         "kind_free_text": "Rust crate with a path dependency on /repo/dropshot built with --cfg dropshot_verif; one binary per property drives the real code in-process / over loopback and prints cases for the Lean driver"},
        {"name": "orchestrator", "path": "check", "serves_properties": sorted(claimed),
         "kind_free_text": "python3: lake build + axiom audit + cargo build + harness|driver + verdict/evidence/replay"},
    ],
    "checks": [],
    "not_applicable": [],
    "notes": "Technique family: machine-checked proof in Lean 4 about a hand-written executable model, tied to /repo on every run by a correspondence (differential) check; see DESIGN.md. Known findings: known_findings.json.",
}
for p in props:
    pid = p["id"]
    if pid in claimed:
        s = claimed[pid]
        manifest["checks"].append({
            "property_id": pid,
            "quick_cmd": f"./check {pid} --tier quick",
            "thorough_cmd": f"./check {pid} --tier thorough",
            "evidence_file": f"evidence/{pid}.json",
            "replay_cmd_template": f"./check {pid} --replay {{path}}",
            "engine": "lean-model-and-proofs",
            "level_claimed": {"category": "proof", "text": s["level_text"], "design_ref": s.get("design_ref", f"DESIGN.md section 10, {pid}")},
            "level_note": s["level_note"],
            "technique": s.get("technique", "Lean 4 theorems about an executable model + correspondence check against the implementation"),
        })
    else:
        manifest["not_applicable"].append({"property_id": pid, "reason": "not claimed yet: the Lean model/theorems and correspondence stream for this property are still being built (see DESIGN.md section 14 build order); the technique applies"})
json.dump(manifest, open(os.path.join(ROOT, "MANIFEST.json"), "w"), indent=1)
print("claimed:", sorted(claimed))
