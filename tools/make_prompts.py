#!/usr/bin/env python3
"""
Writes the sub-agent prompts for a round of seeded changes:
    tools/make_prompts.py /tmp/mutN [C01 C02 ...]
-> /tmp/mutN/prompts/Cxx.txt (one per property), /tmp/mutN/confirm.sh.
A prompt holds the property's text from properties.jsonl, the scratch worktree the
agent may use (/tmp/mutN/wt-Cxx) and, from seeded/*/meta.json, one line per idea
already used for that property (so that the next change is a different one).
Nothing else of /verif is given to the agents.
"""
import sys, os, json, glob
VERIF = os.path.dirname(os.path.dirname(os.path.abspath(__file__)))
root = sys.argv[1]
only = sys.argv[2:]
props = [json.loads(l) for l in open(os.path.join(VERIF, "properties.jsonl"))]
taken = {}
for f in sorted(glob.glob(os.path.join(VERIF, "seeded", "*", "meta.json"))):
    m = json.load(open(f))
    taken.setdefault(m.get("breaks_property") or m.get("property"), []).append(
        (m.get("what_changed") or m.get("summary") or "")[:260].replace("\n", " "))
os.makedirs(os.path.join(root, "prompts"), exist_ok=True)
os.makedirs(os.path.join(root, "out"), exist_ok=True)
T = open(os.path.join(VERIF, "tools", "prompt_template.txt")).read()
for p in props:
    pid = p["id"]
    if only and pid not in only: continue
    q = {k: p[k] for k in ("id", "title", "statement", "quantifier", "why_tests_cant", "anchors") if k in p}
    ideas = "\n".join("  - " + t for t in taken.get(pid, [])) or "  (none yet)"
    txt = T.replace("@ROOT@", root).replace("@PID@", pid).replace("@PROPERTY@", json.dumps(q, indent=1)).replace("@IDEAS@", ideas)
    open(os.path.join(root, "prompts", pid + ".txt"), "w").write(txt)
open(os.path.join(root, "confirm.sh"), "w").write(f"""#!/bin/sh
# usage: confirm.sh Cxx [checks]
P=$1; CH=${{2:-$1}}
for d in {root}/out/$P/*/; do
  [ -f "$d/patch.diff" ] || continue
  [ -f "$d/confirmation.json" ] && continue
  SEEDED_WT={root}/wt-$P python3 {VERIF}/tools/try_seeded.py "$d" --checks $CH > {root}/confirm-$P.log 2>&1
done
""")
os.chmod(os.path.join(root, "confirm.sh"), 0o755)
print("prompts written to", os.path.join(root, "prompts"))
