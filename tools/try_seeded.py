#!/usr/bin/env python3
"""
Confirm a seeded change and run the checks against it, in a scratch worktree
(never in /repo):   tools/try_seeded.py <dir with patch.diff, demo.rs, meta.json> [--checks C01,C04] [--skip-suite]

Steps: fresh worktree state -> demo passes without the change -> apply patch ->
workspace builds -> demo fails with the change -> existing suite passes with it
-> each listed check is run with VERIF_REPO pointing at the worktree.
Results are written to <dir>/confirmation.json.
"""
import sys, os, json, subprocess, shutil, time
WT = os.environ.get("SEEDED_WT", "/tmp/mywt")
VERIF = os.path.dirname(os.path.dirname(os.path.abspath(__file__)))

def sh(cmd, cwd=None, env=None, timeout=7200):
    e = dict(os.environ); e["CARGO_NET_OFFLINE"] = "true"
    if env: e.update(env)
    p = subprocess.run(cmd, cwd=cwd, env=e, shell=isinstance(cmd, str), stdout=subprocess.PIPE, stderr=subprocess.STDOUT, timeout=timeout)
    return p.returncode, p.stdout.decode("utf-8", "replace")

def main():
    d = os.path.abspath(sys.argv[1])
    checks = None; skip_suite = False; checks_only = False
    a = sys.argv[2:]
    while a:
        if a[0] == "--checks": checks = a[1].split(","); a = a[2:]
        elif a[0] == "--skip-suite": skip_suite = True; a = a[1:]
        elif a[0] == "--checks-only": checks_only = True; a = a[1:]
        else: raise SystemExit("bad arg " + a[0])
    meta = json.load(open(os.path.join(d, "meta.json")))
    prop = meta["property"]
    checks = checks or [prop]
    demo_rel = meta.get("demo_path_in_repo") or "dropshot/tests/demo_seeded.rs"
    # strip an absolute worktree prefix if the author recorded one
    for pre in ("/tmp/mut/wt-%s/" % prop,):
        if demo_rel.startswith(pre): demo_rel = demo_rel[len(pre):]
    res = {"worktree": WT, "at": time.strftime("%Y-%m-%dT%H:%M:%S"), "steps": []}
    def step(name, rc, out, expect_ok):
        ok = (rc == 0) == expect_ok
        res["steps"].append({"step": name, "rc": rc, "as_expected": ok, "tail": out[-1500:]})
        print(f"[{name}] rc={rc} {'OK' if ok else 'UNEXPECTED'}")
        return ok
    sh("git checkout -q -- . && git clean -fdq -e target", cwd=WT)
    if checks_only:
        # keep the recorded confirmation, only (re)run the listed checks against the change
        res = json.load(open(os.path.join(d, "confirmation.json")))
        rc, out = sh(["git", "apply", os.path.join(d, "patch.diff")], cwd=WT)
        assert rc == 0, out
        for c in checks:
            t0 = time.time()
            rc, out = sh(["./check", c], cwd=VERIF, env={"VERIF_REPO": WT, "VERIF_TARGET_DIR": "/tmp/verif-alt-target-" + os.path.basename(WT), "VERIF_OUT_DIR": "/tmp/verif-alt-out-" + os.path.basename(WT)})
            lines = [l for l in out.split("\n") if l.startswith("VIOLATION") or l.startswith("# C")]
            res["checks"][c] = {"rc": rc, "detected": rc == 1 and any(l.startswith("VIOLATION") for l in lines),
                                "lines": lines, "wall_s": round(time.time() - t0, 1), "rerun": True}
            print(f"[check {c}] rc={rc} {lines}")
            rp = os.path.join("/tmp/verif-alt-out-" + os.path.basename(WT), "replays", c)
            if rc == 1 and os.path.isdir(rp):
                dst = os.path.join(d, "replay_" + c)
                shutil.rmtree(dst, ignore_errors=True); shutil.copytree(rp, dst)
        sh("git checkout -q -- . && git clean -fdq -e target", cwd=WT)
        json.dump(res, open(os.path.join(d, "confirmation.json"), "w"), indent=1)
        print("confirmed:", res["confirmed"], " detected:", {c: r["detected"] for c, r in res["checks"].items()})
        return
    demo_dst = os.path.join(WT, demo_rel)
    os.makedirs(os.path.dirname(demo_dst), exist_ok=True)
    shutil.copy(os.path.join(d, "demo.rs"), demo_dst)
    test_name = os.path.splitext(os.path.basename(demo_rel))[0]
    pkg = "dropshot_endpoint" if demo_rel.startswith("dropshot_endpoint/") else "dropshot"
    demo_cmd = f"cargo test --offline -p {pkg} --test {test_name}"
    if "/examples/" in demo_rel:
        demo_cmd = f"cargo run --offline -p {pkg} --example {test_name}"
    rc, out = sh(demo_cmd, cwd=WT); good = step("demo-without-change", rc, out, True)
    rc, out = sh(["git", "apply", os.path.join(d, "patch.diff")], cwd=WT); good &= step("apply-patch", rc, out, True)
    rc, out = sh("cargo build --offline --workspace", cwd=WT); good &= step("build-with-change", rc, out, True)
    rc, out = sh(demo_cmd, cwd=WT); good &= step("demo-with-change", rc, out, False)
    if not skip_suite:
        os.remove(demo_dst)
        # a private network namespace: the example-based tests use fixed ports
        # (12230-12232) and collide with other jobs running the same suite
        suite = "unshare -n sh -c 'ip link set lo up && cargo nextest run --workspace --no-fail-fast --test-threads 8 --offline'"
        rc, out = sh(suite, cwd=WT)
        if rc != 0:
            rc, out2 = sh(suite.replace("--test-threads 8", "--test-threads 4 --retries 2"), cwd=WT)
            out += "\n--- retry ---\n" + out2
        good &= step("existing-suite-with-change", rc, out, True)
    res["confirmed"] = bool(good)
    res["checks"] = {}
    for c in checks:
        t0 = time.time()
        rc, out = sh(["./check", c], cwd=VERIF, env={"VERIF_REPO": WT, "VERIF_TARGET_DIR": "/tmp/verif-alt-target-" + os.path.basename(WT), "VERIF_OUT_DIR": "/tmp/verif-alt-out-" + os.path.basename(WT)})
        lines = [l for l in out.split("\n") if l.startswith("VIOLATION") or l.startswith("# C")]
        res["checks"][c] = {"rc": rc, "detected": rc == 1 and any(l.startswith("VIOLATION") for l in lines),
                            "lines": lines, "wall_s": round(time.time() - t0, 1)}
        print(f"[check {c}] rc={rc} {lines}")
        # keep the replay the check wrote
        rp = os.path.join("/tmp/verif-alt-out-" + os.path.basename(WT), "replays", c)
        if rc == 1 and os.path.isdir(rp):
            dst = os.path.join(d, "replay_" + c)
            shutil.rmtree(dst, ignore_errors=True); shutil.copytree(rp, dst)
    sh("git checkout -q -- . && git clean -fdq -e target", cwd=WT)
    json.dump(res, open(os.path.join(d, "confirmation.json"), "w"), indent=1)
    print("confirmed:", res["confirmed"], " detected:", {c: r["detected"] for c, r in res["checks"].items()})

if __name__ == "__main__":
    main()
