#!/usr/bin/env python3
"""Copy confirmed seeded changes from the sub-agents' output directory into /verif/seeded/<id>/.
usage: tools/import_seeded.py /tmp/mut/out"""
import sys, os, json, shutil
root = sys.argv[1]
dst_root = os.path.join(os.path.dirname(os.path.dirname(os.path.abspath(__file__))), "seeded")
rows = []
for prop in sorted(os.listdir(root)):
    pd = os.path.join(root, prop)
    if not os.path.isdir(pd): continue
    for name in sorted(os.listdir(pd)):
        d = os.path.join(pd, name)
        conf = os.path.join(d, "confirmation.json")
        if not (os.path.isdir(d) and os.path.exists(conf) and os.path.exists(os.path.join(d, "patch.diff"))):
            continue
        c = json.load(open(conf))
        sid = f"{prop}-{name}"
        out = os.path.join(dst_root, sid)
        os.makedirs(out, exist_ok=True)
        for f in ("patch.diff", "demo.rs"):
            shutil.copy(os.path.join(d, f), os.path.join(out, f))
        meta = json.load(open(os.path.join(d, "meta.json")))
        meta["id"] = sid
        meta["breaks_property"] = meta.get("property", prop)
        meta["confirmed_by_maintainer"] = c["confirmed"]
        meta["what_i_ran"] = [
            "tools/try_seeded.py in a scratch worktree of /repo HEAD (never in /repo): "
            "demo on the unmodified checkout (must pass), git apply patch.diff, cargo build --offline --workspace, "
            "demo with the change (must fail), the existing suite with the change in a private network namespace (must pass), "
            "then ./check <id> with VERIF_REPO=<worktree> for each listed check"]
        meta["confirmation_steps"] = [{k: s[k] for k in ("step", "rc", "as_expected")} for s in c["steps"]]
        meta["checks_run"] = {k: {"detected": v["detected"], "verdict_lines": v["lines"]} for k, v in c["checks"].items()}
        json.dump(meta, open(os.path.join(out, "meta.json"), "w"), indent=1)
        for k in c["checks"]:
            rp = os.path.join(d, "replay_" + k)
            if os.path.isdir(rp):
                shutil.rmtree(os.path.join(out, "replay_" + k), ignore_errors=True)
                shutil.copytree(rp, os.path.join(out, "replay_" + k))
        rows.append((sid, c["confirmed"], {k: v["detected"] for k, v in c["checks"].items()}))
for r in rows: print(r)
