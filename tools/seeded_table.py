#!/usr/bin/env python3
"""Print the markdown table of seeded changes (DESIGN.md section 15.6) from seeded/*/meta.json."""
import json, glob, os
root = os.path.join(os.path.dirname(os.path.dirname(os.path.abspath(__file__))), "seeded")
print("| seeded change | breaks | needs, to manifest | detected by | not detected by |")
print("|---|---|---|---|---|")
for f in sorted(glob.glob(os.path.join(root, "*", "meta.json"))):
    m = json.load(open(f))
    det = [k for k, v in m.get("checks_run", {}).items() if v["detected"]]
    nd = [k for k, v in m.get("checks_run", {}).items() if not v["detected"]]
    needs = str(m.get("needs_to_manifest", "")).replace("\n", " ").replace("|", "/")
    if len(needs) > 220: needs = needs[:217] + "..."
    print(f"| `{m['id']}` | {m['breaks_property']} | {needs} | {', '.join(det) or '-'} | {', '.join(nd) or '-'} |")
