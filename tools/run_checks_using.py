#!/usr/bin/env python3
"""
Run every check that uses one of the given harness binaries (or shared source files):
    tools/run_checks_using.py router extract_common lc_common
A name matches a check when one of its streams names that binary, or (for the shared
modules extract_common / lc_common / table / server / util) when the binary's source
includes the module.  Prints one line per check; exit 1 if any check fails.
"""
import sys, os, json, glob, subprocess, re
VERIF = os.path.dirname(os.path.dirname(os.path.abspath(__file__)))
names = sys.argv[1:]
def bin_sources(b):
    p = os.path.join(VERIF, "harness", "src", "bin", b + ".rs")
    return open(p).read() if os.path.exists(p) else ""
hit = []
for f in sorted(glob.glob(os.path.join(VERIF, "checks", "C*.json"))):
    d = json.load(open(f))
    bins = {s["bin"] for s in d["streams"]}
    use = False
    for n in names:
        if n in bins: use = True
        for b in bins:
            src = bin_sources(b)
            if re.search(r"\b" + re.escape(n) + r"\b", src): use = True
    if use: hit.append(d["id"])
rc = 0
for c in hit:
    p = subprocess.run(["./check", c], cwd=VERIF, stdout=subprocess.PIPE, stderr=subprocess.STDOUT)
    lines = [l for l in p.stdout.decode("utf-8", "replace").split("\n") if l.startswith("# C") or l.startswith("VIOLATION")]
    print(c, "rc=%d" % p.returncode, " | ".join(l[:160] for l in lines))
    rc |= p.returncode
sys.exit(1 if rc else 0)
