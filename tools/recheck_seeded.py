#!/usr/bin/env python3
"""
Re-run checks against an already confirmed seeded change (in a scratch worktree, never /repo):
   tools/recheck_seeded.py <seeded id> [--checks C01,C04] [--wt /tmp/mywt] [--tier quick]
Applies seeded/<id>/patch.diff to the worktree, runs ./check with VERIF_REPO=<wt>, records
the verdicts in seeded/<id>/meta.json (checks_run) and restores the worktree.
"""
import sys, os, json, subprocess, shutil, time
VERIF = os.path.dirname(os.path.dirname(os.path.abspath(__file__)))
def sh(cmd, cwd=None, env=None, timeout=7200):
    e = dict(os.environ); e["CARGO_NET_OFFLINE"] = "true"
    if env: e.update(env)
    p = subprocess.run(cmd, cwd=cwd, env=e, shell=isinstance(cmd, str), stdout=subprocess.PIPE, stderr=subprocess.STDOUT, timeout=timeout)
    return p.returncode, p.stdout.decode("utf-8", "replace")
def main():
    sid = sys.argv[1].rstrip("/").split("/")[-1]
    d = os.path.join(VERIF, "seeded", sid)
    meta = json.load(open(os.path.join(d, "meta.json")))
    checks = [meta["breaks_property"]]; wt = "/tmp/mywt"; tier = "quick"
    a = sys.argv[2:]
    while a:
        if a[0] == "--checks": checks = a[1].split(","); a = a[2:]
        elif a[0] == "--wt": wt = a[1]; a = a[2:]
        elif a[0] == "--tier": tier = a[1]; a = a[2:]
        else: raise SystemExit("bad arg " + a[0])
    tag = os.path.basename(wt)
    sh("git checkout -q -- . && git clean -fdq -e target", cwd=wt)
    rc, out = sh(["git", "apply", os.path.join(d, "patch.diff")], cwd=wt)
    assert rc == 0, out
    try:
        for c in checks:
            t0 = time.time()
            outdir = "/tmp/verif-alt-out-" + tag
            rc, out = sh(["./check", c, "--tier", tier], cwd=VERIF,
                         env={"VERIF_REPO": wt, "VERIF_TARGET_DIR": "/tmp/verif-alt-target-" + tag, "VERIF_OUT_DIR": outdir})
            lines = [l for l in out.split("\n") if l.startswith("VIOLATION") or l.startswith("# C") or l.startswith("KNOWN-FINDING")]
            lines = [l[:400] for l in lines]
            det = rc == 1 and any(l.startswith("VIOLATION") for l in lines)
            meta.setdefault("checks_run", {})[c] = {"detected": det, "verdict_lines": [l for l in lines if not l.startswith("KNOWN")],
                                                    "tier": tier, "wall_s": round(time.time() - t0, 1)}
            print(f"[{sid} check {c}] rc={rc} detected={det}")
            for l in lines: print("   ", l[:300])
            rp = os.path.join(outdir, "replays", c)
            if det and os.path.isdir(rp):
                dst = os.path.join(d, "replay_" + c)
                shutil.rmtree(dst, ignore_errors=True); shutil.copytree(rp, dst)
    finally:
        sh("git checkout -q -- . && git clean -fdq -e target", cwd=wt)
    json.dump(meta, open(os.path.join(d, "meta.json"), "w"), indent=1)
if __name__ == "__main__":
    main()
