#!/bin/sh
# Re-run, for every seeded change, the check of the property it breaks (3 scratch worktrees in parallel).
# usage: tools/regress_seeded.sh   (worktrees /tmp/mywt /tmp/mywt2 /tmp/mywt3 of /repo must exist)
cd "$(dirname "$0")/.."
# (changes neutralised by a later repair are skipped)
for d in seeded/*/; do grep -q neutralised_by $d/meta.json || basename $d; done > /tmp/regress_all.txt
split -n l/3 /tmp/regress_all.txt /tmp/regress_part_
i=0
for part in /tmp/regress_part_a?; do
  i=$((i+1)); wt=/tmp/mywt; [ $i -gt 1 ] && wt=/tmp/mywt$i
  ( for s in $(cat $part); do python3 tools/recheck_seeded.py $s --wt $wt; done > /tmp/regress_$i.log 2>&1 ) &
done
wait
grep -h "detected=" /tmp/regress_?.log | sort
