/-
C07 — the OpenAPI document tells the truth about requests and responses.

Property theorems only.  Model: `DropshotModel/OpenApiDoc07.lean` (`Ty`,
`schemaOf`, `decodeJson`, `formatOk`, `paramList`, `extractParams`, `loadBody`,
`respond`/`docResponse`, `errorSchema`/`errorBody`) on top of the schema
semantics and the converter model of C08.  Lemmas: `Lemmas/Doc07.lean`.

Partial (by design, DESIGN.md section 12): that schemars' derived schema and
serde's derived (de)serialiser agree with `schemaOf` / `decodeJson` is a
contract of those crates; the model states it, the correspondence harness
samples it on a fixed family of real types and endpoints.
-/
import DropshotProofs.Lemmas.Doc07

namespace Dropshot.C07
open Dropshot.Schema Dropshot.Doc07

/-! ### The derived schema says what the deserialiser accepts -/

/-- **C07 (schema ⇔ serde).**  For every type of the universe and every JSON
value: serde accepts the value iff it is valid for the derived schema *and*
respects what the schema states only through `format` (integer width, UUID
syntax).  The restriction is explicit because schemars emits no `maximum`
(`u8` is `{type: integer, format: uint8, minimum: 0}`): `formatOk` is exactly
"every integer fits its documented format, every `uuid` string is one". -/
theorem schema_sound_complete (ρ : Env) (t : Ty) (j : J) :
    (decodeJson t j).isSome = ((schemaOf t).valid ρ j && formatOk t j) :=
  sound_complete ρ t j

/-- Everything serde accepts — in particular every serialised response value
that round-trips — is valid for the schema (no `format` side condition). -/
theorem accepted_is_valid (ρ : Env) (t : Ty) (j : J) (h : (decodeJson t j).isSome = true) :
    (schemaOf t).valid ρ j = true := by
  rw [schema_sound_complete ρ t j] at h
  simp only [Bool.and_eq_true] at h
  exact h.1

/-! ### Parameters -/

/-- **C07 (required parameters).**  Omitting a parameter that `schema2struct`
reports as required makes `Query`/`Path` extraction fail with 400, whatever
else the request carries. -/
theorem required_refused (fs : Fields) (q : List (String × String)) (n : String) (s : JS)
    (hreq : (n, true, s) ∈ paramList fs) (hmiss : lookupStr n q = none) :
    extractParams fs q = .error 400 := by
  cases h : extractParams fs q with
  | ok r => exact absurd h (extract_missing fs q n s hreq hmiss r)
  | error e => rw [extract_err_400 fs q e h]

/-- **C07 (document-derived parameters are accepted).**  If every parameter
marked required is present and every present value reads, by its documented
type, as a JSON value valid for its documented schema (and its `format`), the
extraction succeeds. -/
theorem doc_request_accepted (ρ : Env) (fs : Fields) (q : List (String × String))
    (hreq : ∀ n s, (n, true, s) ∈ paramList fs → (lookupStr n q).isSome = true)
    (hval : ∀ n t d, (n, t, d) ∈ fs.toList → ∀ v, lookupStr n q = some v →
      ∃ j, readParam t v = some j ∧ (schemaOf t).valid ρ j = true ∧ formatOk t j = true) :
    ∃ r, extractParams fs q = .ok r :=
  extract_ok ρ fs q hreq hval

/-- **C07 (document-derived parameters, code as it stands).**  The same for the
extraction the code performs when some members come from a `#[serde(flatten)]`ed
struct — provided no supplied flattened member is non-string (`…_partial`: the
excluded region is finding K6, witness `flattened_numeric_member_refused`). -/
theorem doc_request_accepted_partial (ρ : Env) (flat : List String) (fs : Fields)
    (q : List (String × String))
    (hflat : flatBlocked flat fs q = false)
    (hreq : ∀ n s, (n, true, s) ∈ paramList fs → (lookupStr n q).isSome = true)
    (hval : ∀ n t d, (n, t, d) ∈ fs.toList → ∀ v, lookupStr n q = some v →
      ∃ j, readParam t v = some j ∧ (schemaOf t).valid ρ j = true ∧ formatOk t j = true) :
    ∃ r, extractParamsFlat flat fs q = .ok r := by
  simp only [extractParamsFlat, hflat]
  exact doc_request_accepted ρ fs q hreq hval

/-- **K6.**  `struct Q { own: u8, #[serde(flatten)] inner: { fx: u16 } }`: the
request `own=5&fx=7` supplies every documented-required parameter with a value
valid for its documented schema, yet the extraction the code performs fails;
without the flatten it would succeed. -/
theorem flattened_numeric_member_refused :
    let fs : Fields := .cons "own" (.int .w8 false) false (.cons "fx" (.int .w16 false) false .nil)
    let q := [("own", "5"), ("fx", "7")]
    extractParamsFlat ["fx"] fs q = .error 400 ∧ (∃ r, extractParams fs q = .ok r) :=
  ⟨rfl, _, rfl⟩

/-- the parameter list marks exactly the non-`Option`, non-defaulted members
required, and publishes each member's own schema. -/
theorem paramList_spec (name : String) (ty : Ty) (dflt : Bool) (rest : Fields) :
    paramList (.cons name ty dflt rest) = (name, !(dflt || ty.isOpt), schemaOf ty) :: paramList rest := rfl

/-! ### Bodies -/

/-- **C07 (body contract).**  A body valid for the documented request schema
(and its `format`s), sent with the documented content type (or none), is
accepted. -/
theorem body_contract (ρ : Env) (t : Ty) (mime : Option String) (j : J)
    (hm : mime = none ∨ mime = some "application/json")
    (hv : (schemaOf t).valid ρ j = true) (hf : formatOk t j = true) :
    ∃ v, loadBody t mime (some j) = .ok v := by
  have hd : (decodeJson t j).isSome = true := by rw [schema_sound_complete ρ t j]; simp [hv, hf]
  obtain ⟨x, hx⟩ := Option.isSome_iff_exists.1 hd
  rcases hm with rfl | rfl <;> exact ⟨x, by simp [loadBody, BodyCT.ofMime, hx]⟩

/-- a body that is not valid for the documented schema is refused with 400. -/
theorem invalid_body_refused (ρ : Env) (t : Ty) (mime : Option String) (j : J)
    (hv : (schemaOf t).valid ρ j = false) : loadBody t mime (some j) = .error 400 := by
  have hd : decodeJson t j = none := by
    have := schema_sound_complete ρ t j
    rw [hv] at this
    simpa using this
  simp only [loadBody]
  split
  · rfl
  · simp [hd]
  · rfl

/-- any other media type is refused with 400. -/
theorem wrong_content_type_refused (t : Ty) (m : String) (b : Option J)
    (h : BodyCT.ofMime m ≠ some .json) : loadBody t (some m) b = .error 400 := by
  simp only [loadBody, Option.getD_some]
  split
  · rfl
  · rename_i h'; exact absurd h' h
  · rfl

/-! ### Responses -/

/-- **C07 (successful responses are documented).**  A response of kind `k`
carrying a serialised value of the response type has the documented status;
its content type and body are exactly the documented media type with a body
valid for the documented schema, or — for the kinds with an `Empty` body —
neither is present and none is documented. -/
theorem success_documented (ρ : Env) (k : Kind) (t : Ty) (j : J) (h : (decodeJson t j).isSome = true) :
    (respond k j).status = (docResponse k t).status
    ∧ (match (respond k j).contentType, (respond k j).body with
        | some ct, some b => ∃ s, (ct, s) ∈ (docResponse k t).content ∧ s.valid ρ b = true
        | none, none => (docResponse k t).content = []
        | _, _ => False) := by
  have hv := accepted_is_valid ρ t j h
  cases k <;> simp [respond, docResponse, Kind.hasBody, Kind.status, hv]

/-- **C07 (successful responses, with a declared header struct).**  As above for
`HttpResponseHeaders<_, H>` when `H` has string members only (`…_partial`: the
excluded region is finding K7, witness `nonstring_header_member_fails`). -/
theorem success_documented_partial (ρ : Env) (hdr : Option Fields) (k : Kind) (t : Ty) (j : J)
    (hh : ∀ fs, hdr = some fs → headersSerialisable fs = true)
    (h : (decodeJson t j).isSome = true) :
    (respondH hdr k j).status = (docResponse k t).status := by
  have := (success_documented ρ k t j h).1
  cases hdr with
  | none => simpa [respondH] using this
  | some fs => simpa [respondH, hh fs rfl] using this

/-- **K7.**  With `struct H { x_num: u32 }` every response is a 500 although the
document promises the success status. -/
theorem nonstring_header_member_fails (k : Kind) (j : J) :
    (respondH (some (.cons "x_num" (.int .w32 false) false .nil)) k j).status = 500 := rfl

/-- **K8.**  `Option<T>` of a referenceable `T` (struct, enum) at the root of a
body or response: serde produces / accepts `null`, the published root schema
does not admit it. -/
theorem root_option_of_ref_loses_null (ρ : Env) (fs : Fields) :
    (decodeJson (.opt (.struct fs)) .null).isSome = true
    ∧ (rootSchemaOf (.opt (.struct fs))).valid ρ .null = false := by
  refine ⟨rfl, ?_⟩
  simp [rootSchemaOf, Ty.isRef, schemaOf, valid_typed, IType.admits, extNullable_nil]

/-- …whereas inside a named definition (a struct member) the visitor's
`allOf` wrapper keeps `null`. -/
theorem member_option_of_ref_keeps_null (ρ : Env) (fs : Fields) :
    (schemaOf (.opt (.struct fs))).valid ρ .null = true := by
  rw [schemaOf_opt_valid]; simp [J.isNull]

/-! ### Untagged unions: `anyOf`, not `oneOf` -/

/-- the two alternatives of
`#[serde(untagged)] enum Shape { Plain { value: u32 }, Labeled { value: u32, label: String } }` -/
def shapeAlts : TyList :=
  .cons (.struct (.cons "value" (.int .w32 false) false .nil))
    (.cons (.struct (.cons "value" (.int .w32 false) false (.cons "label" .str false .nil))) .nil)

def shapeValue : J := .obj [("value", .num 1), ("label", .str "x")]

/-- A `Labeled` value matches both alternatives: serde accepts it and the
derived `anyOf` is valid, but "exactly one alternative" (`oneOf`) would reject
it — so publishing such a type as `oneOf` would make the document lie about
the bodies the server sends and accepts. -/
theorem overlapping_untagged_needs_anyOf :
    (decodeJson (.untagged shapeAlts) shapeValue).isSome = true
    ∧ (schemaOf (.untagged shapeAlts)).valid ⟨fun _ _ => true, fun _ _ => true⟩ shapeValue = true
    ∧ exactlyOne ((schemaListOf shapeAlts).vals ⟨fun _ _ => true, fun _ _ => true⟩ shapeValue) = false := by
  decide

/-! ### Errors -/

/-- **C07 (framework error bodies).**  Every body `HttpError::into_response`
builds — any message, with or without an error code, any request id — is valid
for the hand-rolled `Error` schema. -/
theorem error_body_valid (ρ : Env) (message : String) (errorCode : Option String) (requestId : String) :
    errorSchema.valid ρ (errorBody message errorCode requestId) = true := by
  cases errorCode <;>
    simp [errorSchema, errorBody, mkTyped, JS.valid, typeOk, IType.admits, enumOk, constOk, JSSubs.valid,
      numOk, strOk, optAll, JSArr.valid, JSObjV.valid, JSProps.valid, JSProps.patValid, JSProps.keys,
      JSOpt.valid, J.lookup, J.hasKey, extNullable, J.isNull]

/-- …and the `Error` schema is not vacuous: a body without `message` is refused. -/
theorem error_schema_requires_message :
    errorSchema.valid ⟨fun _ _ => true, fun _ _ => true⟩ (.obj [("request_id", .str "r")]) = false := by
  decide

/-! ### From the derived schema to the published one (link to C08) -/

/-- the converter accepts every derived schema of the universe (no panic arm is
reachable), with or without a `name`. -/
theorem j2oas_total_on_derived (t : Ty) (n : Option String) : ∃ o, j2oas n (schemaOf t) = .ok o :=
  (isOk_iff _).1 (j2oas_total t n)

/-- **C07 via C08.**  Outside `()` (finding K3) the schema *published* for a
type accepts exactly what the derived schema accepts, hence (with
`schema_sound_complete`) exactly what serde accepts up to `format`. -/
theorem published_schema_faithful_partial (t : Ty) (hwf : t.wf = true) (n : Option String) :
    ∃ o, j2oas n (schemaOf t) = .ok o ∧
      ∀ ρ j, (o.valid ρ j && formatOk t j) = (decodeJson t j).isSome := by
  obtain ⟨o, ho⟩ := j2oas_total_on_derived t n
  refine ⟨o, ho, fun ρ j => ?_⟩
  rw [pres ρ (schemaOf t) n o ho (schemaOf_supported t hwf) j, schema_sound_complete ρ t j]

/-- K3 seen from C07: a `()` response body is `null`, serde and the derived
schema accept it, the published schema does not. -/
theorem unit_response_not_documented_truthfully :
    (decodeJson .unit .null).isSome = true
    ∧ ∃ o, j2oas none (schemaOf .unit) = .ok o ∧ ∀ ρ, o.valid ρ .null = false := by
  refine ⟨rfl, _, rfl, fun ρ => ?_⟩
  simp [RefOr.valid, OAS.valid, OKind.valid, enumHas, J.isNull, mkData, extNullable, J.lookup]

/-! ### Non-vacuity -/

/-- a parameter struct with a required `u32`, an optional string enum, a
defaulted `bool` and a required UUID. -/
def sampleParams : Fields :=
  .cons "id" (.int .w32 false) false
    (.cons "mode" (.opt (.enumOf ["fast", "slow"])) false
      (.cons "verbose" .bool true
        (.cons "key" .uuid false .nil)))

example : paramList sampleParams =
    [("id", true, schemaOf (.int .w32 false)), ("mode", false, schemaOf (.opt (.enumOf ["fast", "slow"]))),
     ("verbose", false, schemaOf .bool), ("key", true, schemaOf .uuid)] := rfl

example : ∃ r, extractParams sampleParams
    [("id", "7"), ("key", "00000000-0000-4000-8000-000000000000"), ("mode", "slow")] = .ok r := ⟨_, rfl⟩

example : extractParams sampleParams [("id", "7"), ("mode", "slow")] = .error 400 := rfl

/-- a body type with nesting, an optional struct, a vector and a map. -/
def sampleBody : Ty :=
  .struct (.cons "name" .str false
    (.cons "inner" (.opt (.struct (.cons "x" (.int .w8 false) false .nil))) false
      (.cons "tags" (.vec (.enumOf ["a", "b"])) true
        (.cons "limits" (.map (.nonzero .w16)) false .nil))))

example : sampleBody.wf = true := by decide
example : (decodeJson sampleBody (.obj [("name", .str "n"), ("inner", .null),
    ("limits", .obj [("k", .num 3)])])).isSome = true := by decide
example : (decodeJson sampleBody (.obj [("name", .str "n"), ("limits", .obj [("k", .num 0)])])).isSome = false := by
  decide

end Dropshot.C07
