/-
C20 — WebSocket upgrades follow the RFC 6455 handshake.

Property theorems only.  Model: DropshotModel/Websocket.lean
(`header_list_contains`, `WebsocketUpgrade::from_request`, `derive_accept_key`,
`WebsocketUpgrade::handle` of dropshot/src/websocket.rs as the code stands after
the repair of D5), DropshotModel/Sha1.lean (RFC 3174), DropshotModel/Base64.lean.
The specification side (`rfcHandshake`, `legalLists`) is written over the
RFC 7230 list grammar independently of the code's flat split.

Not proved here (validated on every run by the `ef` stream of `./check C20`):
"bytes flowing unmodified in both directions" after the 101 — that is hyper's
upgrade machinery, outside the model.
-/
import DropshotModel.Websocket
import DropshotProofs.Lemmas.Websocket

namespace Dropshot.C20
open Dropshot Dropshot.Websocket

/-! ### 101 ⇔ the four RFC 6455 elements -/

/-- **C20, handshake clause.**  For every header set whose `Connection` and
`Upgrade` lines are legal RFC 7230 lists (any case, order, extra tokens, OWS
around commas, empty elements, any number of lines), `from_request` succeeds
iff the request carries the four elements RFC 6455 §4.2.1 asks for:
`Connection` ∋ upgrade, `Upgrade` ∋ websocket, version 13, a key. -/
theorem handshake_iff_rfc (hdrs : Headers) (hl : legalLists hdrs = true) :
    (handshake hdrs).isOk = rfcHandshake hdrs := by
  simp only [legalLists, Bool.and_eq_true] at hl
  have hc := listContains_eq isToken token_visible token_noOWS hdrs hConnection tUpgrade
    (by decide) hl.1
  have hu := listContains_eq isProtocol protocol_visible protocol_noOWS hdrs hUpgrade tWebsocket
    (by decide) hl.2
  have hc' : listContains hdrs hConnection tUpgrade = rfcConnection hdrs := by
    rw [hc]; rfl
  have hu' : listContains hdrs hUpgrade tWebsocket = rfcUpgrade hdrs := by
    rw [hu]; rfl
  unfold handshake handshakeWith rfcHandshake
  rw [hc', hu']
  cases rfcConnection hdrs <;> cases rfcUpgrade hdrs <;> simp [Except.isOk, Except.toBool]
  unfold rfcVersion rfcKey getFirst
  cases getAll hdrs hVersion with
  | nil => simp
  | cons v vs =>
    by_cases hv : v = v13
    · subst hv
      cases getAll hdrs hKey <;> simp
    · simp [hv]

/-- The endpoint answers 101 exactly when the extractor succeeded, and the
connection is handed to the channel handler exactly then. -/
theorem respond_101_iff (hdrs : Headers) :
    (respond hdrs).status = 101 ↔ (handshake hdrs).isOk = true := by
  unfold respond
  cases handshake hdrs <;> simp [Except.isOk, Except.toBool, switching, HsErr.status]

/-- Corollary in the property's words: on legal lists, 101 ⇔ all four elements. -/
theorem switching_iff_rfc (hdrs : Headers) (hl : legalLists hdrs = true) :
    (respond hdrs).status = 101 ↔ rfcHandshake hdrs = true := by
  rw [respond_101_iff, handshake_iff_rfc hdrs hl]

/-! ### Anything less is a 400 and is not upgraded -/

/-- Every extractor failure is a 400; the endpoint never answers anything but
101 or 400. -/
theorem error_is_400 (e : HsErr) : e.status = 400 := rfl

theorem respond_status (hdrs : Headers) :
    (respond hdrs).status = 101 ∨ ((respond hdrs).status = 400 ∧ upgraded hdrs = false) := by
  unfold upgraded respond
  cases handshake hdrs <;> simp [switching, HsErr.status]

/-- **C20, refusal clause (an element is missing).**  Whatever else the request
carries, taking away any one of the four headers makes the extractor fail; the
answer is 400 and the connection is not upgraded.  No hypothesis on `hdrs`. -/
theorem missing_any_400 (hdrs : Headers) (name : List Nat)
    (hn : name = hConnection ∨ name = hUpgrade ∨ name = hVersion ∨ name = hKey) :
    (∃ e, handshake (remove name hdrs) = .error e) ∧
      (respond (remove name hdrs)).status = 400 ∧ upgraded (remove name hdrs) = false := by
  have h0 := getAll_remove name hdrs
  have key : ∃ e, handshake (remove name hdrs) = .error e := by
    unfold handshake handshakeWith
    rcases hn with rfl | rfl | rfl | rfl
    · exact ⟨.noConnectionUpgrade, by simp [listContains, h0]⟩
    · by_cases h1 : listContains (remove hUpgrade hdrs) hConnection tUpgrade = true
      · exact ⟨.noUpgradeWebsocket, by simp [h1]; simp [listContains, h0]⟩
      · exact ⟨.noConnectionUpgrade, by simp [h1]⟩
    · by_cases h1 : listContains (remove hVersion hdrs) hConnection tUpgrade = true
      · by_cases h2 : listContains (remove hVersion hdrs) hUpgrade tWebsocket = true
        · have hk : getFirst (remove hVersion hdrs) hVersion = none := by simp [getFirst, h0]
          exact ⟨.badVersion, by simp [h1, h2, hk]⟩
        · exact ⟨.noUpgradeWebsocket, by simp [h1, h2]⟩
      · exact ⟨.noConnectionUpgrade, by simp [h1]⟩
    · by_cases h1 : listContains (remove hKey hdrs) hConnection tUpgrade = true
      · by_cases h2 : listContains (remove hKey hdrs) hUpgrade tWebsocket = true
        · by_cases h3 : getFirst (remove hKey hdrs) hVersion = some v13
          · have hk : getFirst (remove hKey hdrs) hKey = none := by simp [getFirst, h0]
            exact ⟨.noKey, by simp [h1, h2, h3, hk]⟩
          · exact ⟨.badVersion, by simp [h1, h2, h3]⟩
        · exact ⟨.noUpgradeWebsocket, by simp [h1, h2]⟩
      · exact ⟨.noConnectionUpgrade, by simp [h1]⟩
  obtain ⟨e, he⟩ := key
  refine ⟨⟨e, he⟩, ?_⟩
  unfold upgraded respond
  simp [he, HsErr.status]

/-- **C20, refusal clause (an element is wrong).**  On legal lists: if any one
of the four elements is absent *or corrupted* — no `upgrade` among the
connection options, no `websocket` among the protocols, a version other than
`13` (`12`, `013`, `13,13`, …), no key — the answer is 400, not upgraded. -/
theorem corrupt_any_400 (hdrs : Headers) (hl : legalLists hdrs = true)
    (h : rfcConnection hdrs = false ∨ rfcUpgrade hdrs = false ∨ rfcVersion hdrs = false ∨
      rfcKey hdrs = false) :
    (respond hdrs).status = 400 ∧ upgraded hdrs = false := by
  have h1 : rfcHandshake hdrs = false := by
    unfold rfcHandshake
    rcases h with h | h | h | h <;> simp [h]
  rcases respond_status hdrs with h2 | h2
  · rw [switching_iff_rfc hdrs hl, h1] at h2
    exact absurd h2 (by simp)
  · exact h2

/-- The version and key tests need no hypothesis on the list headers: a first
`Sec-WebSocket-Version` value other than the two bytes `13`, or no
`Sec-WebSocket-Key` line, is always refused. -/
theorem bad_version_or_no_key_400 (hdrs : Headers)
    (h : rfcVersion hdrs = false ∨ rfcKey hdrs = false) :
    (respond hdrs).status = 400 ∧ upgraded hdrs = false := by
  have key : ∃ e, handshake hdrs = .error e := by
    unfold handshake handshakeWith
    by_cases h1 : listContains hdrs hConnection tUpgrade = true
    · by_cases h2 : listContains hdrs hUpgrade tWebsocket = true
      · by_cases h3 : getFirst hdrs hVersion = some v13
        · rcases h with h | h
          · exfalso
            unfold rfcVersion at h
            unfold getFirst at h3
            cases hg : getAll hdrs hVersion with
            | nil => simp [hg] at h3
            | cons v vs => simp [hg] at h h3; exact h h3
          · refine ⟨.noKey, ?_⟩
            unfold rfcKey at h
            have hk : getFirst hdrs hKey = none := by
              have : getAll hdrs hKey = [] := by simpa using h
              simp [getFirst, this]
            simp [h1, h2, h3, hk]
        · exact ⟨.badVersion, by simp [h1, h2, h3]⟩
      · exact ⟨.noUpgradeWebsocket, by simp [h1, h2]⟩
    · exact ⟨.noConnectionUpgrade, by simp [h1]⟩
  obtain ⟨e, he⟩ := key
  unfold upgraded respond
  simp [he, HsErr.status]

/-- **Repair of K20a.**  A request older than HTTP/1.1 is refused with 400
whatever its headers say (the upgrade mechanism does not exist there: before
the repair a complete handshake over HTTP/1.0 got a 101 that hyper could never
honour), and for HTTP/1.1 the version check changes nothing, so every other
theorem of this file is about the HTTP/1.1 case. -/
theorem http10_is_400 (hdrs : Headers) :
    handshakeReq false hdrs = .error .oldHttp ∧ (respondReq false hdrs).status = 400 ∧
      (respondReq false hdrs).headers = [] ∧
      handshakeReq true hdrs = handshake hdrs ∧ respondReq true hdrs = respond hdrs := by
  refine ⟨rfl, rfl, rfl, rfl, rfl⟩

/-! ### The accept value -/

/-- **C20, digest clause.**  A successful handshake carries
`base64(sha1(key ++ GUID))` of the first `Sec-WebSocket-Key` value, whatever
bytes that is, and the 101 has exactly `Connection: Upgrade`,
`Upgrade: websocket`, `Sec-WebSocket-Accept: <that digest>`. -/
theorem accept_value (hdrs : Headers) (a : List Nat) (h : handshake hdrs = .ok a) :
    ∃ k, getFirst hdrs hKey = some k ∧ a = acceptKey k ∧
      respond hdrs =
        { status := 101
          headers := [(hConnection, vUpgradeCap), (hUpgrade, tWebsocket), (hAccept, acceptKey k)] } := by
  have h' := h
  unfold handshake handshakeWith at h
  split at h
  · cases h
  · split at h
    · cases h
    · split at h
      · cases h
      · split at h
        · cases h
        · rename_i k hk
          refine ⟨k, hk, ?_, ?_⟩
          · injection h with h; exact h.symm
          · injection h with h
            unfold respond
            rw [h', ← h]; rfl

/-- The 101 built by `handle` itself passes the client-side checks of
RFC 6455 §4.1: `Upgrade` is `websocket`, `Connection` includes `upgrade`
(case-insensitively), and the accept header is the one stored. -/
theorem switching_headers (a : List Nat) :
    rfcConnection (switching a).headers = true ∧ rfcUpgrade (switching a).headers = true ∧
      getAll (switching a).headers hAccept = [a] := by
  have h1 : getAll (switching a).headers hConnection = [vUpgradeCap] := by
    simp [switching, getAll, hConnection, hUpgrade, hAccept]
  have h2 : getAll (switching a).headers hUpgrade = [tWebsocket] := by
    simp [switching, getAll, hConnection, hUpgrade, hAccept]
  refine ⟨?_, ?_, ?_⟩
  · unfold rfcConnection fieldElems; rw [h1]; decide
  · unfold rfcUpgrade fieldElems; rw [h2]; decide
  · simp [switching, getAll, hConnection, hUpgrade, hAccept]

/-- **RFC 6455 §1.3 worked example**, checked by the kernel: key
`dGhlIHNhbXBsZSBub25jZQ==` gives `s3pPLMBiTxaQ9kYGzzhZRbK+xOo=`. -/
theorem rfc_vector :
    acceptKey [100, 71, 104, 108, 73, 72, 78, 104, 98, 88, 66, 115, 90, 83, 66, 117, 98, 50, 53,
      106, 90, 81, 61, 61] =
    [115, 51, 112, 80, 76, 77, 66, 105, 84, 120, 97, 81, 57, 107, 89, 71, 122, 122, 104, 90, 82,
      98, 75, 43, 120, 79, 111, 61] := by
  decide +kernel

/-- FIPS 180 / RFC 3174 test vectors for the SHA-1 model, checked by the kernel:
`"abc"`, the empty message, and the 56-byte (two-block) message
`"abcdbcdecdefdefgefghfghighijhijkijkljklmklmnlmnomnopnopq"`. -/
theorem sha1_vectors :
    Sha1.sha1 [97, 98, 99] =
      [0xa9, 0x99, 0x3e, 0x36, 0x47, 0x06, 0x81, 0x6a, 0xba, 0x3e, 0x25, 0x71, 0x78, 0x50, 0xc2,
        0x6c, 0x9c, 0xd0, 0xd8, 0x9d] ∧
    Sha1.sha1 [] =
      [0xda, 0x39, 0xa3, 0xee, 0x5e, 0x6b, 0x4b, 0x0d, 0x32, 0x55, 0xbf, 0xef, 0x95, 0x60, 0x18,
        0x90, 0xaf, 0xd8, 0x07, 0x09] ∧
    Sha1.sha1 [97, 98, 99, 100, 98, 99, 100, 101, 99, 100, 101, 102, 100, 101, 102, 103, 101, 102,
        103, 104, 102, 103, 104, 105, 103, 104, 105, 106, 104, 105, 106, 107, 105, 106, 107, 108,
        106, 107, 108, 109, 107, 108, 109, 110, 108, 109, 110, 111, 109, 110, 111, 112, 110, 111,
        112, 113] =
      [0x84, 0x98, 0x3e, 0x44, 0x1c, 0x3b, 0xd2, 0x6e, 0xba, 0xae, 0x4a, 0xa1, 0xf9, 0x51, 0x29,
        0xe5, 0xe5, 0x46, 0x70, 0xf1] := by
  decide +kernel

/-- The accept value is always a 28-character base64 string (20 digest bytes). -/
theorem sha1_length (msg : List Nat) : (Sha1.sha1 msg).length = 20 := by
  simp [Sha1.sha1, Sha1.beBytes]

/-! ### Defect D5 (repaired): regression witnesses -/

/-- `Connection: keep-alive,<HTAB>Upgrade` — a legal list; RFC says handshake,
the repaired code accepts, the pre-repair code (split on `,`/SP only) refused. -/
def d5Tab : Headers :=
  [ (hConnection, [107, 101, 101, 112, 45, 97, 108, 105, 118, 101, 44, 9, 85, 112, 103, 114, 97, 100, 101]),
    (hUpgrade, [87, 101, 98, 83, 111, 99, 107, 101, 116]),
    (hVersion, v13),
    (hKey, [100, 71, 104, 108, 73, 72, 78, 104, 98, 88, 66, 115, 90, 83, 66, 117, 98, 50, 53, 106, 90, 81, 61, 61]) ]

/-- `Connection: keep-alive` and `Connection: Upgrade` on two lines. -/
def d5TwoLines : Headers :=
  [ (hConnection, [107, 101, 101, 112, 45, 97, 108, 105, 118, 101]),
    (hUpgrade, tWebsocket),
    (hConnection, vUpgradeCap),
    (hVersion, v13),
    (hKey, [100, 71, 104, 108, 73, 72, 78, 104, 98, 88, 66, 115, 90, 83, 66, 117, 98, 50, 53, 106, 90, 81, 61, 61]) ]

theorem asIs_fails_tab :
    legalLists d5Tab = true ∧ rfcHandshake d5Tab = true ∧
      failure (handshakeAsIs d5Tab) = some .noConnectionUpgrade ∧ (handshake d5Tab).isOk = true := by
  decide +kernel

theorem asIs_fails_two_lines :
    legalLists d5TwoLines = true ∧ rfcHandshake d5TwoLines = true ∧
      failure (handshakeAsIs d5TwoLines) = some .noConnectionUpgrade ∧ (handshake d5TwoLines).isOk = true := by
  decide +kernel

/-! ### Where the code is more liberal than the RFCs (observations, not excluded regions) -/

/-- RFC 6455 §4.2.1 item 5 asks for a key that is base64 of 16 bytes; the code
(and the property text, "a key … all key values") takes any bytes: an empty
`Sec-WebSocket-Key` is answered with 101. -/
theorem key_not_validated :
    let hdrs : Headers := [(hConnection, tUpgrade), (hUpgrade, tWebsocket), (hVersion, v13), (hKey, [])]
    (respond hdrs).status = 101 ∧ rfcKeyStrict hdrs = false := by
  decide +kernel

/-- The hypothesis `legalLists` in `handshake_iff_rfc` is needed: on the
malformed line `Connection: x upgrade` (a space inside an element; not a legal
`#token` list, whose only element would be the non-token `x upgrade`) the code
finds the word `upgrade`. -/
theorem lenient_on_illegal_list :
    let hdrs : Headers :=
      [(hConnection, [120, 32, 117, 112, 103, 114, 97, 100, 101]), (hUpgrade, tWebsocket),
        (hVersion, v13), (hKey, [65])]
    legalLists hdrs = false ∧ rfcHandshake hdrs = false ∧ (respond hdrs).status = 101 := by
  decide +kernel

/-! ### Non-vacuity -/

/-- A header set with mixed case, a second `Connection` line, extra tokens,
empty elements, OWS and a versioned extra protocol satisfies `legalLists` and
`rfcHandshake`, and is answered 101 (so `handshake_iff_rfc` is used on both
sides of the iff). -/
example :
    let hdrs : Headers :=
      [ (hConnection, [107, 101, 101, 112, 45, 97, 108, 105, 118, 101, 32, 44, 44, 9]),  -- "keep-alive ,,\t"
        (hUpgrade, [104, 50, 99, 47, 49, 44, 32, 87, 69, 66, 115, 111, 99, 107, 101, 116]),  -- "h2c/1, WEBsocket"
        (hConnection, [9, 117, 80, 71, 82, 65, 68, 69]),  -- "\tuPGRADE"
        (hVersion, v13), (hKey, [65, 66]) ]
    legalLists hdrs = true ∧ rfcHandshake hdrs = true ∧ (respond hdrs).status = 101 := by
  decide +kernel

/-- … and a legal header set with a missing element (`Upgrade: h2c`) is refused. -/
example :
    let hdrs : Headers :=
      [(hConnection, tUpgrade), (hUpgrade, [104, 50, 99]), (hVersion, v13), (hKey, [65, 66])]
    legalLists hdrs = true ∧ rfcHandshake hdrs = false ∧ (respond hdrs).status = 400 := by
  decide +kernel

/-- Non-vacuity of `http10_is_400`: the same complete header set is 101 over
HTTP/1.1 and 400 over HTTP/1.0. -/
example : (respondReq true d5Tab).status = 101 ∧ (respondReq false d5Tab).status = 400 := by
  decide +kernel

/-- `missing_any_400` applied to a complete handshake: it was 101 before the removal. -/
example : (respond d5Tab).status = 101 ∧ (respond (remove hKey d5Tab)).status = 400 := by
  decide +kernel

end Dropshot.C20
