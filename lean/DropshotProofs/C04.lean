/-
C04 — unmatched requests get 404 or 405 with a truthful Allow header.

Property theorems only; same model and invariants as C01 (`C01.WF`,
`Node.NoExactBesideWild` = the K1 exclusion).  The `Allow` computation is the
repaired one (defect D3): only methods with a handler for the request's
version are listed; `allow_asIs_fails` keeps the regression witness.
-/
import DropshotProofs.C01

namespace Dropshot.C04
open Dropshot

variable {V : Type} [LinearOrder V]

/-- The method list of the node the walk ends in, filtered by version, is
exactly the set of methods for which this path is served at this version. -/
theorem allowed_iff (t : Node V) (hw : C01.WF t) (hK : t.NoExactBesideWild) (p : List String)
    (v : V) (n' : Node V) (vars' : Vars) (hwalk : t.walk p [] = some (n', vars')) (m' : String) :
    m' ∈ allowedMethods n'.methods (some v) ↔
      ∃ e ∈ t.abs, normMethod e.method = m' ∧ (matchT e.path p).isSome ∧ Range.Mem v e.versions := by
  have hok := Node.walk_methodsOK t p [] n' _ hw.methods hwalk
  simp only [allowedMethods, List.mem_map, List.mem_filter]
  constructor
  · rintro ⟨q, ⟨hq, hf⟩, rfl⟩
    cases hfe : findHandler q.2 (some v) with
    | none => simp [hfe] at hf
    | some h =>
      have hmem := List.mem_of_find?_eq_some hfe
      have hmatch : h.versions.matches (some v) = true := by simpa using List.find?_some hfe
      have hst : h ∈ n'.stored := by
        simp only [Node.stored, List.mem_flatMap]; exact ⟨q, hq, hmem⟩
      obtain ⟨h1, h2⟩ := C01.walk_stored t hw.addr p n' vars' hwalk h hst
      exact ⟨h, h1, (hok.2 q hq).1 h hmem, by simp [h2], (C05.matches_iff_mem _ _).1 hmatch⟩
  · rintro ⟨e, he, rfl, hm, hv⟩
    cases hmt : matchT e.path p with
    | none => simp [hmt] at hm
    | some vs =>
      obtain ⟨n'', hw2, hst⟩ := C01.walk_reaches t hw hK p e vs he hmt
      rw [hwalk] at hw2
      simp only [Option.some.injEq, Prod.mk.injEq] at hw2
      obtain ⟨rfl, -⟩ := hw2
      simp only [Node.stored, List.mem_flatMap] at hst
      obtain ⟨q, hq, heq⟩ := hst
      refine ⟨q, ⟨hq, ?_⟩, ((hok.2 q hq).1 e heq).symm⟩
      cases hfe : findHandler q.2 (some v) with
      | some _ => rfl
      | none =>
        have := List.find?_eq_none.1 hfe e heq
        simp [(C05.matches_iff_mem _ _).2 hv] at this

theorem allowed_sorted (ms : List (String × List (Endpoint V))) (v : Option V)
    (hk : (ms.map (·.1)).Pairwise (· < ·)) : (allowedMethods ms v).Pairwise (· < ·) := by
  unfold allowedMethods
  exact hk.sublist ((List.filter_sublist).map _)

/-- **C04, 404 (partial: outside K1).**  `lookup_route` answers 404 exactly when
no registered endpoint, under any method, serves this path at this version. -/
theorem not_found_iff_partial (t : Node V) (hw : C01.WF t) (hK : t.NoExactBesideWild)
    (m : String) (p : List String) (v : V) :
    t.lookup m p (some v) = .error .notFound ↔
      ∀ e ∈ t.abs, ¬ ((matchT e.path p).isSome ∧ Range.Mem v e.versions) := by
  constructor
  · intro h e he ⟨hm, hv⟩
    cases hmt : matchT e.path p with
    | none => simp [hmt] at hm
    | some vs =>
      obtain ⟨n', hwalk, -⟩ := C01.walk_reaches t hw hK p e vs he hmt
      unfold Node.lookup at h
      simp only [hwalk] at h
      split at h
      · cases h
      · split at h
        · rename_i hemp
          have : normMethod e.method ∈ allowedMethods n'.methods (some v) :=
            (allowed_iff t hw hK p v n' vs hwalk _).2 ⟨e, he, rfl, by simp [hmt], hv⟩
          simp only [List.isEmpty_iff] at hemp
          rw [hemp] at this; cases this
        · cases h
  · intro h
    unfold Node.lookup
    cases hwalk : t.walk p [] with
    | none => rfl
    | some r =>
      obtain ⟨n', vars'⟩ := r
      simp only
      have hnone : allowedMethods n'.methods (some v) = [] := by
        cases hal : allowedMethods n'.methods (some v) with
        | nil => rfl
        | cons m' rest =>
          obtain ⟨e, he, -, h2, h3⟩ := (allowed_iff t hw hK p v n' vars' hwalk m').1 (by simp [hal])
          exact absurd ⟨h2, h3⟩ (h e he)
      cases hf : findHandler (handlersFor n'.methods (normMethod m)) (some v) with
      | some e' =>
        exfalso
        have hmem := List.mem_of_find?_eq_some hf
        have hmatch : e'.versions.matches (some v) = true := by simpa using List.find?_some hf
        obtain ⟨q, hq, -, hq2⟩ := handlersFor_mem_stored _ _ _ hmem
        have hst : e' ∈ n'.stored := by
          simp only [Node.stored, List.mem_flatMap]; exact ⟨q, hq, hq2⟩
        obtain ⟨h1, h2⟩ := C01.walk_stored t hw.addr p n' vars' hwalk e' hst
        exact h e' h1 ⟨by simp [h2], (C05.matches_iff_mem _ _).1 hmatch⟩
      | none => simp [hnone]

/-- **C04, 405 and its Allow header (partial: outside K1).**  When
`lookup_route` answers 405, no endpoint registered for the request's method
serves this path at this version, the Allow list is non-empty, strictly
sorted (no repeats), and lists exactly the methods for which the path is
served at this version. -/
theorem method_not_allowed_partial (t : Node V) (hw : C01.WF t) (hK : t.NoExactBesideWild)
    (m : String) (p : List String) (v : V) (allow : List String)
    (h : t.lookup m p (some v) = .error (.methodNotAllowed allow)) :
    (∀ e ∈ t.abs, normMethod e.method = normMethod m →
        ¬ ((matchT e.path p).isSome ∧ Range.Mem v e.versions)) ∧
    allow ≠ [] ∧ allow.Pairwise (· < ·) ∧
    ∀ m', m' ∈ allow ↔
      ∃ e ∈ t.abs, normMethod e.method = m' ∧ (matchT e.path p).isSome ∧ Range.Mem v e.versions := by
  have hno : ∀ e ∈ t.abs, normMethod e.method = normMethod m →
      ¬ ((matchT e.path p).isSome ∧ Range.Mem v e.versions) := by
    intro e he hm ⟨h1, h2⟩
    cases hmt : matchT e.path p with
    | none => simp [hmt] at h1
    | some vs =>
      rw [C01.lookup_complete_partial t hw hK m p v e vs he hm hmt h2] at h
      cases h
  unfold Node.lookup at h
  cases hwalk : t.walk p [] with
  | none => simp [hwalk] at h
  | some r =>
    obtain ⟨n', vars'⟩ := r
    simp only [hwalk] at h
    split at h
    · cases h
    · split at h
      · cases h
      · rename_i hemp
        simp only [Except.error.injEq, LookupErr.methodNotAllowed.injEq] at h
        subst h
        have hok := Node.walk_methodsOK t p [] n' _ hw.methods hwalk
        refine ⟨hno, ?_, allowed_sorted _ _ hok.1, fun m' => allowed_iff t hw hK p v n' vars' hwalk m'⟩
        intro hnil; rw [hnil] at hemp; simp at hemp

/-- **C04, totality.**  A lookup has exactly three outcomes; with
`C01.lookup_ok_iff_partial` and the two theorems above each is characterised
by the registered set alone, so 405 arises exactly when the path is served at
this version for some other method only. -/
theorem lookup_trichotomy (t : Node V) (m : String) (p : List String) (v : Option V) :
    (∃ e vars, t.lookup m p v = .ok (e, vars)) ∨ t.lookup m p v = .error .notFound ∨
      ∃ allow, t.lookup m p v = .error (.methodNotAllowed allow) := by
  unfold Node.lookup
  split
  · exact Or.inr (Or.inl rfl)
  · split
    · exact Or.inl ⟨_, _, rfl⟩
    · simp only
      split
      · exact Or.inr (Or.inl rfl)
      · exact Or.inr (Or.inr ⟨_, rfl⟩)

/-- 405 exactly when some other method serves the path at this version (partial: outside K1). -/
theorem method_not_allowed_iff_partial (t : Node V) (hw : C01.WF t) (hK : t.NoExactBesideWild)
    (m : String) (p : List String) (v : V) :
    (∃ allow, t.lookup m p (some v) = .error (.methodNotAllowed allow)) ↔
      (∀ e ∈ t.abs, normMethod e.method = normMethod m →
          ¬ ((matchT e.path p).isSome ∧ Range.Mem v e.versions)) ∧
      ∃ e ∈ t.abs, (matchT e.path p).isSome ∧ Range.Mem v e.versions := by
  constructor
  · rintro ⟨allow, h⟩
    obtain ⟨h1, h2, -, h4⟩ := method_not_allowed_partial t hw hK m p v allow h
    refine ⟨h1, ?_⟩
    cases allow with
    | nil => exact absurd rfl h2
    | cons m' rest =>
      obtain ⟨e, he, -, h5, h6⟩ := (h4 m').1 (by simp)
      exact ⟨e, he, h5, h6⟩
  · rintro ⟨h1, e, he, h2, h3⟩
    rcases lookup_trichotomy t m p (some v) with ⟨e', vars, h⟩ | h | h
    · obtain ⟨a, b, c, d⟩ := (C01.lookup_ok_iff_partial t hw hK m p v e' vars).1 h
      exact absurd ⟨by simp [c], d⟩ (h1 e' a b)
    · exact absurd ⟨h2, h3⟩ ((not_found_iff_partial t hw hK m p v).1 h e he)
    · exact h

/-- Neither error outcome carries a handler: an error result is not a dispatch. -/
theorem error_invokes_nothing (t : Node V) (m : String) (p : List String) (v : Option V)
    (err : LookupErr) (h : t.lookup m p v = .error err) :
    ¬ ∃ e vars, t.lookup m p v = .ok (e, vars) := by
  rintro ⟨e, vars, h'⟩; rw [h] at h'; cases h'

/-! ### Defect D3 (regression witness) and non-vacuity -/

def d3Table : List (Endpoint Nat) :=
  [ { id := 0, method := "GET", path := [.lit "m"], versions := .until 2 },
    { id := 1, method := "PUT", path := [.lit "m"], versions := .from 2 },
    { id := 2, method := "DELETE", path := [.lit "m"], versions := .all } ]

def allowOf (r : Except LookupErr (Endpoint Nat × Vars)) : Option (List String) :=
  match r with
  | .error (.methodNotAllowed a) => some a
  | _ => none

/-- Before the repair the Allow header named PUT although `PUT /m` is not
served at version 1; the repaired computation lists DELETE and GET only. -/
theorem allow_asIs_fails :
    allowOf ((C01.tableOf d3Table).lookupAsIs "POST" ["m"] (some 1)) = some ["DELETE", "GET", "PUT"] ∧
    allowOf ((C01.tableOf d3Table).lookup "POST" ["m"] (some 1)) = some ["DELETE", "GET"] := by
  decide

example : C01.accepted d3Table = true ∧ (∀ e ∈ d3Table, Range.WF e.versions) := by decide

end Dropshot.C04
