/-
C12 — typed responses are serialised faithfully with their declared status.

Property theorems only.  Model: DropshotModel/Response.lean (coded response
kinds, `for_object`, `HttpResponseHeaders::to_result`, redirect
constructors), DropshotModel/HeaderMap.lean (`insert` / `extend`).
Lemmas: DropshotProofs/Lemmas/Response.lean, Lemmas/HeaderMap.lean.

JSON: no verified JSON model is assumed.  The serialised body is an input of
the model; the round-trip clause is stated for an arbitrary codec `(ser, de)`
with the explicit hypothesis `∀ v, de (ser v) = some v` (`json_body_roundtrip`).
-/
import DropshotModel.Response
import DropshotProofs.Lemmas.Response

namespace Dropshot.C12
open Dropshot Dropshot.Error Dropshot.Response Dropshot.HMap

/-! ### Status -/

/-- The table of declared status codes. -/
theorem status_table :
    Kind.ok.status = 200 ∧ Kind.created.status = 201 ∧ Kind.accepted.status = 202 ∧
    Kind.deleted.status = 204 ∧ Kind.updatedNoContent.status = 204 ∧
    Kind.found.status = 302 ∧ Kind.seeOther.status = 303 ∧ Kind.temporaryRedirect.status = 307 :=
  ⟨rfl, rfl, rfl, rfl, rfl, rfl, rfl, rfl⟩

/-- **C12 (status).**  Whatever the value, the declared and the explicit
headers, a response that is sent carries the status its type declares. -/
theorem status_declared (t : Typed) (r : Response) (h : toResult t = .ok r) :
    r.status = t.kind.status := by
  obtain ⟨r0, dm, hs, h0, -, -, rfl⟩ := toResult_ok t r h
  exact (base_ok _ _ _ h0).1

/-! ### Body -/

/-- **C12 (JSON body).**  For 200/201/202 the body is exactly the serialisation
of the returned value. -/
theorem json_body (t : Typed) (r : Response) (h : toResult t = .ok r) (hb : t.kind.hasBody = true) :
    t.body = some r.body := by
  obtain ⟨r0, dm, hs, h0, -, -, rfl⟩ := toResult_ok t r h
  obtain ⟨b, h1, h2, -⟩ := (base_ok _ _ _ h0).2.1 hb
  simp [h1, h2]

/-- **C12 (round trip), for any codec with the stated round-trip property**:
the body parses back to exactly the returned value. -/
theorem json_body_roundtrip {α : Type} (ser : α → Str) (de : Str → Option α)
    (hcodec : ∀ v, de (ser v) = some v)
    (k : Kind) (v : α) (declared : List (Str × Option Str)) (explicit : List (Str × Str))
    (r : Response) (hb : k.hasBody = true)
    (h : toResult { kind := k, body := some (ser v), declared, explicit } = .ok r) :
    de r.body = some v := by
  have := json_body _ r h hb
  simp only [Option.some.injEq] at this
  rw [← this]
  exact hcodec v

/-- **C12 (empty body)** for 204 and the redirects. -/
theorem empty_body (t : Typed) (r : Response) (h : toResult t = .ok r) (hb : t.kind.hasBody = false) :
    r.body = [] := by
  obtain ⟨r0, dm, hs, h0, -, -, rfl⟩ := toResult_ok t r h
  exact ((base_ok _ _ _ h0).2.2 hb).1

/-- A value that cannot be serialised is an internal error, not a response. -/
theorem unserialisable_refused (t : Typed) (hb : t.kind.hasBody = true) (hn : t.body = none) :
    toResult t = .error internalError := by
  simp [toResult, base, hb, hn]

/-! ### Headers -/

/-- **C12 (explicit headers override).**  A name present among the explicitly
added headers shows exactly the explicit values, in order — whatever was
declared under that name, and whatever the framework set (content type). -/
theorem explicit_overrides (t : Typed) (r : Response) (h : toResult t = .ok r) (n : Str)
    (hn : contains n t.explicit = true) :
    getAll n r.headers = getAll n t.explicit := by
  obtain ⟨r0, dm, hs, -, -, -, rfl⟩ := toResult_ok t r h
  simp [getAll_extend, hn]

/-- **C12 (declared headers are sent, and kept unless overridden).**  If the
declared names are distinct (ignoring case), every declared header whose name
is not also added explicitly arrives with exactly its one given value. -/
theorem declared_kept (t : Typed) (r : Response) (h : toResult t = .ok r)
    (hnd : (t.declared.map fun f => lowerName f.1).Nodup)
    (k v : Str) (hm : (k, some v) ∈ t.declared)
    (hx : contains (lowerName k) t.explicit = false) :
    getAll (lowerName k) r.headers = [v] := by
  obtain ⟨r0, dm, hs, h0, hdm, hhs, rfl⟩ := toResult_ok t r h
  have hkeys : (t.declared.map (·.1)).Nodup := by
    have : (t.declared.map fun f => lowerName f.1) = (t.declared.map (·.1)).map lowerName := by
      simp [List.map_map]
    rw [this] at hnd
    exact nodup_of_nodup_map lowerName _ hnd
  have hin : (k, v) ∈ dm := toMapAux_complete t.declared [] dm hdm hkeys k v hm
  simp only [getAll_extend, hx, Bool.false_eq_true, if_false]
  rw [getAll_applyDeclared (lowerName k) r0.headers dm hs hhs]
  cases hl : lastMatch (lowerName k) dm with
  | none => exact absurd hl (lastMatch_ne_none _ dm k v hin rfl)
  | some w =>
    obtain ⟨k', hk', hlow⟩ := lastMatch_some _ dm w hl
    have hf : (k', some w) ∈ t.declared := by
      rcases toMapAux_sound t.declared [] dm hdm k' w hk' with h1 | h1
      · cases h1
      · exact h1
    have := eq_of_nodup_map (fun f : Str × Option Str => lowerName f.1) t.declared hnd
      (k', some w) (k, some v) hf hm hlow
    simp only [Prod.mk.injEq, Option.some.injEq] at this
    simp [this.2]

/-- **C12 (declared headers are sent)**: the case without explicit headers. -/
theorem declared_headers_sent (t : Typed) (r : Response) (h : toResult t = .ok r)
    (hnd : (t.declared.map fun f => lowerName f.1).Nodup) (he : t.explicit = [])
    (k v : Str) (hm : (k, some v) ∈ t.declared) :
    getAll (lowerName k) r.headers = [v] :=
  declared_kept t r h hnd k v hm (by simp [he, contains])

/-- Names that are neither declared nor explicit keep what the framework set:
the JSON content type for 200/201/202, nothing otherwise. -/
theorem other_names_untouched (t : Typed) (r : Response) (h : toResult t = .ok r) (n : Str)
    (hd : ∀ f ∈ t.declared, lowerName f.1 ≠ n) (hx : contains n t.explicit = false) :
    getAll n r.headers =
      if t.kind.hasBody = true ∧ n = hContentType then [ctJson] else [] := by
  obtain ⟨r0, dm, hs, h0, hdm, hhs, rfl⟩ := toResult_ok t r h
  simp only [getAll_extend, hx, Bool.false_eq_true, if_false]
  rw [getAll_applyDeclared n r0.headers dm hs hhs]
  cases hl : lastMatch n dm with
  | some w =>
    obtain ⟨k', hk', hlow⟩ := lastMatch_some _ dm w hl
    rcases toMapAux_sound t.declared [] dm hdm k' w hk' with h1 | h1
    · cases h1
    · exact absurd hlow (hd _ h1)
  | none =>
    by_cases hb : t.kind.hasBody = true
    · obtain ⟨b, -, -, h3⟩ := (base_ok _ _ _ h0).2.1 hb
      simp only [h3, getAll_cons, getAll_nil, hb, true_and]
      by_cases hn : n = hContentType
      · simp [hn]
      · have : ¬ hContentType = n := fun e => hn e.symm
        simp [hn, this]
    · have hb' : t.kind.hasBody = false := by simpa using hb
      simp [((base_ok _ _ _ h0).2.2 hb').2, hb]

/-- **C12 (content type).**  200/201/202 carry `content-type: application/json`
unless the handler itself declares or adds a content-type header. -/
theorem content_type_json (t : Typed) (r : Response) (h : toResult t = .ok r)
    (hb : t.kind.hasBody = true)
    (hd : ∀ f ∈ t.declared, lowerName f.1 ≠ hContentType)
    (hx : contains hContentType t.explicit = false) :
    getAll hContentType r.headers = [ctJson] := by
  rw [other_names_untouched t r h hContentType hd hx]
  simp [hb]

/-- A plain `HttpResponseOk(v)` etc. (no header wrapper) is `for_object`. -/
theorem plain_is_base (k : Kind) (body : Option Str) :
    toResult { kind := k, body := body, declared := [], explicit := [] } = base k body := by
  unfold toResult
  cases hb : base k body with
  | error e => rfl
  | ok r => simp [toMap, toMapAux, applyDeclared, extend, firstNames]

/-- When is a response refused?  Exactly when the value cannot be serialised,
a declared header is not a string, or a declared name / value is not a legal
header name / value.  Every refusal is the same internal error (500). -/
theorem refused_iff (t : Typed) :
    (∃ e, toResult t = .error e) ↔
      (t.kind.hasBody = true ∧ t.body = none) ∨ (∃ k, (k, none) ∈ t.declared) ∨
      (∃ dm, toMap t.declared = some dm ∧
        ∃ p ∈ dm, ¬ (validHeaderName p.1 = true ∧ validHeaderValue p.2 = true)) := by
  constructor
  · rintro ⟨e, he⟩
    unfold toResult at he
    split at he
    · rename_i e' hb
      left
      unfold base at hb
      split at hb
      · rename_i hh
        split at hb
        · exact ⟨hh, by assumption⟩
        · cases hb
      · cases hb
    · split at he
      · rename_i hdm
        exact Or.inr (Or.inl ((toMapAux_none_iff t.declared []).1 hdm))
      · rename_i dm hdm
        split at he
        · rename_i e' had
          exact Or.inr (Or.inr ⟨dm, hdm, applyDeclared_error_bad _ _ _ had⟩)
        · cases he
  · rintro (⟨h1, h2⟩ | ⟨k, hk⟩ | ⟨dm, hdm, p, hp, hbad⟩)
    · exact ⟨_, unserialisable_refused t h1 h2⟩
    · have hnone : toMap t.declared = none := (toMapAux_none_iff t.declared []).2 ⟨k, hk⟩
      unfold toResult
      cases hb : base t.kind t.body with
      | error e => exact ⟨e, rfl⟩
      | ok r0 => simp [hnone]
    · unfold toResult
      cases hb : base t.kind t.body with
      | error e => exact ⟨e, rfl⟩
      | ok r0 =>
        simp only [hdm]
        cases had : applyDeclared r0.headers dm with
        | error e => exact ⟨e, rfl⟩
        | ok hs =>
          exact absurd ((applyDeclared_ok_iff r0.headers dm).1 ⟨hs, had⟩ p hp) hbad

theorem refused_is_500 (t : Typed) (e : HttpError) (h : toResult t = .error e) :
    e = internalError ∧ e.status.code = 500 := by
  have : e = internalError := by
    unfold toResult at h
    split at h
    · rename_i e' hb
      cases h
      unfold base at hb
      split at hb
      · split at hb
        · cases hb; rfl
        · cases hb
      · cases hb
    · split at h
      · cases h; rfl
      · split at h
        · rename_i e' had
          cases h
          exact applyDeclared_error _ _ _ had
        · cases h
  exact ⟨this, this ▸ rfl⟩

/-! ### Redirects -/

/-- What "a legal header value" means (`HeaderValue::from_str`): every byte is
HTAB or in 32..=255 except DEL. -/
theorem validHeaderValue_iff (v : Str) :
    validHeaderValue v = true ↔ ∀ b ∈ v, b = 9 ∨ (32 ≤ b ∧ b ≠ 127) := by
  simp [validHeaderValue, validValueByte]

/-- **C12 (redirects carry the given Location).**  For a legal location the
constructor succeeds and the response has the declared 30x status, an empty
body, no content type and exactly `location: loc`. -/
theorem redirect_location (k : Kind) (hk : k.isRedirect = true) (loc : Str)
    (hv : validHeaderValue loc = true) :
    ∃ t r, redirect k loc = .ok t ∧ toResult t = .ok r ∧ r.status = k.status ∧
      r.body = [] ∧ getAll hLocation r.headers = [loc] ∧ getAll hContentType r.headers = [] := by
  have hname : validHeaderName hLocation = true := by decide
  have hlow : lowerName hLocation = hLocation := by decide
  have hne : hContentType ≠ hLocation := by decide
  cases k <;> simp [Kind.isRedirect] at hk <;>
    simp [redirect, hv, toResult, base, Kind.hasBody, Kind.status, toMap, toMapAux, btInsert,
      applyDeclared, hname, hlow, extend, firstNames, getAll_insert, hne]

/-- **C12 (an illegal location is refused instead of being sent).**  The
constructor returns the internal error (500); no response value exists. -/
theorem bad_location_refused (k : Kind) (loc : Str) (hv : validHeaderValue loc = false) :
    redirect k loc = .error internalError ∧ internalError.status.code = 500 := by
  simp [redirect, hv, internalError, forInternalError]

/-- A redirect whose handler also adds an explicit `location` sends the explicit one. -/
theorem redirect_explicit_overrides (k : Kind) (loc : Str) (explicit : List (Str × Str))
    (r : Response) (hx : contains hLocation explicit = true)
    (h : toResult { kind := k, body := none, declared := [(hLocation, some loc)], explicit } = .ok r) :
    getAll hLocation r.headers = getAll hLocation explicit :=
  explicit_overrides _ r h hLocation hx

/-! ### Non-vacuity -/

example : validHeaderValue [47, 97, 9, 195, 169] = true ∧ validHeaderValue [97, 10, 98] = false ∧
    validHeaderValue [127] = false := by decide

example : toResult ⟨.ok, some [49], [([88, 45, 65], some [49])],
      [([120, 45, 97], [50]), ([120, 45, 97], [51])]⟩ =
    .ok ⟨200, [(hContentType, ctJson), ([120, 45, 97], [50]), ([120, 45, 97], [51])], [49]⟩ := by
  simp [toResult, base, Kind.hasBody, Kind.status, toMap, toMapAux, btInsert, applyDeclared,
    validHeaderName, validNameByte, validHeaderValue, validValueByte, lowerName, extend, firstNames,
    extendGroup, HMap.insert, HMap.remove, HMap.append, getAll, hContentType]

end Dropshot.C12
