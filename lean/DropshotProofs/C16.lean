/-
C16 — client disconnects affect handlers exactly as the task mode promises.

Property theorems only.  Model: DropshotModel/Lifecycle.lean (the LTS written
from `http_request_handle`, server.rs 890-989).  All theorems quantify over
every trace the monitor accepts (`run m init tr = some s`), of any length, any
number of connections and requests, any interleaving.  Helper lemmas:
DropshotProofs/Lemmas/Lifecycle.lean.

Partial: the theorems are about the LTS.  Which interleavings occur, and *when*
hyper notices that a client left, is decided by tokio / hyper / the kernel; the
correspondence run validates every real trace against the monitor and checks
"is cancelled" as "eventually, within a deadline".
-/
import DropshotModel.Lifecycle
import DropshotProofs.Lemmas.Lifecycle
import DropshotModel.Config

namespace Dropshot.C16
open Dropshot.Lifecycle

variable {m : Mode} {tr : List Event} {s s' : State} {r r' c c' : Nat}

/-! ### Detached mode: a started handler always runs to completion, exactly once -/

/-- In detached mode no handler future is ever dropped, whatever the clients do. -/
theorem detached_never_dropped (h : run .detached init tr = some s) (r : Nat) :
    Event.drop r ∉ tr := by
  intro hd
  have := ((inv_of_run h).dropOwn r hd).1
  cases this

/-- **Detached clause.**  In every accepted detached-mode trace that has come
to rest for `r` (its handler is no longer running), a handler that started and
did not itself panic has `Done` exactly once and is never dropped — wherever
`Disconnect` events occur in the trace. -/
theorem detached_runs_to_completion (h : run .detached init tr = some s)
    (hs : Event.start r ∈ tr) (hq : (s.req r).h ≠ .running) (hp : Event.panic r ∉ tr) :
    tr.count (Event.done r) = 1 ∧ Event.drop r ∉ tr := by
  have I := inv_of_run h
  have hd := detached_never_dropped h r
  refine ⟨?_, hd⟩
  have h1 := I.notStarted r
  have h2 := I.completed r
  have h3 := I.cancelled r
  have h4 := I.panicked r
  have h5 := I.cDone r
  have : Event.done r ∈ tr := by
    cases hh : (s.req r).h <;> simp_all
  have := List.count_pos_iff.2 this
  omega

/-- "Whenever the client disconnects": a `Disconnect` leaves every request
record untouched, so for every request `Tick`/`Done` are enabled after it
exactly when they were before, and `Drop` stays disabled. -/
theorem detached_disconnect_irrelevant (h : step .detached s (.disconnect c) = some s') (r : Nat) :
    s'.req r = s.req r ∧
    (step .detached s' (.tick r)).isSome = (step .detached s (.tick r)).isSome ∧
    (step .detached s' (.done r)).isSome = (step .detached s (.done r)).isSome ∧
    step .detached s' (.drop r) = none := by
  simp only [step] at h
  split at h
  · cases h
    refine ⟨rfl, ?_, ?_, ?_⟩ <;> simp only [step] <;> (try split) <;> simp
  · cases h

/-! ### Cancel-on-disconnect mode -/

/-- After `Drop r` the handler makes no further progress: no `Tick`, `Done`,
`Start`, `Panic` or second `Drop` of `r` later in any accepted trace. -/
theorem no_progress_after_drop {a b : List Event}
    (h : run m init (a ++ Event.drop r :: b) = some s) :
    Event.tick r ∉ b ∧ Event.done r ∉ b ∧ Event.start r ∉ b ∧ Event.panic r ∉ b ∧
      Event.drop r ∉ b ∧ (s.req r).h = .cancelled := by
  obtain ⟨s1, -, h2⟩ := run_prefix h
  simp only [run] at h2
  cases hs : step m s1 (Event.drop r) with
  | none => simp [hs] at h2
  | some s2 =>
    simp only [hs] at h2
    have hc : (s2.req r).h = .cancelled := by
      simp only [step] at hs
      split at hs
      · split at hs
        · cases hs; simp [finish]
        · cases hs
      · cases hs
    have := terminal_absorbing (r := r) (by rw [hc]; rfl) h2
    grind

/-- **Cancel clause.**  Cancel mode; after `pre` the handler of `r` (sent on
connection `c`) is running; then the client of `c` disconnects.  If the trace
comes to rest for `r` without `Done r` (the handler was not released) and
without a panic of `r`, then `r` was cancelled (`Drop r` occurs after the
disconnect) and nothing of `r` happens after the `Drop`. -/
theorem cancel_on_disconnect {pre post : List Event} {s0 : State}
    (h0 : run .cancel init pre = some s0)
    (hrun : (s0.req r).h = .running)
    (h : run .cancel s0 (Event.disconnect c :: post) = some s)
    (hq : (s.req r).h ≠ .running) (hd : Event.done r ∉ post) (hp : Event.panic r ∉ post) :
    Event.drop r ∈ post ∧
    ∀ a b, post = a ++ Event.drop r :: b →
      Event.tick r ∉ b ∧ Event.done r ∉ b ∧ Event.start r ∉ b := by
  have hall : run .cancel init (pre ++ Event.disconnect c :: post) = some s := by
    rw [run_append, h0]; exact h
  have I0 := inv_of_run h0
  have I := inv_of_run hall
  have e0 : Event.done r ∉ pre := fun x => by
    have := (I0.completed r).2 x; rw [hrun] at this; cases this
  have e1 : Event.panic r ∉ pre := fun x => by
    have := (I0.panicked r).2 x; rw [hrun] at this; cases this
  have e2 : Event.drop r ∉ pre := fun x => by
    have := (I0.cancelled r).2 x; rw [hrun] at this; cases this
  have e3 : Event.start r ∈ pre := by
    have := (I0.notStarted r); rw [hrun] at this
    exact Classical.byContradiction fun x => by simpa using this.2 x
  have hdrop : Event.drop r ∈ post := by
    have h1 := I.notStarted r
    have h2 := I.completed r
    have h3 := I.cancelled r
    have h4 := I.panicked r
    simp only [List.mem_append, List.mem_cons, reduceCtorEq, false_or] at h1 h2 h3 h4
    cases hh : (s.req r).h <;> simp_all
  refine ⟨hdrop, ?_⟩
  intro a b hab
  subst hab
  have : run .cancel init ((pre ++ Event.disconnect c :: a) ++ Event.drop r :: b) = some s := by
    simpa using hall
  have := no_progress_after_drop this
  exact ⟨this.1, this.2.1, this.2.2.1⟩

/-- A handler future is dropped only in cancel mode and only after the client
of *its own* connection disconnected: `Drop r` is preceded by `ReqSent c r` and
`Disconnect c` for the same `c`. -/
theorem drop_needs_own_disconnect {a b : List Event}
    (h : run m init (a ++ Event.drop r :: b) = some s) :
    m = .cancel ∧ ∃ c, Event.reqSent c r ∈ a ∧ Event.disconnect c ∈ a := by
  have h' : run m init ((a ++ [Event.drop r]) ++ b) = some s := by simpa using h
  obtain ⟨s1, h1, -⟩ := run_prefix h'
  have I := inv_of_run h1
  obtain ⟨hm, c, hc, hg⟩ := I.dropOwn r (by simp)
  refine ⟨hm, c, ?_, ?_⟩
  · simpa using (I.conn r c).1 hc
  · simpa using (I.gone c).1 hg

/-! ### Handlers of clients that stay connected are unaffected -/

/-- A disconnect of connection `c` changes nothing but `c`'s own client-side
flag: every request record, every other connection's flags are the same. -/
theorem others_unaffected (h : step m s (.disconnect c) = some s') :
    (∀ r, s'.req r = s.req r) ∧ (∀ c', c' ≠ c → s'.gone c' = s.gone c') ∧
      s'.dead = s.dead ∧ s'.busy = s.busy := by
  simp only [step] at h
  split at h
  · cases h; simp; grind
  · cases h

/-- Hence for a request `r'` on another connection `c' ≠ c`, `Tick`, `Done`,
`RespDelivered` (and `Drop`) are enabled after the disconnect exactly when
they were enabled before it. -/
theorem others_stay_enabled (h : step m s (.disconnect c) = some s')
    (hc : (s.req r').conn = some c') (hne : c' ≠ c) :
    (step m s' (.tick r')).isSome = (step m s (.tick r')).isSome ∧
    (step m s' (.done r')).isSome = (step m s (.done r')).isSome ∧
    (step m s' (.respDelivered r')).isSome = (step m s (.respDelivered r')).isSome ∧
    (step m s' (.drop r')).isSome = (step m s (.drop r')).isSome := by
  simp only [step] at h
  split at h
  · cases h
    refine ⟨?_, ?_, ?_, ?_⟩ <;> cases m <;> simp only [step, hc, upd_apply, hne, if_false] <;>
      (try split) <;> simp
  · cases h

/-- **Others clause.**  In either mode: a started handler whose client never
disconnected and which did not itself panic is never dropped; once the trace
has come to rest for it, it completed exactly once, and unless its connection
was unwound by a panic of an earlier request on it, its response has been
delivered or `RespDelivered` is enabled. -/
theorem connected_handlers_complete (h : run m init tr = some s)
    (hs : Event.start r ∈ tr) (hc : Event.reqSent c r ∈ tr)
    (hn : Event.disconnect c ∉ tr) (hp : Event.panic r ∉ tr)
    (hq : (s.req r).h ≠ .running) :
    tr.count (Event.done r) = 1 ∧ Event.drop r ∉ tr ∧
    (s.dead c = false → (s.req r).delivered = false →
      (step m s (.respDelivered r)).isSome = true) := by
  have I := inv_of_run h
  have hconn : (s.req r).conn = some c := (I.conn r c).2 hc
  have hgone : s.gone c = false := by
    cases hg : s.gone c
    · rfl
    · exact absurd ((I.gone c).1 hg) hn
  have hnd : Event.drop r ∉ tr := by
    intro hd
    obtain ⟨-, c2, h2, h3⟩ := I.dropOwn r hd
    rw [hconn] at h2; cases h2
    rw [hgone] at h3; cases h3
  have h1 := I.notStarted r
  have h2 := I.completed r
  have h3 := I.cancelled r
  have h4 := I.panicked r
  have h5 := I.cDone r
  have hcomp : (s.req r).h = .completed := by
    cases hh : (s.req r).h <;> simp_all
  have hdone : Event.done r ∈ tr := h2.1 hcomp
  have := List.count_pos_iff.2 hdone
  refine ⟨by omega, hnd, ?_⟩
  intro hdead hdel
  simp [step, hconn, hcomp, hdel, hgone, hdead]

/-! ### Exactly one end -/

/-- **Exactly-one-end clause.**  In every accepted trace a request has at most
one of `Done`, `Drop`, `Panic`, at most once; each only after its one `Start`;
and once the trace has come to rest for a started handler, exactly one. -/
theorem exactly_one_end (h : run m init tr = some s) (r : Nat) :
    tr.count (Event.done r) + tr.count (Event.drop r) + tr.count (Event.panic r) ≤ 1 ∧
    tr.count (Event.start r) ≤ 1 ∧
    (Event.done r ∈ tr ∨ Event.drop r ∈ tr ∨ Event.panic r ∈ tr → Event.start r ∈ tr) ∧
    (Event.start r ∈ tr → (s.req r).h ≠ .running →
      tr.count (Event.done r) + tr.count (Event.drop r) + tr.count (Event.panic r) = 1) := by
  have I := inv_of_run h
  have h1 := I.notStarted r
  have h2 := I.completed r
  have h3 := I.cancelled r
  have h4 := I.panicked r
  have c2 := I.cDone r
  have c3 := I.cDrop r
  have c4 := I.cPanic r
  have z2 : Event.done r ∉ tr → tr.count (Event.done r) = 0 := List.count_eq_zero.2
  have z3 : Event.drop r ∉ tr → tr.count (Event.drop r) = 0 := List.count_eq_zero.2
  have z4 : Event.panic r ∉ tr → tr.count (Event.panic r) = 0 := List.count_eq_zero.2
  have p2 : Event.done r ∈ tr → 0 < tr.count (Event.done r) := List.count_pos_iff.2
  have p3 : Event.drop r ∈ tr → 0 < tr.count (Event.drop r) := List.count_pos_iff.2
  have p4 : Event.panic r ∈ tr → 0 < tr.count (Event.panic r) := List.count_pos_iff.2
  refine ⟨?_, I.cStart r, ?_, ?_⟩
  · cases hh : (s.req r).h <;> grind
  · cases hh : (s.req r).h <;> grind
  · intro hs hq
    cases hh : (s.req r).h <;> grind

/-- A handler never both completes and is cancelled. -/
theorem not_done_and_dropped (h : run m init tr = some s) (r : Nat) :
    ¬ (Event.done r ∈ tr ∧ Event.drop r ∈ tr) := by
  rintro ⟨h1, h2⟩
  have I := inv_of_run h
  have a := (I.completed r).2 h1
  have b := (I.cancelled r).2 h2
  rw [a] at b; cases b

/-! ### A panic fails only its own request -/

/-- **Panic clause (frame).**  `Panic r` changes the record of `r` and the
server-side state of `r`'s own connection, nothing else: every other request
record, every client flag, every other connection are untouched. -/
theorem panic_isolated (h : step m s (.panic r) = some s') :
    (∀ r', r' ≠ r → s'.req r' = s.req r') ∧ s'.gone = s.gone ∧
    (∀ c', (s.req r).conn ≠ some c' → s'.dead c' = s.dead c' ∧ s'.busy c' = s.busy c') ∧
    (s'.req r).h = .panicked := by
  simp only [step] at h
  split at h
  · rename_i c hc
    split at h
    · cases h
      simp [finish, clearBusy, hc]
      grind
    · cases h
  · cases h

/-- **Panic clause (the server keeps serving).**  After *any* accepted history
(panics, disconnects, cancellations included), a request `r'` not yet used, sent
on a connection whose client is connected, whose task was not unwound and which
is not busy, is started, runs, completes and is delivered. -/
theorem serves_after (h : run m init tr = some s)
    (hr : ∀ c, Event.reqSent c r' ∉ tr)
    (hg : s.gone c' = false) (hd : s.dead c' = false) (hb : s.busy c' = none) :
    (run m s [.reqSent c' r', .start r', .tick r', .done r', .respDelivered r']).isSome = true := by
  have I := inv_of_run h
  have hconn : (s.req r').conn = none := by
    cases hh : (s.req r').conn with
    | none => rfl
    | some c => exact absurd ((I.conn r' c).1 hh) (hr c)
  have hns : (s.req r').h = .notStarted :=
    Classical.byContradiction fun x => I.startedSent r' x hconn
  have hdel : (s.req r').delivered = false := by
    cases hh : (s.req r').delivered with
    | false => rfl
    | true => have := I.deliveredDone r' hh; rw [hns] at this; cases this
  simp [run, step, finish, clearBusy, hconn, hg, hd, hb, hns, hdel]

/-- A connection and a request that do not occur in the trace are fresh, so
`serves_after` always applies to a new connection: faults and panics elsewhere
cannot use it up. -/
theorem fresh_of_unmentioned (h : run m init tr = some s)
    (hc : ∀ r, Event.reqSent c' r ∉ tr) (hdc : Event.disconnect c' ∉ tr) :
    s.gone c' = false ∧ s.dead c' = false ∧ s.busy c' = none := by
  have I := inv_of_run h
  refine ⟨?_, ?_, ?_⟩
  · cases hg : s.gone c' with
    | false => rfl
    | true => exact absurd ((I.gone c').1 hg) hdc
  · cases hd : s.dead c' with
    | false => rfl
    | true =>
      obtain ⟨r, h1, -⟩ := I.deadWhy c' hd
      exact absurd ((I.conn r c').1 h1) (hc r)
  · cases hb : s.busy c' with
    | none => rfl
    | some r => exact absurd ((I.conn r c').1 (I.busyWhy c' r hb)) (hc r)

/-! ### Non-vacuity: concrete accepted traces with several requests -/

/-- Detached: three connections; client 1 disconnects while its handler waits,
the handler still runs to completion; client 2 is served; request 30 panics. -/
def exDetached : List Event :=
  [.reqSent 1 10, .reqSent 2 20, .start 10, .tick 10, .start 20, .reqSent 3 30, .start 30,
   .disconnect 1, .panic 30, .tick 20, .done 20, .respDelivered 20, .tick 10, .done 10,
   .reqSent 2 21, .start 21, .done 21, .respDelivered 21]

example : acceptsQuiescent .detached exDetached = true := by decide
example : Event.start 10 ∈ exDetached ∧ Event.panic 10 ∉ exDetached ∧
    exDetached.count (Event.done 10) = 1 := by decide

/-- Cancel mode: client 1 disconnects while handler 10 waits and is cancelled;
client 2 stays and is served twice on its keep-alive connection. -/
def exCancel : List Event :=
  [.reqSent 1 10, .reqSent 2 20, .start 20, .start 10, .tick 10, .tick 20, .disconnect 1,
   .tick 10, .drop 10, .done 20, .respDelivered 20, .reqSent 2 21, .start 21, .tick 21,
   .done 21, .respDelivered 21]

example : acceptsQuiescent .cancel exCancel = true := by decide
/-- the hypotheses of `cancel_on_disconnect` hold of `exCancel` split at `Disconnect 1` -/
example : ∃ s0 s, run .cancel init (exCancel.take 6) = some s0 ∧ (s0.req 10).h = .running ∧
    run .cancel s0 (exCancel.drop 6) = some s ∧ (s.req 10).h ≠ .running ∧
    Event.done 10 ∉ (exCancel.drop 7) ∧ Event.panic 10 ∉ (exCancel.drop 7) := by
  refine ⟨_, _, rfl, by decide, rfl, by decide, by decide, by decide⟩

/-- The monitor has teeth: a dropped handler in detached mode, progress after
a drop, a drop although the own client is still connected (only another client
left), a second end, are all rejected. -/
example : accepts .detached [.reqSent 1 10, .start 10, .disconnect 1, .drop 10] = false := by decide
example : accepts .cancel [.reqSent 1 10, .start 10, .disconnect 1, .drop 10, .tick 10] = false := by
  decide
example : accepts .cancel [.reqSent 1 10, .reqSent 2 20, .start 10, .start 20, .disconnect 1,
    .drop 20] = false := by decide
example : accepts .cancel [.reqSent 1 10, .start 10, .done 10, .disconnect 1, .drop 10] = false := by
  decide

/-! ### The task mode in force is the one the configuration says

Deployments read `ConfigDropshot` from a file; the mode a handler runs under is
whatever that reading yields (`DropshotModel/Config.lean`; tied to /repo by the
`cf` / `cs` lines of the C16 stream and by every other server of the lifecycle
harnesses being configured from a serialised configuration). -/

section Config
open Dropshot.Config Dropshot.Schema

theorem readStrings_map (hs : List String) : readStrings (hs.map J.str) = some hs := by
  induction hs with
  | nil => rfl
  | cons h t ih => simp [readStrings, ih]

theorem readMode_modeName (m : Lifecycle.Mode) : readMode (.str (modeName m)) = some m := by
  cases m <;> decide

/-- **Round trip.**  A configuration written out and read back is the same
configuration - in particular the same task mode - whatever its values (a body
limit that fits `usize`, an address `SocketAddr` prints and reads back). -/
theorem config_roundtrip (validAddr : String → Bool) (c : Cfg)
    (ha : validAddr c.bind = true) (hm : c.maxBytes ≤ usizeMax) :
    parse validAddr (serialize c) = some c := by
  have h1 : (0 : Int) ≤ (c.maxBytes : Int) ∧ (c.maxBytes : Int).toNat ≤ usizeMax := by
    constructor
    · exact Int.natCast_nonneg _
    · simpa using hm
  obtain ⟨b, mb, m, hs⟩ := c
  simp only at ha hm h1
  simp [parse, serialize, readKeys, readKey, ha, hm, h1, readMode_modeName, readStrings_map]

/-- A configuration that names a mode gets that mode; one that does not gets
`Detached` (the documented default) - never the other one. -/
theorem config_mode_in_force (validAddr : String → Bool) (m : Lifecycle.Mode) :
    (parse validAddr (.obj [("default_handler_task_mode", .str (modeName m))])).map (·.mode) = some m ∧
    (parse validAddr (.obj [])).map (·.mode) = some .detached := by
  cases m <;> simp [parse, readKeys, readKey, readMode, modeOfName, modeName, Cfg.default]

/-- The retired key is refused, wherever it stands and whatever its value. -/
theorem config_old_key_refused (validAddr : String → Bool) (pre post : List (String × J)) (v : J) :
    parse validAddr (.obj (pre ++ ("request_body_max_bytes", v) :: post)) = none := by
  have key : ∀ (pre : List (String × J)) (p : Partial),
      readKeys validAddr p (pre ++ ("request_body_max_bytes", v) :: post) = none := by
    intro pre
    induction pre with
    | nil => intro p; simp [readKeys, readKey]
    | cons kv rest ih =>
      intro p
      obtain ⟨k, w⟩ := kv
      simp only [List.cons_append, readKeys]
      cases readKey validAddr p k w with
      | none => rfl
      | some p' => exact ih p'
  simp [parse, key pre {}]

end Config

end Dropshot.C16
