/-
C06 — the OpenAPI document for version v lists exactly what is served at v.

Property theorems only.  Model: `Node.iter` (DropshotModel/Router.lean) is
`HttpRouter::endpoints(version)`, the loop `gen_openapi` runs; `docOps` adds
the visibility filter of that loop.  `$ref` closure is validated on every
generated document by the correspondence run (it is a contract of schemars'
generator, see notes/C06.md), not proved.
-/
import DropshotProofs.C02
import DropshotProofs.Lemmas.RouterOrder
import DropshotProofs.Lemmas.DocRefs

namespace Dropshot.C06
open Dropshot

/-- The operations `gen_openapi` emits for version `v`: (path, method, endpoint). -/
def docOps {V : Type} [LE V] [LT V] [DecidableLE V] [DecidableLT V] [DecidableEq V]
    (t : Node V) (v : V) : List (String × String × Endpoint V) :=
  (t.iter (some v)).filter fun x => x.2.2.visible

variable {V : Type} [LinearOrder V]

/-- **C06, exactness.**  For every accepted table and every version, the
document has an operation for exactly the published endpoints whose range
contains the version, under the endpoint's own path template and method. -/
theorem doc_exact (es : List (Endpoint V)) (t : Node V)
    (hr : ∀ e ∈ es, Range.WF e.versions) (h : insertAll Node.empty es = .ok t) (v : V)
    (x : String × String × Endpoint V) :
    x ∈ docOps t v ↔
      ∃ e ∈ es, e.visible = true ∧ Range.Mem v e.versions ∧
        x = (renderPath e.path, normMethod e.method, e) := by
  obtain ⟨w, a⟩ := C01.accepted_wf es t hr h
  simp only [docOps, Node.iter, List.mem_filter, List.mem_map]
  constructor
  · rintro ⟨⟨⟨addr, e⟩, ⟨hall, hm⟩, rfl⟩, hvis⟩
    have haddr := w.addr _ hall
    simp only at haddr hm hvis
    subst haddr
    refine ⟨e, (a e).1 ((C01.mem_abs_iff t e).2 ⟨_, hall⟩), hvis, (C05.matches_iff_mem _ _).1 hm, rfl⟩
  · rintro ⟨e, he, hvis, hv, rfl⟩
    obtain ⟨addr, hall⟩ := (C01.mem_abs_iff t e).1 ((a e).2 he)
    have haddr := w.addr _ hall
    simp only at haddr
    subst haddr
    exact ⟨⟨(e.path, e), ⟨hall, (C05.matches_iff_mem _ _).2 hv⟩, rfl⟩, hvis⟩

/-- **C06, order independence (as a set of operations).**  Two accepted
registration orders of the same endpoints document the same operations at
every version (see `doc_list_order_independent` for the sequence). -/
theorem doc_order_independent (es es' : List (Endpoint V)) (t t' : Node V)
    (hperm : ∀ x, x ∈ es ↔ x ∈ es') (hr : ∀ e ∈ es, Range.WF e.versions)
    (h : insertAll Node.empty es = .ok t) (h' : insertAll Node.empty es' = .ok t') (v : V)
    (x : String × String × Endpoint V) : x ∈ docOps t v ↔ x ∈ docOps t' v := by
  rw [doc_exact es t hr h, doc_exact es' t' (fun e he => hr e ((hperm e).2 he)) h']
  constructor <;> rintro ⟨e, he, rest⟩
  · exact ⟨e, (hperm e).1 he, rest⟩
  · exact ⟨e, (hperm e).2 he, rest⟩

/-- **C06, order independence of the operation *sequence*.**  Two accepted
registration orders of the same endpoints produce, at every version, the same
list of operations in the same order (so the document's path and operation
order does not depend on registration order). -/
theorem doc_list_order_independent (es es' : List (Endpoint V)) (t t' : Node V)
    (hperm : ∀ x, x ∈ es ↔ x ∈ es') (hr : ∀ e ∈ es, Range.WF e.versions)
    (h : insertAll Node.empty es = .ok t) (h' : insertAll Node.empty es' = .ok t') (v : V) :
    docOps t v = docOps t' v := by
  obtain ⟨w, a⟩ := C01.accepted_wf es t hr h
  obtain ⟨w', a'⟩ := C01.accepted_wf es' t' (fun e he => hr e ((hperm e).2 he)) h'
  have key : ((Node.all t []).filter fun p => p.2.versions.matches (some v)) =
      ((Node.all t' []).filter fun p => p.2.versions.matches (some v)) := by
    refine eq_of_sorted_same_members keyLt keyLt_irrefl keyLt_asymm _ _
      (filtered_sorted t w v) (filtered_sorted t' w' v) (fun x => ?_)
    simp only [List.mem_filter]
    have hmem : x ∈ Node.all t [] ↔ x ∈ Node.all t' [] := by
      obtain ⟨addr, e⟩ := x
      constructor
      · intro hx
        have hadr := w.addr _ hx
        simp only at hadr; subst hadr
        have he : e ∈ t'.abs := (a' e).2 ((hperm e).1 ((a e).1 ((C01.mem_abs_iff t e).2 ⟨_, hx⟩)))
        obtain ⟨addr', hx'⟩ := (C01.mem_abs_iff t' e).1 he
        have := w'.addr _ hx'
        simp only at this; subst this; exact hx'
      · intro hx
        have hadr := w'.addr _ hx
        simp only at hadr; subst hadr
        have he : e ∈ t.abs := (a e).2 ((hperm e).2 ((a' e).1 ((C01.mem_abs_iff t' e).2 ⟨_, hx⟩)))
        obtain ⟨addr', hx'⟩ := (C01.mem_abs_iff t e).1 he
        have := w.addr _ hx'
        simp only at this; subst this; exact hx'
    rw [hmem]
  simp only [docOps, Node.iter, key]

/-- **C06, unpublished endpoints are omitted.** -/
theorem unpublished_omitted (t : Node V) (v : V) (x : String × String × Endpoint V)
    (hx : x ∈ docOps t v) : x.2.2.visible = true := by
  simp only [docOps, List.mem_filter] at hx
  exact hx.2

/-- **C06, … yet still served (partial: outside K1).**  Dispatch never looks at
the `visible` flag: an unpublished endpoint of an accepted table is reached by
its witness request like any other. -/
theorem unpublished_still_served_partial (es : List (Endpoint V)) (t : Node V)
    (hr : ∀ e ∈ es, Range.WF e.versions) (h : insertAll Node.empty es = .ok t)
    (hK : t.NoExactBesideWild) (e : Endpoint V) (he : e ∈ es) (_hvis : e.visible = false)
    (v : V) (hv : Range.Mem v e.versions) :
    ∃ vars, t.lookup e.method (C02.witnessPath e.path) (some v) = .ok (e, vars) :=
  C02.accepted_reachable_partial es t hr h hK e he v hv

/-- **C06, the document and the router agree (partial: outside K1).**  Every
documented operation is served: the witness request for its template, with its
method, at that version, is dispatched to the documented endpoint. -/
theorem doc_served_agree_partial (es : List (Endpoint V)) (t : Node V)
    (hr : ∀ e ∈ es, Range.WF e.versions) (h : insertAll Node.empty es = .ok t)
    (hK : t.NoExactBesideWild) (v : V) (x : String × String × Endpoint V) (hx : x ∈ docOps t v) :
    ∃ vars, t.lookup x.2.2.method (C02.witnessPath x.2.2.path) (some v) = .ok (x.2.2, vars) := by
  obtain ⟨e, he, -, hv, rfl⟩ := (doc_exact es t hr h v x).1 hx
  exact C02.accepted_reachable_partial es t hr h hK e he v hv

/-- **C06, determinism.**  The operation list is a function of the table and
the version (the model has no hidden state); generating twice gives the same list. -/
theorem doc_deterministic (t : Node V) (v : V) : docOps t v = docOps t v := rfl

/-- At most one operation per (path template, method): two documented
endpoints with the same template and method are the same endpoint. -/
theorem doc_one_per_path_method (es : List (Endpoint V)) (t : Node V)
    (hr : ∀ e ∈ es, Range.WF e.versions) (h : insertAll Node.empty es = .ok t)
    (hK : t.NoExactBesideWild) (v : V) (x y : String × String × Endpoint V)
    (hx : x ∈ docOps t v) (hy : y ∈ docOps t v)
    (hp : x.2.2.path = y.2.2.path) (hm : normMethod x.2.2.method = normMethod y.2.2.method) :
    x.2.2 = y.2.2 := by
  obtain ⟨e1, he1, -, hv1, rfl⟩ := (doc_exact es t hr h v x).1 hx
  obtain ⟨e2, he2, -, hv2, rfl⟩ := (doc_exact es t hr h v y).1 hy
  simp only at hp hm ⊢
  have hwl := C02.accepted_wildLast es Node.empty t h e1 he1
  have hm1 := C02.matchT_witness e1.path hwl
  exact C02.accepted_unambiguous_partial es t hr h hK e1.method (C02.witnessPath e1.path) v e1 e2
    ⟨he1, rfl, hm1, hv1⟩ ⟨he2, hm.symm, by rw [← hp]; exact hm1, hv2⟩

/-! ### The document's tag list

`gen_openapi` also emits a top-level list of tags: the configured ones plus
every tag found on an endpoint it iterates at version `v` (collected into a
set, then sorted by name).  `tagsOf` is the endpoints' tag assignment.  After
the repair (commit "fix: tags used only by unpublished endpoints …") only the
published endpoints contribute; `docEndpointTagsAsIs` is the code before it. -/

/-- Tags contributed by endpoints to the document for `v` (before de-duplication and sorting). -/
def docEndpointTags {V : Type} [LE V] [LT V] [DecidableLE V] [DecidableLT V] [DecidableEq V]
    (tagsOf : Endpoint V → List String) (configured : List String) (t : Node V) (v : V) : List String :=
  ((docOps t v).flatMap fun x => tagsOf x.2.2).filter fun g => !configured.contains g

def docEndpointTagsAsIs {V : Type} [LE V] [LT V] [DecidableLE V] [DecidableLT V] [DecidableEq V]
    (tagsOf : Endpoint V → List String) (configured : List String) (t : Node V) (v : V) : List String :=
  ((t.iter (some v)).flatMap fun x => tagsOf x.2.2).filter fun g => !configured.contains g

/-- **C06, the tag list is exact.**  A (non-configured) tag is listed in the document for `v`
iff it is written on a published endpoint whose range contains `v` - i.e. on an operation the
document shows; nothing is listed on behalf of unpublished endpoints or of other versions. -/
theorem doc_tags_exact (es : List (Endpoint V)) (t : Node V)
    (hr : ∀ e ∈ es, Range.WF e.versions) (h : insertAll Node.empty es = .ok t) (v : V)
    (tagsOf : Endpoint V → List String) (configured : List String) (g : String) :
    g ∈ docEndpointTags tagsOf configured t v ↔
      g ∉ configured ∧ ∃ e ∈ es, e.visible = true ∧ Range.Mem v e.versions ∧ g ∈ tagsOf e := by
  simp only [docEndpointTags, List.mem_filter, List.mem_flatMap, Bool.not_eq_true',
    List.contains_eq_mem, decide_eq_false_iff_not]
  constructor
  · rintro ⟨⟨x, hx, hg⟩, hc⟩
    obtain ⟨e, he, hvis, hv, rfl⟩ := (doc_exact es t hr h v x).1 hx
    exact ⟨hc, e, he, hvis, hv, hg⟩
  · rintro ⟨hc, e, he, hvis, hv, hg⟩
    exact ⟨⟨_, (doc_exact es t hr h v _).2 ⟨e, he, hvis, hv, rfl⟩, hg⟩, hc⟩

/-- The tag list, like the operation list, does not depend on the registration order. -/
theorem doc_tags_order_independent (es es' : List (Endpoint V)) (t t' : Node V)
    (hperm : ∀ x, x ∈ es ↔ x ∈ es') (hr : ∀ e ∈ es, Range.WF e.versions)
    (h : insertAll Node.empty es = .ok t) (h' : insertAll Node.empty es' = .ok t') (v : V)
    (tagsOf : Endpoint V → List String) (configured : List String) :
    docEndpointTags tagsOf configured t v = docEndpointTags tagsOf configured t' v := by
  simp only [docEndpointTags, doc_list_order_independent es es' t t' hperm hr h h' v]

/-! ### References resolve inside the document

Model `DropshotModel/DocRefs.lean`: each endpoint contributes the references that occur
inline in its operation and a set of named definitions; `components.schemas` is their union
(insert or replace by name).  The hypothesis - each contribution is closed - is the contract
of schemars' generator and of `ReferenceVisitor`, which the Lean model does not contain; the
`refs` stream checks the conclusion on every generated document instead. -/

/-- **C06, references.**  If whatever an endpoint's operation or one of its definitions refers
to is among that endpoint's definitions, then every `#/components/schemas/…` reference of the
assembled document resolves inside it - for every set of endpoints, in every order, also when
two endpoints define the same name. -/
theorem refs_closed (cs : List DocRefs.Contribution) (h : ∀ c ∈ cs, c.closed) :
    ∀ r ∈ DocRefs.docRefs cs, r ∈ (DocRefs.components cs).map (·.name) :=
  DocRefs.refs_closed cs h

/-- … and `components.schemas` holds exactly the contributed names: nothing else is defined. -/
theorem components_exact (cs : List DocRefs.Contribution) (n : String) :
    n ∈ (DocRefs.components cs).map (·.name) ↔ ∃ c ∈ cs, n ∈ c.names :=
  DocRefs.components_names cs n

/-- Non-vacuity: two endpoints, a shared name (`Error`) and a nested reference. -/
example :
    let cs : List DocRefs.Contribution :=
      [{ inline := ["Disk", "Error"], defs := [⟨"Disk", ["State"]⟩, ⟨"State", []⟩, ⟨"Error", []⟩] },
       { inline := ["Error"], defs := [⟨"Error", []⟩] }]
    (DocRefs.components cs).map (·.name) = ["Disk", "State", "Error"] ∧
      DocRefs.docRefs cs = ["Disk", "Error", "Error", "State"] := by decide

/-- … and those contributions satisfy the hypothesis of `refs_closed`. -/
example :
    let cs : List DocRefs.Contribution :=
      [{ inline := ["Disk", "Error"], defs := [⟨"Disk", ["State"]⟩, ⟨"State", []⟩, ⟨"Error", []⟩] },
       { inline := ["Error"], defs := [⟨"Error", []⟩] }]
    ∀ c ∈ cs, c.closed := by
  simp [DocRefs.Contribution.closed, DocRefs.Contribution.names]

/-! ### Non-vacuity -/

/-- Regression witness for the repaired defect: before the repair the tag of an unpublished
endpoint (`hidden`, on the unpublished `GET /h`) was listed although no operation carries it. -/
theorem tags_asIs_leaks_unpublished :
    let es : List (Endpoint Nat) :=
      [⟨0, "GET", [.lit "h"], .all, false⟩, ⟨1, "GET", [.lit "p"], .all, true⟩]
    let tagsOf : Endpoint Nat → List String := fun e => if e.id = 0 then ["hidden"] else ["pub"]
    docEndpointTagsAsIs tagsOf [] (C01.tableOf es) 1 = ["hidden", "pub"] ∧
      docEndpointTags tagsOf [] (C01.tableOf es) 1 = ["pub"] := by
  decide

example : (docOps (C01.tableOf C01.sampleTable) 1).map (fun x => (x.1, x.2.1, x.2.2.id)) =
    [("/", "DELETE", 4), ("/a/{x}", "GET", 0), ("/a/{x}/b/{y}", "PUT", 2), ("/f/{rest}", "GET", 3)] := by
  decide

end Dropshot.C06
