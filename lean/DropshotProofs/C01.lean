/-
C01 — every request is dispatched to the one endpoint registered for it.

Property theorems only.  Model: DropshotModel/Router.lean (the trie exactly as
router.rs builds it).  Helper lemmas: DropshotProofs/Lemmas/Router{Walk,Insert,Inv}.lean.
`t.abs` is the flat list of stored endpoints; `matchT` is the five-equation
template matcher a reader checks against the property text.

The unchanged code violates the property when an exact route and a wildcard
child meet at one node (finding K1: `C01_full_fails`); the completeness and
uniqueness theorems are therefore `…_partial` with the explicit hypothesis
`t.NoExactBesideWild`.  Soundness ("handled by no other endpoint than one
whose template matches") holds without it.
-/
import DropshotProofs.Lemmas.RouterInv
import DropshotProofs.C05
import DropshotProofs.C03
import DropshotModel.Dispatch

namespace Dropshot.C01
open Dropshot

variable {V : Type} [LinearOrder V]

/-- Every stored endpoint sits at the node addressed by its own template. -/
def Addr (t : Node V) : Prop := ∀ x ∈ Node.all t [], x.1 = x.2.path

theorem mem_abs_iff (t : Node V) (e : Endpoint V) : e ∈ t.abs ↔ ∃ a, (a, e) ∈ Node.all t [] := by
  simp [Node.abs]

theorem pairwise_pick {α : Type} (R : α → α → Prop) (hsymm : ∀ a b, R a b → R b a) (l : List α)
    (h : l.Pairwise R) (a b : α) (ha : a ∈ l) (hb : b ∈ l) : a = b ∨ R a b := by
  induction l with
  | nil => cases ha
  | cons x xs ih =>
    simp only [List.pairwise_cons] at h
    rcases List.mem_cons.1 ha with rfl | ha' <;> rcases List.mem_cons.1 hb with rfl | hb'
    · exact Or.inl rfl
    · exact Or.inr (h.1 b hb')
    · exact Or.inr (hsymm _ _ (h.1 a ha'))
    · exact ih h.2 ha' hb'

/-- **C01, "handled by no other".**  Whatever `lookup_route` returns is a
registered endpoint whose method, template and version range match the
request, with exactly the bindings the template prescribes.  Needs no
K1 hypothesis. -/
theorem lookup_sound (t : Node V) (hM : t.MethodsWF) (hA : Addr t)
    (m : String) (p : List String) (v : Option V) (e : Endpoint V) (vars : Vars)
    (h : t.lookup m p v = .ok (e, vars)) :
    e ∈ t.abs ∧ normMethod e.method = normMethod m ∧ matchT e.path p = some vars ∧
      e.versions.matches v = true := by
  unfold Node.lookup at h
  split at h
  · cases h
  · rename_i n' vars' hw
    split at h
    · rename_i e' hf
      simp only [Except.ok.injEq, Prod.mk.injEq] at h
      obtain ⟨rfl, rfl⟩ := h
      obtain ⟨sfx, bs, h1, h2, h3⟩ := Node.walk_sound t [] p [] n' vars' hw
      simp only [List.nil_append] at h2 h3
      subst h2
      have hmem := List.mem_of_find?_eq_some hf
      have hmatch := List.find?_some hf
      obtain ⟨q, hq, hq1, hq2⟩ := handlersFor_mem_stored _ _ _ hmem
      have hst : e' ∈ n'.stored := by
        simp only [Node.stored, List.mem_flatMap]; exact ⟨q, hq, hq2⟩
      have hall := h3 e' hst
      have hok := Node.walk_methodsOK t p [] n' _ hM hw
      refine ⟨(mem_abs_iff t e').2 ⟨sfx, hall⟩, ?_, ?_, by simpa using hmatch⟩
      · rw [(hok.2 q hq).1 e' hq2, hq1]
      · have := hA _ hall
        simp only at this
        rw [← this]; exact h1
    · simp only at h; split at h <;> cases h


/-- Hypotheses that hold of every accepted table (see `accepted_wf`). -/
structure WF (t : Node V) : Prop where
  sorted : t.Sorted
  methods : t.MethodsWF
  addr : Addr t
  ranges : ∀ e ∈ t.abs, Range.WF e.versions

/-- The endpoints stored at the node a walk ends in are registered endpoints
whose template matches the path with the walk's bindings. -/
theorem walk_stored (t : Node V) (hA : Addr t) (p : List String) (n' : Node V) (vars' : Vars)
    (hw : t.walk p [] = some (n', vars')) (e : Endpoint V) (he : e ∈ n'.stored) :
    e ∈ t.abs ∧ matchT e.path p = some vars' := by
  obtain ⟨sfx, bs, h1, h2, h3⟩ := Node.walk_sound t [] p [] n' vars' hw
  simp only [List.nil_append] at h2 h3
  subst h2
  have hall := h3 e he
  have := hA _ hall
  simp only at this
  exact ⟨(mem_abs_iff t e).2 ⟨sfx, hall⟩, by rw [← this]; exact h1⟩

/-- A registered endpoint whose template matches is stored at the node the walk ends in. -/
theorem walk_reaches (t : Node V) (hw : WF t) (hK : t.NoExactBesideWild) (p : List String)
    (e : Endpoint V) (vars : Vars) (he : e ∈ t.abs) (hm : matchT e.path p = some vars) :
    ∃ n', t.walk p [] = some (n', vars) ∧ e ∈ n'.stored := by
  obtain ⟨a, ha⟩ := (mem_abs_iff t e).1 he
  have := hw.addr _ ha
  simp only at this
  subst this
  simpa using Node.walk_complete t e.path p [] vars e hw.sorted hK ha hm

/-- **C01, "handled by exactly that endpoint" (partial: outside finding K1).**
A registered endpoint whose method, template and version range match the
request is the one `lookup_route` returns, with the template's bindings. -/
theorem lookup_complete_partial (t : Node V) (hw : WF t) (hK : t.NoExactBesideWild)
    (m : String) (p : List String) (v : V) (e : Endpoint V) (vars : Vars)
    (he : e ∈ t.abs) (hm : normMethod e.method = normMethod m)
    (hp : matchT e.path p = some vars) (hv : Range.Mem v e.versions) :
    t.lookup m p (some v) = .ok (e, vars) := by
  obtain ⟨n', hwalk, hst⟩ := walk_reaches t hw hK p e vars he hp
  have hok := Node.walk_methodsOK t p [] n' _ hw.methods hwalk
  simp only [Node.stored, List.mem_flatMap] at hst
  obtain ⟨q, hq, heq⟩ := hst
  have hq1 : q.1 = normMethod m := by rw [← (hok.2 q hq).1 e heq, hm]
  have hfor : handlersFor n'.methods (normMethod m) = q.2 := by
    rw [← hq1]; exact handlersFor_of_mem _ q hok.1 hq
  unfold Node.lookup
  simp only [hwalk, hfor]
  have hmatch : e.versions.matches (some v) = true := (C05.matches_iff_mem _ _).2 hv
  cases hf : findHandler q.2 (some v) with
  | none =>
    have := List.find?_eq_none.1 hf e heq
    simp [hmatch] at this
  | some e' =>
    have hmem' := List.mem_of_find?_eq_some hf
    have hmatch' : e'.versions.matches (some v) = true := by simpa using List.find?_some hf
    have hst' : e' ∈ n'.stored := by
      simp only [Node.stored, List.mem_flatMap]; exact ⟨q, hq, hmem'⟩
    have he' := (walk_stored t hw.addr p n' vars hwalk e' hst').1
    have : e' = e := by
      rcases pairwise_pick _ (fun a b h => by rw [C05.overlaps_comm]; exact h) q.2 (hok.2 q hq).2 e' e hmem' heq with h | h
      · exact h
      · have := C05.overlaps_of_shared e'.versions e.versions (hw.ranges _ he') (hw.ranges _ he)
          ⟨v, (C05.matches_iff_mem _ _).1 hmatch', hv⟩
        rw [h] at this; cases this
    subst this
    rfl

/-- **C01, uniqueness (partial: outside K1).**  No request matches two registered endpoints. -/
theorem lookup_unique_partial (t : Node V) (hw : WF t) (hK : t.NoExactBesideWild)
    (m : String) (p : List String) (v : V) (e₁ e₂ : Endpoint V) (vars₁ vars₂ : Vars)
    (h₁ : e₁ ∈ t.abs ∧ normMethod e₁.method = normMethod m ∧ matchT e₁.path p = some vars₁ ∧ Range.Mem v e₁.versions)
    (h₂ : e₂ ∈ t.abs ∧ normMethod e₂.method = normMethod m ∧ matchT e₂.path p = some vars₂ ∧ Range.Mem v e₂.versions) :
    e₁ = e₂ ∧ vars₁ = vars₂ := by
  have a := lookup_complete_partial t hw hK m p v e₁ vars₁ h₁.1 h₁.2.1 h₁.2.2.1 h₁.2.2.2
  have b := lookup_complete_partial t hw hK m p v e₂ vars₂ h₂.1 h₂.2.1 h₂.2.2.1 h₂.2.2.2
  rw [a] at b
  simp only [Except.ok.injEq, Prod.mk.injEq] at b
  exact b

/-- **C01 (partial: outside K1), as one equivalence.** -/
theorem lookup_ok_iff_partial (t : Node V) (hw : WF t) (hK : t.NoExactBesideWild)
    (m : String) (p : List String) (v : V) (e : Endpoint V) (vars : Vars) :
    t.lookup m p (some v) = .ok (e, vars) ↔
      e ∈ t.abs ∧ normMethod e.method = normMethod m ∧ matchT e.path p = some vars ∧
        Range.Mem v e.versions := by
  constructor
  · intro h
    obtain ⟨h1, h2, h3, h4⟩ := lookup_sound t hw.methods hw.addr m p (some v) e vars h
    exact ⟨h1, h2, h3, (C05.matches_iff_mem _ _).1 h4⟩
  · rintro ⟨h1, h2, h3, h4⟩
    exact lookup_complete_partial t hw hK m p v e vars h1 h2 h3 h4

/-! ### Accepted tables -/

theorem wf_empty : WF (Node.empty : Node V) := by
  refine ⟨?_, ?_, ?_, ?_⟩
  · simp [Node.empty, Node.Sorted, Edges.Sorted]
  · simp [Node.empty, Node.MethodsWF, Edges.MethodsWF, MethodsOK]
  · intro x hx; simp [Node.empty, Node.all, Edges.all] at hx
  · intro e he; simp [Node.abs, Node.empty, Node.all, Edges.all] at he

theorem insert_wf (t t' : Node V) (e : Endpoint V) (hw : WF t) (hr : Range.WF e.versions)
    (h : t.insert e = .ok t') : WF t' ∧ ∀ x, x ∈ t'.abs ↔ x = e ∨ x ∈ t.abs := by
  unfold Node.insert at h
  have hall := fun x => Node.insertAt_all t e.path [] e t' [] x h
  have hwf := Node.insertAt_wf t e.path [] e t' hw.sorted hw.methods h
  have habs : ∀ x, x ∈ t'.abs ↔ x = e ∨ x ∈ t.abs := by
    intro x
    rw [mem_abs_iff, mem_abs_iff]
    constructor
    · rintro ⟨a, ha⟩
      rcases (hall (a, x)).1 ha with h1 | h1
      · simp only [List.nil_append, Prod.mk.injEq] at h1; exact Or.inl h1.2
      · exact Or.inr ⟨a, h1⟩
    · rintro (rfl | ⟨a, ha⟩)
      · exact ⟨x.path, (hall _).2 (Or.inl (by simp))⟩
      · exact ⟨a, (hall _).2 (Or.inr ha)⟩
  refine ⟨⟨hwf.1, hwf.2, ?_, ?_⟩, habs⟩
  · intro x hx
    rcases (hall x).1 hx with h1 | h1
    · subst h1; simp
    · exact hw.addr x h1
  · intro x hx
    rcases (habs x).1 hx with rfl | h1
    · exact hr
    · exact hw.ranges x h1

theorem insertAll_wf : ∀ (es : List (Endpoint V)) (t t' : Node V), WF t →
    (∀ e ∈ es, Range.WF e.versions) → insertAll t es = .ok t' →
    WF t' ∧ ∀ x, x ∈ t'.abs ↔ x ∈ es ∨ x ∈ t.abs
  | [], t, t', hw, _, h => by
    simp only [insertAll, Except.ok.injEq] at h; subst h; simp [hw]
  | e :: es, t, t', hw, hr, h => by
    simp only [insertAll] at h
    split at h
    · cases h
    · rename_i t1 h1
      obtain ⟨w1, a1⟩ := insert_wf t t1 e hw (hr e (by simp)) h1
      obtain ⟨w2, a2⟩ := insertAll_wf es t1 t' w1 (fun x hx => hr x (by simp [hx])) h
      refine ⟨w2, fun x => ?_⟩
      rw [a2, a1]; simp only [List.mem_cons]; grind

/-- **Every accepted table is well formed**, and stores exactly the registered
endpoints (so the theorems below speak about "any API that registration
accepted", in any registration order). -/
theorem accepted_wf (es : List (Endpoint V)) (t : Node V)
    (hr : ∀ e ∈ es, Range.WF e.versions) (h : insertAll Node.empty es = .ok t) :
    WF t ∧ ∀ x, x ∈ t.abs ↔ x ∈ es := by
  obtain ⟨w, a⟩ := insertAll_wf es Node.empty t wf_empty hr h
  refine ⟨w, fun x => ?_⟩
  rw [a]; simp [Node.abs, Node.empty, Node.all, Edges.all]

/-- **C01 for accepted tables (partial: outside K1).**  After any accepted
sequence of registrations, a request is dispatched to `e` with bindings `vars`
iff `e` is one of the registered endpoints, its method, template and version
range match, and `vars` are the template's bindings. -/
theorem dispatch_iff_partial (es : List (Endpoint V)) (t : Node V)
    (hr : ∀ e ∈ es, Range.WF e.versions) (h : insertAll Node.empty es = .ok t)
    (hK : t.NoExactBesideWild) (m : String) (p : List String) (v : V) (e : Endpoint V) (vars : Vars) :
    t.lookup m p (some v) = .ok (e, vars) ↔
      e ∈ es ∧ normMethod e.method = normMethod m ∧ matchT e.path p = some vars ∧
        Range.Mem v e.versions := by
  obtain ⟨w, a⟩ := accepted_wf es t hr h
  rw [lookup_ok_iff_partial t w hK, a]

/-- **C01, order independence (partial: outside K1).**  Two accepted
registration orders of the same endpoints dispatch every request identically. -/
theorem dispatch_order_independent_partial (es es' : List (Endpoint V)) (t t' : Node V)
    (hperm : ∀ x, x ∈ es ↔ x ∈ es') (hr : ∀ e ∈ es, Range.WF e.versions)
    (h : insertAll Node.empty es = .ok t) (h' : insertAll Node.empty es' = .ok t')
    (hK : t.NoExactBesideWild) (hK' : t'.NoExactBesideWild)
    (m : String) (p : List String) (v : V) (e : Endpoint V) (vars : Vars) :
    t.lookup m p (some v) = .ok (e, vars) ↔ t'.lookup m p (some v) = .ok (e, vars) := by
  rw [dispatch_iff_partial es t hr h hK, dispatch_iff_partial es' t' (fun e he => hr e ((hperm e).2 he)) h' hK', hperm]

/-- The handler a sound dispatch reaches was registered, whatever the table (no K1 hypothesis). -/
theorem dispatch_sound (es : List (Endpoint V)) (t : Node V)
    (hr : ∀ e ∈ es, Range.WF e.versions) (h : insertAll Node.empty es = .ok t)
    (m : String) (p : List String) (v : Option V) (e : Endpoint V) (vars : Vars)
    (hl : t.lookup m p v = .ok (e, vars)) :
    e ∈ es ∧ normMethod e.method = normMethod m ∧ matchT e.path p = some vars ∧
      e.versions.matches v = true := by
  obtain ⟨w, a⟩ := accepted_wf es t hr h
  obtain ⟨h1, h2⟩ := lookup_sound t w.methods w.addr m p v e vars hl
  exact ⟨(a e).1 h1, h2⟩


/-! ### Unversioned servers -/

theorem insertAllF_spec : ∀ (es : List (Endpoint V)) (t : Node V) (f : Bool) (t' : Node V) (f' : Bool),
    insertAllF t f es = .ok (t', f') →
      insertAll t es = .ok t' ∧ f' = (f || es.any fun e => !e.versions.isAll)
  | [], t, f, t', f', h => by
    simp only [insertAllF, Except.ok.injEq, Prod.mk.injEq] at h
    obtain ⟨rfl, rfl⟩ := h
    simp [insertAll]
  | e :: es, t, f, t', f', h => by
    simp only [insertAllF] at h
    split at h
    · cases h
    · rename_i t1 h1
      obtain ⟨a, b⟩ := insertAllF_spec es t1 _ t' f' h
      refine ⟨by simp [insertAll, h1, a], ?_⟩
      rw [b]; simp [Bool.or_assoc]

theorem isAll_iff (r : Range V) : r.isAll = true ↔ r = .all := by
  cases r <;> simp [Range.isAll]

/-- **C01, unversioned servers.**  A server without a version policy (which
routes every request without a version, so that every range matches) starts
iff the table is accepted and every endpoint is unrestricted - a condition on
the *set* of endpoints, not on the order in which they were registered. -/
theorem unversioned_server_starts_iff (es : List (Endpoint V)) :
    unversionedServerStarts es = some true ↔
      (∃ t, insertAll Node.empty es = .ok t) ∧ ∀ e ∈ es, e.versions = .all := by
  unfold unversionedServerStarts
  cases h : insertAllF Node.empty false es with
  | error err =>
    simp only [reduceCtorEq, false_iff, not_and]
    rintro ⟨t, ht⟩
    exfalso
    -- insertAllF fails exactly when insertAll fails
    have : ∀ (es : List (Endpoint V)) (t0 : Node V) (f : Bool) (err : RegErr),
        insertAllF t0 f es = .error err → insertAll t0 es = .error err := by
      intro es
      induction es with
      | nil => intro t0 f err h; simp [insertAllF] at h
      | cons e es ih =>
        intro t0 f err h
        simp only [insertAllF] at h
        simp only [insertAll]
        split at h
        · rename_i e1 h1; simp only [Except.error.injEq] at h; subst h; simp [h1]
        · rename_i t1 h1; exact ih t1 _ err h
    rw [this es Node.empty false err h] at ht; cases ht
  | ok r =>
    obtain ⟨t, f⟩ := r
    obtain ⟨a, b⟩ := insertAllF_spec es Node.empty false t f h
    simp only [Option.some.injEq, Bool.not_eq_true']
    rw [b]
    simp only [Bool.false_or, List.any_eq_false, Bool.not_eq_true']
    constructor
    · intro hall
      refine ⟨⟨t, a⟩, fun e he => (isAll_iff _).1 ?_⟩
      have := hall e he
      cases hh : e.versions.isAll <;> simp_all
    · rintro ⟨-, hall⟩ e he
      simp [(isAll_iff _).2 (hall e he)]


/-! ### The bindings a handler receives -/

/-- **C01, path variables.**  When a template matches a path: every literal
equals the segment at its position, every variable is bound to exactly the
segment at its position, a trailing wildcard is bound to the list of all
remaining segments (possibly empty), and there are no other bindings. -/
theorem vars_exact : ∀ (tpl : List Seg) (p : List String) (vars : Vars),
    matchT tpl p = some vars →
      (∀ (i : Nat) (s : String), tpl[i]? = some (Seg.lit s) → p[i]? = some s) ∧
      (∀ (i : Nat) (n : String), tpl[i]? = some (Seg.var n) → ∃ x, p[i]? = some x ∧ (n, VarVal.str x) ∈ vars) ∧
      (∀ (i : Nat) (n : String), tpl[i]? = some (Seg.wild n) → (n, VarVal.comps (p.drop i)) ∈ vars) ∧
      vars.map (·.1) = tpl.filterMap (fun s => match s with
        | .lit _ => none | .var n => some n | .wild n => some n)
  | [], p, vars, h => by
    rw [matchT_nil_left] at h
    split at h
    · simp only [Option.some.injEq] at h; subst h; simp
    · cases h
  | .lit k :: ps, [], vars, h => by rw [matchT_cons_nil] at h; cases ps <;> simp at h
  | .var n :: ps, [], vars, h => by rw [matchT_cons_nil] at h; cases ps <;> simp at h
  | .lit k :: ps, x :: xs, vars, h => by
    rw [matchT_lit_cons] at h
    split at h
    · rename_i hk; subst hk
      obtain ⟨a, b, c, d⟩ := vars_exact ps xs vars h
      refine ⟨?_, ?_, ?_, by simpa using d⟩
      · intro i s hi
        cases i with
        | zero => simp at hi; simp [hi]
        | succ j => simpa using a j s (by simpa using hi)
      · intro i m hi
        cases i with
        | zero => simp at hi
        | succ j => simpa using b j m (by simpa using hi)
      · intro i m hi
        cases i with
        | zero => simp at hi
        | succ j => simpa using c j m (by simpa using hi)
    · cases h
  | .var n :: ps, x :: xs, vars, h => by
    rw [matchT_var_cons] at h
    simp only [Option.map_eq_some_iff] at h
    obtain ⟨vs, hv, rfl⟩ := h
    obtain ⟨a, b, c, d⟩ := vars_exact ps xs vs hv
    refine ⟨?_, ?_, ?_, by simpa using d⟩
    · intro i s hi
      cases i with
      | zero => simp at hi
      | succ j => simpa using a j s (by simpa using hi)
    · intro i m hi
      cases i with
      | zero =>
        simp only [List.getElem?_cons_zero, Option.some.injEq, Seg.var.injEq] at hi; subst hi
        exact ⟨x, by simp, by simp⟩
      | succ j =>
        obtain ⟨y, hy1, hy2⟩ := b j m (by simpa using hi)
        exact ⟨y, by simpa using hy1, by simp [hy2]⟩
    · intro i m hi
      cases i with
      | zero => simp at hi
      | succ j => simpa using c j m (by simpa using hi)
  | .wild n :: ps, p, vars, h => by
    cases ps with
    | cons s r => rw [matchT_wild_cons] at h; cases h
    | nil =>
      rw [matchT_wild_last] at h
      simp only [Option.some.injEq] at h; subst h
      refine ⟨?_, ?_, ?_, by simp⟩
      · intro i s hi; cases i <;> simp at hi
      · intro i m hi; cases i <;> simp at hi
      · intro i m hi
        cases i with
        | zero => simp at hi; simp [hi]
        | succ j => simp at hi

/-! ### Finding K1: the full statement fails on the unchanged code -/

/-- Is the result "405 with exactly this Allow list"? (a Bool, so that concrete
instances are decided by kernel evaluation) -/
def is405 (r : Except LookupErr (Endpoint Nat × Vars)) (allow : List String) : Bool :=
  match r with
  | .error (.methodNotAllowed a) => a == allow
  | _ => false

def isHit (r : Except LookupErr (Endpoint Nat × Vars)) (id : Nat) (vars : Vars) : Bool :=
  match r with
  | .ok (e, vs) => e.id == id && vs == vars
  | _ => false

def tableOf (es : List (Endpoint Nat)) : Node Nat :=
  match insertAll Node.empty es with
  | .ok t => t
  | .error _ => Node.empty

def accepted (es : List (Endpoint Nat)) : Bool :=
  match insertAll Node.empty es with
  | .ok _ => true
  | .error _ => false

def k1Table : List (Endpoint Nat) :=
  [ { id := 0, method := "PUT", path := [.lit "a"], versions := .all },
    { id := 1, method := "GET", path := [.lit "a", .wild "r"], versions := .all } ]

/-- **K1 (negation witness).**  `PUT /a` is registered and accepted, the request
`PUT /a` matches it — and the router answers 405 `Allow: GET`, because the
lookup always steps into a wildcard child on the empty remainder. -/
theorem C01_full_fails :
    accepted k1Table = true ∧
      (∃ e ∈ k1Table, normMethod e.method = normMethod "PUT" ∧ (matchT e.path ["a"]).isSome ∧
        Range.Mem 1 e.versions) ∧
      is405 ((tableOf k1Table).lookup "PUT" ["a"] (some 1)) ["GET"] = true := by
  refine ⟨by decide, ?_, by decide⟩
  exact ⟨_, List.mem_cons_self, by decide, by decide, trivial⟩

/-! ### Non-vacuity: a table with literals, two variables, a wildcard and three
version ranges is accepted and lies outside the K1 region -/

def sampleTable : List (Endpoint Nat) :=
  [ { id := 0, method := "GET", path := [.lit "a", .var "x"], versions := .fromUntil 1 3 },
    { id := 1, method := "GET", path := [.lit "a", .var "x"], versions := .from 3 },
    { id := 2, method := "put", path := [.lit "a", .var "x", .lit "b", .var "y"], versions := .all },
    { id := 3, method := "GET", path := [.lit "f", .wild "rest"], versions := .until 2 },
    { id := 4, method := "DELETE", path := [], versions := .all } ]

example : accepted sampleTable = true ∧
    isHit ((tableOf sampleTable).lookup "GET" ["a", "q"] (some 3)) 1 [("x", .str "q")] = true ∧
    isHit ((tableOf sampleTable).lookup "PUT" ["a", "q", "b", "z"] (some 0)) 2 [("x", .str "q"), ("y", .str "z")] = true ∧
    isHit ((tableOf sampleTable).lookup "GET" ["f"] (some 1)) 3 [("rest", .comps [])] = true ∧
    is405 ((tableOf sampleTable).lookup "GET" ["f", "g", "h"] (some 2)) [] = false := by decide

example : ∀ e ∈ sampleTable, Range.WF e.versions := by decide

/-! ### The whole of `lookup_route`: request path bytes -> segments -> dispatch

`lookupRoute` composes the C03 path model with the trie walk.  What the trie
walk is given is a function of the percent-decoded non-empty raw segments of
the path and of nothing else about its spelling. -/

/-- **Dispatch, from the request path (partial: outside K1).**  A request is
handled by `e` with bindings `vars` iff its path is accepted and, on the
percent-decoded non-empty raw segments - each decoded once, segment boundaries
given by the raw `/` alone - `e` is a registered endpoint whose method, template
and version range match, `vars` being the template's bindings (a trailing
wildcard: all remaining decoded segments). -/
theorem route_dispatch_iff_partial (conv : Bytes → String) (es : List (Endpoint V)) (t : Node V)
    (hr : ∀ e ∈ es, Range.WF e.versions) (h : insertAll Node.empty es = .ok t)
    (hK : t.NoExactBesideWild) (m : String) (p : Bytes) (v : V) (e : Endpoint V) (vars : Vars) :
    lookupRoute conv t m p (some v) = .ok (e, vars) ↔
      (∃ ss, Path.inputSegments p = .ok ss) ∧ e ∈ es ∧ normMethod e.method = normMethod m ∧
        matchT e.path (((Path.rawSegments p).map Percent.pctDecode).map conv) = some vars ∧
        Range.Mem v e.versions := by
  unfold lookupRoute
  cases hp : Path.inputSegments p with
  | error err => simp
  | ok ss =>
    have hss := C03.decode_once p ss hp
    simp only [Except.ok.injEq, exists_eq', true_and]
    rw [← hss, ← dispatch_iff_partial es t hr h hK m (ss.map conv) v e vars]
    cases t.lookup m (ss.map conv) (some v) with
    | ok r => simp
    | error err => cases err <;> simp

/-- A path with a dot segment in any spelling, or a segment that is not UTF-8
after decoding, reaches no endpoint whatever the table holds: 400. -/
theorem route_bad_path (conv : Bytes → String) (t : Node V) (m : String) (p r : Bytes) (v : Option V)
    (hr : r ∈ Path.rawSegments p)
    (hd : Percent.pctDecode r = Path.dot ∨ Percent.pctDecode r = Path.dotdot ∨
      Utf8.utf8Valid (Percent.pctDecode r) = false) :
    lookupRoute conv t m p v = .error .badRequest := by
  have : ∃ e, Path.inputSegments p = .error e := by
    rcases hd with hd | hd | hd
    · exact C03.dot_rejected p r hr (Or.inl hd)
    · exact C03.dot_rejected p r hr (Or.inr hd)
    · exact C03.utf8_rejected p r hr hd
  obtain ⟨e, he⟩ := this
  simp [lookupRoute, he]

/-- Respellings of a path (any number of `/` before, between and after the same
segments) get the same answer from every table, hit or miss - including tables
with a route for exactly a path beside a wildcard below it. -/
theorem route_slash_invariant (conv : Bytes → String) (t : Node V) (m : String) (p q : Bytes)
    (v : Option V) (h : Path.canon p = Path.canon q) :
    lookupRoute conv t m p v = lookupRoute conv t m q v := by
  simp only [lookupRoute, C03.slash_equiv p q h]

/-- An encoded slash stays inside its segment: `/f/a%2Fb` gives the wildcard of
`/f/{rest:.*}` the one component `a/b`, not two. -/
example : (match lookupRoute (V := Nat) (fun b => String.ofList (b.map Char.ofNat))
      (tableOf sampleTable) "GET" [47, 102, 47, 97, 37, 50, 70, 98] (some 1) with
    | .ok r => isHit (.ok r) 3 [("rest", .comps ["a/b"])]
    | .error _ => false) = true := by decide

end Dropshot.C01
