/-
C19 — an endpoint is registered, served and documented exactly as declared.

Property theorems only.  Model: DropshotModel/Macro.lean (doc.rs, metadata.rs,
util.rs of dropshot_endpoint; `ApiEndpoint::new`, `new_for_types` and the builder
methods of dropshot/src/api_description.rs).  Helper lemmas:
DropshotProofs/Lemmas/Macro.lean.

"Normalised" doc lines are `Macro.normLines attrs`: for every `#[doc = "…"]`
value in order, split at '\n'; trim each piece (Unicode White_Space, both ends);
on every piece after the first of one value (continuation lines of a block
comment) remove one leading `* ` or `*`.
-/
import DropshotModel.Macro
import DropshotProofs.Lemmas.Macro

namespace Dropshot.C19
open Dropshot Dropshot.Macro

deriving instance DecidableEq for Except

/-! ### Clause: free functions, API trait with an implementation, API trait stub — identical -/

/-- The emitted expression never hits `expect("unsupported mime type")`: it
evaluates, through the real constructor and builder semantics, to `toEndpoint`. -/
theorem evalChain_toChain (s : Style) (d : VDecl) :
    evalChain (toChain s d) = some (toEndpoint s d) := by
  unfold evalChain toEndpoint
  have : (toChain s d).ctor.contentType = d.contentType.mime := rfl
  rw [this, fromMime_mime]; rfl

/-- The three expansion paths emit the same builder calls and the same
constructor arguments; only the handler argument (and `new` vs
`new_for_types`) differs. -/
theorem chains_agree (d : VDecl) :
    (toChain .function d).calls = (toChain .traitImpl d).calls ∧
    (toChain .traitImpl d).calls = (toChain .traitStub d).calls ∧
    (∀ s, (toChain s d).ctor.operationId = d.operationId.getD d.name ∧
          (toChain s d).ctor.method = d.method ∧
          (toChain s d).ctor.contentType = d.contentType.mime ∧
          (toChain s d).ctor.path = d.path ∧
          (toChain s d).ctor.versions = d.versions) :=
  ⟨rfl, rfl, fun _ => ⟨rfl, rfl, rfl, rfl, rfl⟩⟩

/-- **C19 (styles).**  A validated declaration registers the same endpoint in
all three styles, up to the handler that is installed. -/
theorem styles_agree (d : VDecl) :
    (toEndpoint .function d).eraseHandler = (toEndpoint .traitImpl d).eraseHandler ∧
    (toEndpoint .traitImpl d).eraseHandler = (toEndpoint .traitStub d).eraseHandler := by
  simp [toEndpoint_eq, EndpointRec.eraseHandler]

/-- Validation does not depend on the style, except for the `_dropshot_crate`
argument, which only free functions may carry. -/
theorem validate_kind_irrelevant (d : Decl) (h : d.dropshotCrate = none) :
    validate .function d = validate .trait d := by
  unfold validate; simp [h]

/-- **C19 (styles, whole path).**  From the declaration as written: the same
declarations are accepted, with the same errors, and accepted ones register
the same endpoint, whether written as a free function or inside an API trait,
and whether the trait is backed by an implementation or by the stub. -/
theorem styles_agree_expand (d : Decl) (h : d.dropshotCrate = none) :
    (expand .function d).map EndpointRec.eraseHandler = (expand .traitImpl d).map EndpointRec.eraseHandler ∧
    (expand .traitImpl d).map EndpointRec.eraseHandler = (expand .traitStub d).map EndpointRec.eraseHandler := by
  unfold expand
  simp only [Style.macroKind, validate_kind_irrelevant d h]
  cases validate .trait d with
  | error e => exact ⟨rfl, rfl⟩
  | ok v => simp [Except.map, styles_agree v]

/-- Implementation-backed and stub descriptions agree without any hypothesis. -/
theorem impl_stub_agree (d : Decl) :
    (expand .traitImpl d).map EndpointRec.eraseHandler = (expand .traitStub d).map EndpointRec.eraseHandler := by
  unfold expand
  simp only [Style.macroKind]
  cases validate .trait d with
  | error e => rfl
  | ok v => simp [Except.map, styles_agree v]

/-! ### Clause: what is declared is what is registered -/

/-- **C19 (declared = registered).**  Every field of the registered endpoint is
the declaration's: path, tags (in order), deprecated; `visible = !unpublished`;
the operation id defaults to the function name; summary and description are
exactly `extractDoc` of the doc attributes; the version range is the parse of the
`versions` argument (`All` when absent).  An endpoint carries its method,
content type (default `application/json`) and body limit; a channel is always
`GET`, `application/json`, without a body limit, and must say
`protocol = WEBSOCKETS`. -/
theorem declared_is_registered (mk : MacroKind) (s : Style) (d : Decl) (v : VDecl)
    (h : validate mk d = .ok v) :
    let e := toEndpoint s v
    d.path = some e.path ∧
    e.operationId = d.operationId.getD d.name ∧
    e.tags = d.tags ∧
    e.visible = !d.unpublished ∧
    e.deprecated = d.deprecated ∧
    e.summary = (extractDoc d.doc).1 ∧
    e.description = (extractDoc d.doc).2 ∧
    parseVersionsOpt d.versions = .ok e.versions ∧
    (d.kind = .endpoint →
      d.method.bind Method.ofIdent = some e.method ∧
      (checkContentType d.contentType).map ContentType.body = some e.bodyContentType ∧
      e.requestBodyMaxBytes = d.requestBodyMaxBytes) ∧
    (d.kind = .channel →
      d.protocol = some WEBSOCKETS ∧
      e.method = .GET ∧ e.bodyContentType = .json ∧ e.requestBodyMaxBytes = none) := by
  simp only [toEndpoint_eq]
  cases hk : d.kind with
  | endpoint =>
    obtain ⟨m, p, vr, ct, hde, hct, -, -, rfl⟩ := (validate_endpoint_ok_iff mk d hk v).1 h
    obtain ⟨-, hm, hv, hp⟩ := (deserEndpoint_ok_iff d m p vr).1 hde
    simp [endpointV, hm, hv, hp, hct]
  | channel =>
    obtain ⟨p, vr, hde, -, -, rfl⟩ := (validate_channel_ok_iff mk d hk v).1 h
    obtain ⟨-, -, -, hpr, hv, hp⟩ := (deserChannel_ok_iff d p vr).1 hde
    simp [channelV, hpr, hv, hp, ContentType.body]

/-- Exactly which declarations the macros accept (everything else is a compile error). -/
def Accepts (mk : MacroKind) (d : Decl) : Prop :=
  (∃ r, parseVersionsOpt d.versions = .ok r) ∧ d.path.isSome ∧
  (mk = .trait → d.dropshotCrate = none) ∧
  match d.kind with
  | .endpoint =>
    d.protocol = none ∧ (∃ m, d.method.bind Method.ofIdent = some m) ∧
    (∀ p, d.path = some p → isWildcardPath p = true → d.unpublished = true) ∧
    (∀ c, d.contentType = some c → ∃ ct : ContentType, c = ct.mime)
  | .channel =>
    d.method = none ∧ d.contentType = none ∧ d.requestBodyMaxBytes = none ∧
    d.protocol = some WEBSOCKETS ∧
    (∀ p, d.path = some p → isWildcardPath p = false)

theorem parse_ct_iff (c : Str) : (∃ ct, ContentType.parse c = some ct) ↔ ∃ ct : ContentType, c = ct.mime := by
  constructor
  · rintro ⟨ct, h⟩
    unfold ContentType.parse at h
    have := List.find?_some h
    exact ⟨ct, (by simpa using this : ct.mime = c).symm⟩
  · rintro ⟨ct, rfl⟩
    exact ⟨ct, by cases ct <;> decide⟩

/-- **C19 (which combinations are rejected).** -/
theorem validate_ok_iff (mk : MacroKind) (d : Decl) :
    (∃ v, validate mk d = .ok v) ↔ Accepts mk d := by
  unfold Accepts
  cases hk : d.kind with
  | endpoint =>
    simp only [validate_endpoint_ok_iff mk d hk, deserEndpoint_ok_iff]
    constructor
    · rintro ⟨v, m, p, vr, ct, ⟨hpr, hm, hv, hp⟩, hct, hcr, hw, -⟩
      refine ⟨⟨vr, hv⟩, by simp [hp], hcr, hpr, ⟨m, hm⟩, ?_, ?_⟩
      · intro p' hp'; rw [hp] at hp'; cases hp'; exact hw
      · intro c hc
        rw [hc] at hct
        exact (parse_ct_iff c).1 ⟨ct, hct⟩
    · rintro ⟨⟨vr, hv⟩, hp, hcr, hpr, ⟨m, hm⟩, hw, hc⟩
      cases hp' : d.path with
      | none => simp [hp'] at hp
      | some p =>
        have : ∃ ct, checkContentType d.contentType = some ct := by
          cases hcc : d.contentType with
          | none => exact ⟨.json, rfl⟩
          | some c => exact (parse_ct_iff c).2 (hc c hcc)
        obtain ⟨ct, hct⟩ := this
        exact ⟨_, m, p, vr, ct, ⟨hpr, hm, hv, rfl⟩, hct, hcr, hw p hp', rfl⟩
  | channel =>
    simp only [validate_channel_ok_iff mk d hk, deserChannel_ok_iff]
    constructor
    · rintro ⟨v, p, vr, ⟨hm, hc, hb, hpr, hv, hp⟩, hcr, hw, -⟩
      refine ⟨⟨vr, hv⟩, by simp [hp], hcr, hm, hc, hb, hpr, ?_⟩
      intro p' hp'; rw [hp] at hp'; cases hp'; exact hw
    · rintro ⟨⟨vr, hv⟩, hp, hcr, hm, hc, hb, hpr, hw⟩
      cases hp' : d.path with
      | none => simp [hp'] at hp
      | some p => exact ⟨_, p, vr, ⟨hm, hc, hb, hpr, hv, rfl⟩, hcr, hw p hp', rfl⟩

/-! ### Clause: no doc-comment text is lost between summary and description -/

/-- `Option<String>` read as text. -/
abbrev text := optStr

/-- **C19 (doc text).**  For every list of doc attribute values: the
non-whitespace characters of summary followed by description are exactly the
non-whitespace characters of the normalised lines, in the same order — nothing
is dropped, duplicated or reordered by blank skipping, hyphen continuation,
paragraph breaks or the final `trim_end`. -/
theorem doc_text_preserved (attrs : List Str) :
    nonWs (text (extractDoc attrs).1 ++ text (extractDoc attrs).2) = nonWs (normLines attrs).flatten :=
  nonWs_extractDoc attrs

/-- The same statement against the specification-side account of the comment
text (`specNonWs`: no trimming, no blank skipping, no folding — per attribute
value, per line, the non-whitespace characters minus one leading `*` on
continuation lines).  This is the predicate the driver evaluates on the real
`ExtractedDoc`. -/
theorem doc_text_preserved_spec (attrs : List Str) :
    nonWs (text (extractDoc attrs).1 ++ text (extractDoc attrs).2) = specNonWs attrs := by
  rw [doc_text_preserved, nonWs_normLines]

/-- The summary is the first non-blank normalised line, unchanged. -/
theorem summary_first_nonblank (attrs : List Str) :
    (extractDoc attrs).1 = (normLines attrs).find? (fun l => !l.isEmpty) :=
  summary_eq attrs

/-- There is a description exactly when a second non-blank line exists. -/
theorem description_iff_second_line (attrs : List Str) :
    (extractDoc attrs).2 = none ↔ ((normLines attrs).filter (fun l => !l.isEmpty)).length ≤ 1 :=
  description_none_iff attrs

/-- The description's text is the text of the lines after the summary. -/
theorem description_text (attrs : List Str) (s : Str) (rest : List Str)
    (h : dropBlank (normLines attrs) = s :: rest) :
    (extractDoc attrs).1 = some s ∧ nonWs (text (extractDoc attrs).2) = nonWs rest.flatten := by
  unfold extractDoc; rw [h]; exact ⟨rfl, nonWs_descOf rest⟩

/-! ### Clause: the `versions = …` syntax means the ranges of C05 -/

/-- A version literal is accepted iff it is a semver without pre-release and
build metadata; the emitted `semver::Version::new(major, minor, patch)` is that version. -/
theorem semver_literal_ok_iff (s : Str) (v : SemVer) :
    parseSemverLit s = .ok v ↔
      SemVer.parseChars s = some v ∧ v.pre = [] ∧ v.build = [] ∧ semOf v.major v.minor v.patch = v :=
  parseSemverLit_ok_iff s v

/-- **C19 (version syntax).**  `..` is `All`; `.."b"` is `Until b`; `"a"..` is
`From a`; and `"a".."b"` is accepted by the macro exactly when
`ApiEndpointVersions::from_until` (C05's `mkFromUntil`) accepts the pair, and
then evaluates to `FromUntil a b`: for literal ranges the emitted
`from_until(…).unwrap()` cannot panic. -/
theorem version_syntax (env : Str → Option SemVer) :
    (parseVersions .all = .ok .all ∧ resolveVersions env .all = some .all) ∧
    (∀ b r, parseVersions (.until (.lit b)) = .ok r ↔
        ∃ vb, parseSemverLit b = .ok vb ∧ r = .until (.lit vb.major vb.minor vb.patch) ∧
          resolveVersions env r = some (.until vb)) ∧
    (∀ a r, parseVersions (.from (.lit a)) = .ok r ↔
        ∃ va, parseSemverLit a = .ok va ∧ r = .from (.lit va.major va.minor va.patch) ∧
          resolveVersions env r = some (.from va)) ∧
    (∀ a b r, parseVersions (.fromUntil (.lit a) (.lit b)) = .ok r ↔
        ∃ va vb, parseSemverLit a = .ok va ∧ parseSemverLit b = .ok vb ∧
          Range.mkFromUntil va vb = some (.fromUntil va vb) ∧
          r = .fromUntil (.lit va.major va.minor va.patch) (.lit vb.major vb.minor vb.patch) ∧
          resolveVersions env r = Range.mkFromUntil va vb) := by
  refine ⟨⟨rfl, rfl⟩, ?_, ?_, ?_⟩
  · intro b r
    rw [parseVersions_until]
    constructor
    · rintro ⟨x, hx, rfl⟩
      obtain ⟨vb, hvb, rfl⟩ := (VSpec_parse_lit b x).1 hx
      have hs := ((parseSemverLit_ok_iff b vb).1 hvb).2.2.2
      exact ⟨vb, hvb, rfl, by simp [resolveVersions, VExpr.eval, hs]⟩
    · rintro ⟨vb, hvb, rfl, -⟩
      exact ⟨_, (VSpec_parse_lit b _).2 ⟨vb, hvb, rfl⟩, rfl⟩
  · intro a r
    rw [parseVersions_from]
    constructor
    · rintro ⟨x, hx, rfl⟩
      obtain ⟨va, hva, rfl⟩ := (VSpec_parse_lit a x).1 hx
      have hs := ((parseSemverLit_ok_iff a va).1 hva).2.2.2
      exact ⟨va, hva, rfl, by simp [resolveVersions, VExpr.eval, hs]⟩
    · rintro ⟨va, hva, rfl, -⟩
      exact ⟨_, (VSpec_parse_lit a _).2 ⟨va, hva, rfl⟩, rfl⟩
  · intro a b r
    rw [parseVersions_fromUntil]
    constructor
    · rintro ⟨x, y, hx, -, hy, rfl, hord⟩
      obtain ⟨va, hva, rfl⟩ := (VSpec_parse_lit a x).1 hx
      obtain ⟨vb, hvb, rfl⟩ := (VSpec_parse_lit b y).1 hy
      have hsa := ((parseSemverLit_ok_iff a va).1 hva).2.2.2
      have hsb := ((parseSemverLit_ok_iff b vb).1 hvb).2.2.2
      have hnlt : ¬ vb < va := hord va vb (by simp [VExpr.litSem, hsa]) (by simp [VExpr.litSem, hsb])
      refine ⟨va, vb, hva, hvb, by simp [Range.mkFromUntil, hnlt], rfl, ?_⟩
      simp [resolveVersions, VExpr.eval, hsa, hsb]
    · rintro ⟨va, vb, hva, hvb, hmk, rfl, -⟩
      have hsa := ((parseSemverLit_ok_iff a va).1 hva).2.2.2
      have hsb := ((parseSemverLit_ok_iff b vb).1 hvb).2.2.2
      refine ⟨_, _, (VSpec_parse_lit a _).2 ⟨va, hva, rfl⟩, rfl, (VSpec_parse_lit b _).2 ⟨vb, hvb, rfl⟩, rfl, ?_⟩
      intro wa wb hwa hwb
      simp only [VExpr.litSem, hsa, hsb, Option.some.injEq] at hwa hwb
      subst hwa; subst hwb
      intro hlt
      simp [Range.mkFromUntil, hlt] at hmk

/-- A reversed literal pair is a compile error, never a run-time panic. -/
theorem reversed_literals_rejected (a b : Str) (va vb : SemVer)
    (ha : parseSemverLit a = .ok va) (hb : parseSemverLit b = .ok vb) (h : vb < va) :
    parseVersions (.fromUntil (.lit a) (.lit b)) = .error .reversed := by
  have hsa := ((parseSemverLit_ok_iff a va).1 ha).2.2.2
  have hsb := ((parseSemverLit_ok_iff b vb).1 hb).2.2.2
  simp [parseVersions, VSpec.parse, VSpec.peekable, ha, hb, VExpr.litSem, hsa, hsb, h]

/-- With constants instead of literals the macro cannot compare: the order is
checked only when the API description is built (`from_until(..).unwrap()`). -/
theorem ident_range_unchecked :
    parseVersions (.fromUntil (.ident ['B']) (.ident ['A'])) = .ok (.fromUntil (.ident ['B']) (.ident ['A'])) ∧
    resolveVersions (fun p => if p = ['A'] then some (semOf 1 0 0) else some (semOf 2 0 0))
      (.fromUntil (.ident ['B']) (.ident ['A'])) = none :=
  ⟨rfl, by decide⟩

/-- **Observation F1 (acceptance asymmetry, not a mis-registration).**  After
`a..` the parser only recognises a string literal or a plain identifier as the
start of the upper bound, so `"1.0.0"..crate::V2` is a compile error
(`unexpected token`) although `..crate::V2` and `crate::V1.."2.0.0"` are
accepted.  Replayed on the real `VersionRange::parse`. -/
theorem keyword_path_upper_bound_refused :
    parseVersions (.fromUntil (.lit "1.0.0".toList) (.ident "crate::V2".toList)) = .error .unexpectedToken ∧
    parseVersions (.until (.ident "crate::V2".toList)) = .ok (.until (.ident "crate::V2".toList)) ∧
    parseVersions (.fromUntil (.ident "crate::V1".toList) (.lit "2.0.0".toList)) =
      .ok (.fromUntil (.ident "crate::V1".toList) (.lit 2 0 0)) ∧
    parseVersions (.fromUntil (.lit "1.0.0".toList) (.ident "V2".toList)) =
      .ok (.fromUntil (.lit 1 0 0) (.ident "V2".toList)) := by
  refine ⟨?_, rfl, ?_, ?_⟩ <;> decide

/-! ### Served and documented -/

/-- **C19 (served, documented).**  The declaration's data is what routing and
the document use: a lookup at version `v` reaches the endpoint iff the declared
range contains `v` — whether or not it is published — and returns the declared
operation id, content type and body limit; the document at `v` lists it iff it
is also published, with the declared method, path, operation id, tags,
deprecated flag, summary and description.

Full statement: the last conjunct `d.path = some (docEntry e).path` for every
declaration.  It fails for paths with a trailing slash (finding K19a, negation
witness `trailing_slash_not_documented`), so the proved theorem is `_partial`
with the explicit hypothesis `hts`. -/
theorem served_and_documented_partial (mk : MacroKind) (s : Style) (d : Decl) (v : VDecl)
    (env : Str → Option SemVer) (ver : SemVer) (h : validate mk d = .ok v)
    (hts : ∀ p, d.path = some p → trailingSlash p = false) :
    let e := toEndpoint s v
    routedAt env e (some ver) = routedAt env (toEndpoint .function v) (some ver) ∧
    documentedAt env e ver = (!d.unpublished && routedAt env e (some ver)) ∧
    (d.unpublished = true → documentedAt env e ver = false) ∧
    (lookupMeta e).operationId = d.operationId.getD d.name ∧
    (d.kind = .endpoint → (lookupMeta e).requestBodyMaxBytes = d.requestBodyMaxBytes) ∧
    (docEntry e).operationId = d.operationId.getD d.name ∧
    (docEntry e).tags = d.tags ∧ (docEntry e).deprecated = d.deprecated ∧
    (docEntry e).summary = (extractDoc d.doc).1 ∧ (docEntry e).description = (extractDoc d.doc).2 ∧
    d.path = some (docEntry e).path := by
  have hr := declared_is_registered mk s d v h
  simp only at hr
  obtain ⟨h1, h2, h3, h4, h5, h6, h7, -, h9, -⟩ := hr
  refine ⟨?_, ?_, ?_, h2, fun hk => (h9 hk).2.2, h2, h3, h5, h6, h7, ?_⟩
  · simp [routedAt, toEndpoint_eq]
  · simp [documentedAt, h4]
  · intro hu; simp [documentedAt, h4, hu]
  · have := hts _ h1
    simp [docEntry, docPath, this, h1]

/-- **Finding K19a (negation witness of the full statement).**  A declaration
`path = "/a/"` is accepted, registered with path `/a/`, and listed in the
document under `/a`. -/
def trailDecl : Decl :=
  { kind := .endpoint, method := some ['G', 'E', 'T'], path := some ['/', 'a', '/'], name := ['f'] }

theorem trailing_slash_not_documented :
    ∃ v, validate .function trailDecl = .ok v ∧
      (toEndpoint .function v).path = ['/', 'a', '/'] ∧
      (docEntry (toEndpoint .function v)).path = ['/', 'a'] ∧
      trailDecl.path ≠ some (docEntry (toEndpoint .function v)).path :=
  ⟨{ kind := .endpoint, operationId := none, method := .GET, path := ['/', 'a', '/'], tags := [],
     unpublished := false, deprecated := false, requestBodyMaxBytes := none, contentType := .json,
     versions := .all, doc := [], name := ['f'] }, by decide, by decide, by decide, by decide⟩

/-! ### Non-vacuity -/

/-- A declaration using every argument, in the model's terms. -/
def sampleDecl : Decl :=
  { kind := .endpoint, method := some ['P', 'U', 'T'], path := some ['/', 'a', '/', '{', 'x', '}'],
    versions := some (.fromUntil (.lit ['1', '.', '0', '.', '0']) (.lit ['2', '.', '0', '.', '0'])),
    tags := [['t', '1'], ['t', '2']], operationId := some ['o', 'p'],
    contentType := some "application/x-www-form-urlencoded".toList,
    requestBodyMaxBytes := some 4096, deprecated := true, unpublished := true,
    doc := [[' ', 'S', 'u', 'm'], [], [' ', 'l', 'i', 'n', 'e', '-'], [' ', 'e', 'n', 'd']],
    name := ['f'] }

/-- What it validates to. -/
def sampleV : VDecl :=
  { kind := .endpoint, operationId := some ['o', 'p'], method := .PUT,
    path := ['/', 'a', '/', '{', 'x', '}'], tags := [['t', '1'], ['t', '2']],
    unpublished := true, deprecated := true, requestBodyMaxBytes := some 4096,
    contentType := .urlencoded, versions := .fromUntil (.lit 1 0 0) (.lit 2 0 0),
    doc := [[' ', 'S', 'u', 'm'], [], [' ', 'l', 'i', 'n', 'e', '-'], [' ', 'e', 'n', 'd']],
    name := ['f'] }

example : validate .function sampleDecl = .ok sampleV := by decide
example : validate .trait sampleDecl = .ok sampleV := by decide
example : toEndpoint .traitStub sampleV =
    { operationId := ['o', 'p'], handler := .stub ['o', 'p'], method := .PUT,
      path := ['/', 'a', '/', '{', 'x', '}'], bodyContentType := .urlencoded,
      requestBodyMaxBytes := some 4096, summary := some ['S', 'u', 'm'],
      description := some ['l', 'i', 'n', 'e', '-', 'e', 'n', 'd'], tags := [['t', '1'], ['t', '2']],
      visible := false, deprecated := true, versions := .fromUntil (.lit 1 0 0) (.lit 2 0 0) } := by decide
example : (toEndpoint .function sampleV).handler = .fn ['f'] ∧
    (toEndpoint .traitImpl sampleV).handler = .traitMethod ['f'] := by decide
example : Accepts .trait sampleDecl := (validate_ok_iff _ _).1 ⟨sampleV, by decide⟩
example : ∀ p, sampleDecl.path = some p → trailingSlash p = false := by decide

/-- Rejected combinations really are rejected. -/
def wildDecl : Decl := { sampleDecl with unpublished := false, path := some ['/', '{', 'p', ':', '.', '*', '}'] }
example : validate .function wildDecl = .error [.wildcardNotUnpublished] := by decide
def badCtDecl : Decl := { sampleDecl with contentType := some ['x'], dropshotCrate := some ['d'] }
example : validate .trait badCtDecl = .error [.dropshotCrateInTrait, .badContentType] := by decide
example : validate .function badCtDecl = .error [.badContentType] := by decide
def reversedDecl : Decl :=
  { sampleDecl with versions := some (.fromUntil (.lit ['2', '.', '0', '.', '0']) (.lit ['1', '.', '0', '.', '0'])) }
example : validate .function reversedDecl = .error [.reversed] := by decide
def preDecl : Decl := { sampleDecl with versions := some (.from (.lit ['1', '.', '0', '.', '0', '-', 'r'])) }
example : validate .function preDecl = .error [.preRelease] := by decide
def chanDecl : Decl := { kind := .channel, protocol := some WEBSOCKETS, path := some ['/', 'c'], name := ['c'] }
def chanCtDecl : Decl := { chanDecl with contentType := some "application/json".toList }
example : validate .function chanCtDecl = .error [.extraneous] := by decide
example : (validate .trait chanDecl).toOption.map (fun v => (toEndpoint .traitImpl v).method) = some .GET := by
  decide

/-- Doc text: a block comment with decoration, a blank run and a hyphen. -/
example : extractDoc [['\n', ' ', '*', ' ', 'A', ' ', 'b', '\n', ' ', '*', '\n', ' ', '*', ' ', 'c', '-', '\n', ' ', '*', 'd', '\n', ' ']] =
    (some ['A', ' ', 'b'], some ['c', '-', 'd']) := by decide

end Dropshot.C19
