/-
C08 — converting a type's JSON Schema to OpenAPI preserves its meaning.

Property theorems only.  Model: `DropshotModel/Schema.lean` (instances `J`,
schemars schemas `JS`, openapiv3 schemas `OAS`/`RefOr`, validity of both) and
`DropshotModel/J2Oas.lean` (`j2oas`, arm for arm after
`dropshot/src/schema_util.rs::j2oas_schema`; `JS.supported`).  Helper lemmas
and the mutual induction: `DropshotProofs/Lemmas/J2Oas.lean`.

Full-strength statement (NOT a theorem of the code as it stands):

    ∀ n s o, j2oas n s = .ok o → ∀ ρ j, o.valid ρ j = s.valid ρ j

It fails: `full_statement_fails` below.  What is proved is the same statement
under the decidable hypothesis `s.supported`; every way of leaving the
supported fragment without a panic has its own machine-checked negation
witness (section "What the converter drops or alters"), so the list of drops
is explicit.
-/
import DropshotProofs.Lemmas.J2Oas
import DropshotProofs.Lemmas.RefSiblings

namespace Dropshot.C08
open Dropshot.Schema

/-! ### Preservation of meaning -/

/-- **C08 (main clause).**  For every schema of the supported fragment that the
converter accepts, under every interpretation `ρ` of `$ref`s and patterns, the
emitted OpenAPI schema accepts exactly the JSON values the JSON Schema accepts —
all instances, valid or not.  (`…_partial`: `s.supported` excludes the `null`
instance type — finding K3 — and the keywords the converter ignores; see the
witnesses below.  Inside the fragment nothing is dropped: `required`, `enum`,
numeric bounds and `multipleOf`, lengths, `pattern`, `items`, `minItems`,
`maxItems`, `uniqueItems`, `properties`, `additionalProperties`,
`min/maxProperties`, `allOf`/`anyOf`/`oneOf`/`not`, `nullable`, nested to any
depth.) -/
theorem j2oas_preserves_partial (n : Option String) (s : JS) (o : RefOr)
    (h : j2oas n s = .ok o) (hs : s.supported = true) :
    ∀ (ρ : Env) (j : J), o.valid ρ j = s.valid ρ j :=
  fun ρ j => pres ρ s n o h hs j

/-- **C08 (recursive documents).**  When every named definition is supported
and converted (as `gen_openapi` does for `components.schemas`), a reference
means the same on both sides at every unfolding depth — so preservation holds
for nested and recursive types with references resolved inside the document. -/
theorem j2oas_preserves_document (pat : String → String → Bool)
    (defs : List (String × JS)) (odefs : List (String × RefOr))
    (hc : convDefs defs = .ok odefs) (hs : ∀ p ∈ defs, p.2.supported = true) :
    ∀ fuel name j, refOAS pat odefs fuel name j = refJS pat defs fuel name j := by
  -- lookups correspond
  have hl : ∀ (defs : List (String × JS)) (odefs : List (String × RefOr)),
      convDefs defs = .ok odefs → (∀ p ∈ defs, p.2.supported = true) → ∀ name,
      (lookupDef name defs = none ∧ lookupDef name odefs = none) ∨
      (∃ s r, lookupDef name defs = some s ∧ lookupDef name odefs = some r ∧
        j2oas none s = .ok r ∧ s.supported = true) := by
    intro defs
    induction defs with
    | nil => intro odefs hc _ name; simp [convDefs] at hc; subst hc; simp [lookupDef]
    | cons p rest ih =>
      intro odefs hc hs name
      obtain ⟨k, s⟩ := p
      simp only [convDefs] at hc
      split at hc
      · simp at hc
      · rename_i r hr
        split at hc
        · simp at hc
        · rename_i rs hrs
          simp at hc; subst hc
          simp only [lookupDef]
          split
          · exact .inr ⟨s, r, rfl, rfl, hr, hs (k, s) (by simp)⟩
          · exact ih rs hrs (fun p hp => hs p (by simp [hp])) name
  intro fuel
  induction fuel with
  | zero => intro name j; rfl
  | succ k ih =>
    intro name j
    have ihf : refOAS pat odefs k = refJS pat defs k := by funext a b; exact ih a b
    rcases hl defs odefs hc hs name with ⟨h1, h2⟩ | ⟨s, r, h1, h2, h3, h4⟩
    · simp [refOAS, refJS, h1, h2]
    · simp only [refOAS, refJS, h1, h2, ihf]
      exact pres _ s none r h3 h4 j

/-! ### Annotations are kept -/

/-- the `format` carried by a typed kind. -/
def kindFormat : OKind → Option String
  | .string t => t.format.toOption
  | .number t => t.format.toOption
  | .integer t => t.format.toOption
  | _ => none

/-- **C08 (annotations).**  For a schema object without `$ref`: description,
default, deprecated, readOnly, writeOnly, nullability, every `x-` extension (in
order, nothing else), and `example` are copied; the title is the `name`
argument when one is given, else the schema's own title; `format` is kept on
string, number and integer schemas. -/
theorem j2oas_keeps_annotations (n : Option String) (md : Option Meta) (ty fmt en cv subs num str arr ob)
    (ext : List (String × J)) (d : SData) (k : OKind)
    (h : j2oas n (.obj md ty fmt en cv subs num str arr ob none ext) = .ok (.item (.mk d k))) :
    d.title = (n <|> md.bind (·.title))
    ∧ d.description = md.bind (·.description)
    ∧ d.default = md.bind (·.default)
    ∧ d.deprecated = (md.map (·.deprecated)).getD false
    ∧ d.readOnly = (md.map (·.readOnly)).getD false
    ∧ d.writeOnly = (md.map (·.writeOnly)).getD false
    ∧ d.nullable = extNullable ext
    ∧ d.extensions = ext.filter (fun kv => isXExt kv.1)
    ∧ d.exampleVal = J.lookup "example" ext
    ∧ ((ty = some (.single .string) ∨ ty = some (.single .number) ∨ ty = some (.single .integer)) →
        kindFormat k = fmt) := by
  simp only [j2oas] at h
  split at h
  · simp at h
  · rename_i k' hk
    simp at h
    obtain ⟨hd, hk'⟩ := h
    subst hd hk'
    refine ⟨?_, ?_, ?_, ?_, ?_, ?_, ?_, ?_, ?_, ?_⟩
    all_goals try (unfold mkData; cases md <;> cases n <;> simp <;> split <;> simp_all; done)
    -- format
    have fmtOk : ∀ known, (mkFmt known fmt).toOption = fmt := by
      intro known
      cases fmt with
      | none => rfl
      | some v => by_cases hc : v ∈ known <;> simp [mkFmt, hc, Fmt.toOption]
    rintro (rfl | rfl | rfl) <;> cases subs <;> simp only [tyArm] at hk <;> try (simp at hk; done)
    · unfold j2oasString at hk
      split at hk
      · simp at hk
      · simp at hk; subst hk; simp [kindFormat, fmtOk]
    · unfold j2oasNumber at hk
      split at hk
      · rename_i t ht
        simp at hk; subst hk; simp [kindFormat, numericFormat ht, fmtOk]
      · simp at hk
    · unfold j2oasInteger at hk
      split at hk
      · rename_i t ht
        simp at hk; subst hk; simp [kindFormat, numericFormat ht, fmtOk]
      · simp at hk

/-! ### Concrete schemas used below -/

/-- `SchemaObject::default()`. -/
abbrev so : JS := .obj none none none none none .none none none .none .none none []
/-- `{ "type": t }`. -/
abbrev typed (t : IType) : JS := .obj none (some (.single t)) none none none .none none none .none .none none []
abbrev noArr : JSArr := .none
abbrev noObj : JSObjV := .none
/-- an interpretation under which every reference and every pattern matches. -/
abbrev ρT : Env := ⟨fun _ _ => true, fun _ _ => true⟩

/-- Non-vacuity of `j2oas_preserves_partial`: a struct-like schema with a
required integer property with bounds, an optional nullable string enum, an
array of references with length limits, and a closed `additionalProperties`. -/
def sample : JS :=
  .obj (some { title := some "T", description := some "d" }) (some (.single .object)) none none none .none
    none none .none
    (.some none none ["a"]
      (.cons "a" (.obj none (some (.single .integer)) (some "uint8") none none .none
          (some { minimum := some 0, maximum := some 255 }) none .none .none none [])
        (.cons "b" (.obj none (some (.single .string)) none (some [.str "x", .str "y", .null]) none .none
            none none .none .none none [("nullable", .bool true)])
          (.cons "c" (.obj none (some (.single .array)) none none none .none none none
              (.some (.single (.obj none none none none none .none none none .none .none
                (some "#/components/schemas/U") [])) .none (some 3) (some 1) (some true) .none)
              .none none [])
            .nil)))
      .nil (.some (.bool false)) .none)
    none [("x-k", .num 1)]

example : sample.supported = true := by decide
example : ∃ o, j2oas (some "T") sample = .ok o := ⟨_, rfl⟩

/-! ### Finding K3: the `null` instance type -/

/-- **K3.**  `{ "type": "null" }` (the schema of `()`) is converted to
`{ "type": "string", "enum": [null] }`; the JSON Schema accepts exactly `null`,
the OpenAPI 3.0 schema (no `nullable`) accepts nothing — in particular not
`null`. -/
theorem null_type_changes_meaning :
    j2oas none (typed .null) = .ok (.item (.mk {} (.string { enumeration := [none] })))
    ∧ (typed .null).valid ρT .null = true
    ∧ (∀ o, j2oas none (typed .null) = .ok o → ∀ ρ j, o.valid ρ j = false) := by
  refine ⟨rfl, by decide, ?_⟩
  intro o h ρ j
  have : o = .item (.mk {} (.string { enumeration := [none] })) := by
    have h' : j2oas none (typed .null) = .ok (.item (.mk {} (.string { enumeration := [none] }))) := rfl
    rw [h'] at h; exact (Except.ok.inj h).symm
  subst this
  cases j <;> simp [RefOr.valid, OAS.valid, OKind.valid, StringType.ok, enumHas, J.isNull, optAll]

/-- The full-strength statement (without `supported`) is false. -/
theorem full_statement_fails :
    ¬ (∀ n s o, j2oas n s = .ok o → ∀ ρ j, RefOr.valid ρ o j = JS.valid ρ s j) := by
  intro h
  have := h none (typed .null) _ rfl ρT .null
  revert this; decide

/-! ### What the converter drops or alters (outside `supported`)

Each lemma: the conversion succeeds, and some instance is judged differently by
the two schemas.  `Differs s j` abbreviates exactly that (under `ρT`). -/

def Differs (s : JS) (j : J) : Prop :=
  ∃ o, j2oas none s = .ok o ∧ o.valid ρT j ≠ s.valid ρT j

/-- `const` is ignored. -/
theorem drops_const :
    Differs (.obj none (some (.single .integer)) none none (some (.num 1)) .none none none .none .none none [])
      (.num 2) := ⟨_, rfl, by decide⟩

/-- with neither `type` nor subschemas, `enum` is ignored (result: `Any`). -/
theorem drops_enum_without_type :
    Differs (.obj none none none (some [.num 1]) none .none none none .none .none none []) (.num 2) :=
  ⟨_, rfl, by decide⟩

/-- with neither `type` nor subschemas, numeric/string/array/object keywords
are ignored. -/
theorem drops_untyped_validation :
    Differs (.obj none none none none none .none (some { minimum := some 3 }) none .none .none none [])
      (.num 1) := ⟨_, rfl, by decide⟩

/-- beside subschemas, every other validation keyword is ignored. -/
theorem drops_validation_beside_subschemas :
    Differs (.obj none none none none none (.some (.some (.cons (.bool true) .nil)) .none .none .none .none .none .none)
      (some { minimum := some 3 }) none .none .none none []) (.num 1) := ⟨_, rfl, by decide⟩

/-- `enum: []` (accepts nothing) becomes "no enum" (openapiv3 does not
serialise an empty enumeration). -/
theorem empty_enum_becomes_no_enum :
    Differs (.obj none (some (.single .integer)) none (some []) none .none none none .none .none none [])
      (.num 1) := ⟨_, rfl, by decide⟩

/-- `enum` beside `type: object` (or `array`) is ignored. -/
theorem drops_enum_beside_object_type :
    Differs (.obj none (some (.single .object)) none (some [.null]) none .none none none .none .none none [])
      (.obj []) := ⟨_, rfl, by decide⟩

/-- everything beside a `$ref` is ignored. -/
theorem drops_ref_siblings :
    Differs (.obj none (some (.single .integer)) none none none .none none none .none .none (some "A") [])
      .null := ⟨_, rfl, by decide⟩

/-- `if`/`then`/`else` are ignored. -/
theorem drops_if_then_else :
    Differs (.obj none none none none none
      (.some (.some .nil) .none .none .none (.some (.bool true)) (.some (.bool false)) .none)
      none none .none .none none []) .null := ⟨_, rfl, by decide⟩

/-- `contains` is ignored. -/
theorem drops_contains :
    Differs (.obj none (some (.single .array)) none none none .none none none
      (.some .none .none none none none (.some (typed .integer))) .none none []) (.arr []) :=
  ⟨_, rfl, by decide⟩

/-- `patternProperties` is ignored. -/
theorem drops_pattern_properties :
    Differs (.obj none (some (.single .object)) none none none .none none none .none
      (.some none none [] .nil (.cons "p" (.bool false) .nil) .none .none) none [])
      (.obj [("a", .null)]) := ⟨_, rfl, by decide⟩

/-- `propertyNames` is ignored. -/
theorem drops_property_names :
    Differs (.obj none (some (.single .object)) none none none .none none none .none
      (.some none none [] .nil .nil .none (.some (.bool false))) none [])
      (.obj [("a", .null)]) := ⟨_, rfl, by decide⟩

/-- integer bounds are cast with a saturating `as i64`: `maximum: 2^63`
becomes `2^63 - 1`. -/
theorem saturates_integer_bounds :
    Differs (.obj none (some (.single .integer)) none none none .none
      (some { maximum := some 9223372036854775808 }) none .none .none none [])
      (.num 9223372036854775808) := ⟨_, rfl, by decide⟩

/-! ### Annotations that are not kept -/

/-- `examples` (metadata) and `$id` are not copied; neither is a non-`x-`
extension other than `nullable`/`example`. -/
theorem drops_examples_and_id :
    j2oas none (.obj (some { id := some "i", examples := [.num 1] }) (some (.single .integer)) none none none
      .none none none .none .none none [("foo", .num 1)])
    = .ok (.item (.mk {} (.integer {}))) := rfl

/-- `format` beside `type: boolean` (likewise object, array) is not copied. -/
theorem drops_format_on_boolean :
    j2oas none (.obj none (some (.single .boolean)) (some "f") none none .none none none .none .none none [])
    = .ok (.item (.mk {} (.boolean []))) := rfl

/-- annotations beside a `$ref` are lost with the other siblings. -/
theorem drops_annotations_beside_ref :
    j2oas (some "N") (.obj (some { description := some "d" }) none none none none .none none none .none .none
      (some "A") [("nullable", .bool true), ("x-k", .num 1)])
    = .ok (.ref "A") := rfl

/-! ### References with something beside them, and schemars' `RemoveRefSiblings`

`j2oas` returns a reference as it is, whatever stands beside it
(`beside_ref_dropped`, for every such object).  Every definition dropshot
publishes therefore has to go through schemars' `RemoveRefSiblings` visitor
first (`JS.rrs`), after which a reference that had company has become the last
member of an `allOf` and the company is converted as usual
(`ref_with_annotations_kept`): this is the shape of a documented newtype around
another named type, `/// doc` `struct DiskName(Name)`.  Definitions reached only
through a parameter or a response header skipped the visitor until repair
`6e97a32`; the `da` lines `param_*` / `header_*` observe the published
components, the `rv` stream compares `JS.rrs` with the visitor itself. -/

/-- Whatever stands beside a reference, the converter returns the bare reference. -/
theorem beside_ref_dropped (n : Option String) (md : Option Meta) (ty fmt en cv subs num str arr ob)
    (r : String) (ext : List (String × J)) :
    j2oas n (.obj md ty fmt en cv subs num str arr ob (some r) ext) = .ok (.ref r) := by
  simp [j2oas]

/-- A bare reference is left alone by the visitor. -/
theorem rrs_bare_ref (r : String) : (JS.newRef r).rrs = JS.newRef r := by
  simp [JS.newRef, JS.rrs, JSSubs.rrs, JSArr.rrs, JSObjV.rrs, restIsDefault]

/-- **Annotations beside a reference survive visitor + conversion.**  A schema that
is a reference with metadata and/or extensions beside it (and nothing else)
is published as `allOf: [that reference]` carrying exactly the schema data the
converter builds for any other schema from the same metadata and extensions -
description, title, default, deprecated, read/write-only, example, nullable
and `x-` extensions (`mkData`). -/
theorem ref_with_annotations_kept (n : Option String) (md : Option Meta) (r : String)
    (ext : List (String × J)) (h : md.isSome = true ∨ ext ≠ []) :
    j2oas n (JS.rrs (.obj md none none none none .none none none .none .none (some r) ext))
      = .ok (.item (.mk (mkData n md ext) (.allOf (.cons (.ref r) .nil)))) := by
  have hd : restIsDefault md none none none none .none none none .none .none ext = false := by
    rcases h with h | h
    · cases md <;> simp_all [restIsDefault]
    · cases ext <;> simp_all [restIsDefault]
  simp [JS.rrs, JSSubs.rrs, JSArr.rrs, JSObjV.rrs, hd, JSSubs.pushAllOf, JS.newRef, j2oas, tyArm,
    j2oasSubschemas, j2oasList]

/-- **After the visitor no reference has company**, anywhere in the schema, at any
depth: the converter's reference arm has nothing to drop in a visited schema. -/
theorem visited_refs_stand_alone (s : JS) : s.rrs.refsAlone = true := JS.rrs_refsAlone s

/-- What "stands alone" means at an object: it is exactly `Schema::new_ref`. -/
theorem ref_alone_is_new_ref (md : Option Meta) (ty fmt en cv subs num str arr ob) (r : String)
    (ext : List (String × J))
    (h : (JS.obj md ty fmt en cv subs num str arr ob (some r) ext).refsAlone = true) :
    JS.obj md ty fmt en cv subs num str arr ob (some r) ext = JS.newRef r := by
  simp only [JS.refsAlone, Option.isNone_some, Bool.false_or, Bool.and_eq_true] at h
  obtain ⟨_, hd⟩ := h
  simp only [restIsDefault, Bool.and_eq_true, Option.isNone_iff_eq_none, List.isEmpty_iff] at hd
  obtain ⟨⟨⟨⟨⟨⟨⟨⟨⟨⟨h1, h2⟩, h3⟩, h4⟩, h5⟩, h6⟩, h7⟩, h8⟩, h9⟩, h10⟩, h11⟩ := hd
  subst h1 h2 h3 h4 h5 h7 h8 h11
  cases subs <;> cases arr <;> cases ob <;> simp_all [JS.newRef]

/-- The same definition converted without the visitor: the description is gone. -/
theorem ref_with_annotations_lost_without_visitor :
    j2oas none (.obj (some { description := some "The name of a disk." }) none none none none .none none none
      .none .none (some "Name") []) = .ok (.ref "Name") ∧
    j2oas none (JS.rrs (.obj (some { description := some "The name of a disk." }) none none none none .none none
      none .none .none (some "Name") []))
      = .ok (.item (.mk { description := some "The name of a disk." } (.allOf (.cons (.ref "Name") .nil)))) :=
  ⟨rfl, rfl⟩

/-- the `name` argument replaces the schema's own title. -/
theorem name_overrides_title :
    j2oas (some "N") (.obj (some { title := some "T" }) none none none none .none none none .none .none none [])
    = .ok (.item (.mk { title := some "N" } .any)) := rfl

/-! ### Panics are errors, not silent changes -/

/-- the constructs OpenAPI 3.0 cannot express are refused (a `panic!` in the
code, an error value here), never converted to something else. -/
theorem refuses_unrepresentable :
    j2oas none (.bool false) = .error .nullSet
    ∧ j2oas none (.obj none (some (.vec [.string, .null])) none none none .none none none .none .none none [])
        = .error .typeArray
    ∧ j2oas none (.obj none (some (.single .array)) none none none .none none none
        (.some (.vec (.cons so .nil)) .none none none none .none) .none none []) = .error .tupleItems
    ∧ j2oas none (.obj none (some (.single .array)) none none none .none none none .none .none none [])
        = .error .arrayNone
    ∧ j2oas none (.obj none (some (.single .string)) none none none
        (.some (.some .nil) .none .none .none .none .none .none) none none .none .none none [])
        = .error .typeAndSubschemas
    ∧ j2oas none (.obj none (some (.single .string)) none (some [.num 1]) none .none none none .none .none none [])
        = .error .enumValue
    ∧ j2oas none (.obj none (some (.single .integer)) none none none .none
        (some { minimum := some 0, exclusiveMinimum := some 0 }) none .none .none none [])
        = .error .invalidBounds
    ∧ j2oas none (.obj none none none none none
        (.some (.some .nil) (.some .nil) .none .none .none .none .none) none none .none .none none [])
        = .error .invalidSubschema :=
  ⟨rfl, rfl, rfl, rfl, rfl, rfl, rfl, rfl⟩

end Dropshot.C08
