/-
C14 — page tokens round-trip, malformed tokens are refused, limits are clamped.

Property theorems only.  Model: DropshotModel/Pagination.lean (token codec,
`PaginationParams` parsing, `page_limit`), DropshotModel/Json.lean,
DropshotModel/Base64.lean.  The JSON and base64 round trips are *proved*
(Lemmas/Json `parse_print`, Lemmas/Base64 `decode_encode`), so the token
theorems carry no codec hypothesis about dropshot's own envelope; the only
codec hypothesis left is about the application's selector type
(`c.dec (c.enc s) = some s`, the serde derive contract), and it disappears for
selectors that are JSON values themselves (`token_roundtrip_json_partial`).
-/
import DropshotModel.Pagination
import DropshotProofs.Lemmas.Pagination

namespace Dropshot.C14
open Dropshot Dropshot.Json Dropshot.Pagination

variable {σ scan : Type}

/-! ### Issued tokens are accepted back -/

/- Full statement (does NOT hold of the code, finding K4):
     ∀ c s t, c.dec (c.enc s) = some s → (c.enc s).wf →
       serializeToken c s = .ok t → deserializeToken c t = .ok s
   It fails for selectors nested 127 or more containers deep: `serde_json::to_vec`
   has no depth limit, `serde_json::from_slice` has (128).  See `C14_full_fails`. -/

/-- **C14 (round trip).**  Any token the framework issues is accepted back and
yields the same page selector — for every selector whose JSON is nested fewer
than 127 levels deep (`hdepth`, the excluded region of finding K4).  `hcodec`
is the application type's own serde round trip; `hw` says its strings are
UTF-8 (true of every Rust `String`). -/
theorem token_roundtrip_partial (c : SelCodec σ) (s : σ) (t : Bytes)
    (hcodec : c.dec (c.enc s) = some s) (hw : (c.enc s).wf = true)
    (hdepth : c.typedDepth (c.enc s) < maxJsonDepth)
    (h : serializeToken c s = .ok t) : deserializeToken c t = .ok s := by
  unfold serializeToken at h
  simp only at h
  split at h
  · cases h
  · rename_i hlen
    injection h with h; subst h
    unfold tokenBytes at *
    rw [deserialize_b64_print c _ (envelope_wf _ hw) (by omega), decEnvelope_envelope]
    simp only [decSel, if_neg (by omega : ¬ c.typedDepth (c.enc s) ≥ maxJsonDepth), hcodec]

/-- The same without any codec hypothesis: selectors that are JSON values. -/
theorem token_roundtrip_json_partial (j : JVal) (t : Bytes) (hw : j.wf = true)
    (hdepth : j.depth < maxJsonDepth) (h : serializeToken SelCodec.json j = .ok t) :
    deserializeToken SelCodec.json t = .ok j :=
  token_roundtrip_partial SelCodec.json j t rfl hw hdepth h

/-- Non-vacuity: a selector with a string, a number and nesting is issued. -/
def sampleSel : JVal :=
  .obj (.cons [110] (.str [195, 169, 34, 10]) (.cons [105] (.arr (.cons (.num (-7)) .nil)) .nil))

example : serializeToken SelCodec.json sampleSel = .ok (tokenBytes SelCodec.json sampleSel) ∧
    sampleSel.wf = true ∧ sampleSel.depth < maxJsonDepth := by
  refine ⟨?_, ?_, ?_⟩ <;> decide +kernel

/-- **C14 (size-bound symmetry).**  The length gate on the way in never refuses
a token that passed the length gate on the way out. -/
theorem issued_never_refused (c : SelCodec σ) (s : σ) (t : Bytes) (h : serializeToken c s = .ok t) :
    t.length ≤ maxTokenLength ∧ deserializeToken c t ≠ .error .tooLarge := by
  unfold serializeToken at h
  simp only at h
  split at h
  · cases h
  · rename_i hlen
    injection h with h; subst h
    refine ⟨by omega, ?_⟩
    unfold deserializeToken
    rw [if_neg hlen]
    repeat' split
    all_goals simp

/-- **C14 (issue side).**  Issuing fails exactly when the base64 text of the
JSON envelope exceeds 512 characters … -/
theorem issue_fails_iff (c : SelCodec σ) (s : σ) :
    serializeToken c s = .error .tooLarge ↔
      4 * (((envelope (c.enc s)).print.length + 2) / 3) > 512 := by
  unfold serializeToken tokenBytes
  simp only [Base64.encode_length, maxTokenLength]
  split <;> simp_all

/-- … i.e. exactly when the selector's own JSON is longer than 360 bytes; -/
theorem issue_fails_iff_selector_size (c : SelCodec σ) (s : σ) :
    serializeToken c s = .error .tooLarge ↔ (c.enc s).print.length > 360 := by
  rw [issue_fails_iff, envelope_print_length]; omega

/-- … and that failure is a 500-class error at *issue* time, the only one. -/
theorem issue_error_is_500 (c : SelCodec σ) (s : σ) (e : IssueErr)
    (_ : serializeToken c s = .error e) : e.status = 500 := by
  cases e; rfl

/-! ### Finding K4: the full round-trip statement fails -/

/-- `n + 1` nested arrays. -/
def nest : Nat → JVal
  | 0 => .arr .nil
  | n + 1 => .arr (.cons (nest n) .nil)

/-- **K4 witness.**  127 nested arrays (a value of `struct N(Vec<N>)`): the
token is issued (372 characters) and then refused as corrupted. -/
theorem deep_selector_issued_then_refused :
    (serializeToken SelCodec.json (nest 126)).toOption.isSome = true ∧
    deserializeToken SelCodec.json (tokenBytes SelCodec.json (nest 126)) = .error (.corrupted .depth) := by
  constructor <;> decide +kernel

/-- **C14_full_fails**: the round trip without the depth hypothesis is false. -/
theorem C14_full_fails :
    ¬ ∀ (j : JVal) (t : Bytes), j.wf = true → serializeToken SelCodec.json j = .ok t →
        deserializeToken SelCodec.json t = .ok j := by
  intro h
  have hs : serializeToken SelCodec.json (nest 126) = .ok (tokenBytes SelCodec.json (nest 126)) := by
    decide +kernel
  have := h (nest 126) _ (by decide +kernel) hs
  rw [deep_selector_issued_then_refused.2] at this
  cases this

/-- One level less is fine (the boundary of the excluded region is exact). -/
theorem depth_boundary_ok :
    deserializeToken SelCodec.json (tokenBytes SelCodec.json (nest 125)) = .ok (nest 125) := by
  decide +kernel

/-! ### Malformed tokens are refused, with a 400-class error, never a panic -/

/-- Over-long. -/
theorem overlong_refused (c : SelCodec σ) (tok : Bytes) (h : tok.length > maxTokenLength) :
    deserializeToken c tok = .error .tooLarge := by
  unfold deserializeToken; rw [if_pos h]

/-- Not valid base64 (wrong alphabet, bad padding, trailing bits, bad length). -/
theorem not_base64_refused (c : SelCodec σ) (tok : Bytes) (h : tok.length ≤ maxTokenLength)
    (hb : Base64.decode .urlSafe tok = none) : deserializeToken c tok = .error .base64 := by
  unfold deserializeToken; rw [if_neg (by omega), hb]

/-- Not valid JSON. -/
theorem not_json_refused (c : SelCodec σ) (tok bs : Bytes) (h : tok.length ≤ maxTokenLength)
    (hb : Base64.decode .urlSafe tok = some bs) (hj : Json.parse bs = none) :
    deserializeToken c tok = .error (.corrupted .json) := by
  unfold deserializeToken; rw [if_neg (by omega), hb]; simp only [hj]

/-- Valid JSON of the wrong shape or version: whatever `decEnvelope` refuses is
refused, as "corrupted". -/
theorem bad_envelope_refused (c : SelCodec σ) (tok bs : Bytes) (j : JVal) (e : Corrupt)
    (h : tok.length ≤ maxTokenLength) (hb : Base64.decode .urlSafe tok = some bs)
    (hj : Json.parse bs = some j) (he : decEnvelope c j = .error e) :
    ∃ e', deserializeToken c tok = .error (.corrupted e') := by
  unfold deserializeToken; rw [if_neg (by omega), hb]; simp only [hj, he]; exact ⟨_, rfl⟩

/-- Wrong shape: a scalar, or an array that is not a pair. -/
theorem wrong_shape_refused (c : SelCodec σ) (j : JVal)
    (h : (∀ kvs, j ≠ .obj kvs) ∧ (∀ a b, j ≠ .arr (.cons a (.cons b .nil)))) :
    decEnvelope c j = .error .shape := by
  unfold decEnvelope
  split
  · exact absurd rfl (h.1 _)
  · exact absurd rfl (h.2 _ _)
  · rfl

/-- Wrong version: any `v` that is not the known version. -/
theorem wrong_version_refused (c : SelCodec σ) (v sel : JVal) (hv : decVersion v = false) :
    decEnvelope c (.obj (.cons kV v (.cons kPageStart sel .nil))) = .error .version := by
  simp [decEnvelope, walkFields, hv]

theorem v2_is_wrong_version : decVersion (.str [118, 50]) = false := by decide

/-- Version field missing. -/
theorem missing_version_refused (c : SelCodec σ) (sel : JVal) :
    ∃ e, decEnvelope c (.obj (.cons kPageStart sel .nil)) = .error e := by
  have h1 : kPageStart ≠ kV := by decide
  cases h : decSel c sel <;> simp [decEnvelope, walkFields, h1, h]

/-- `page_start` missing (for a selector type that is not an `Option`). -/
theorem missing_page_start_refused (c : SelCodec σ) (hm : c.missing = none) :
    decEnvelope c (.obj (.cons kV (.str kV1) .nil)) = .error .missingField := by
  simp [decEnvelope, walkFields, decVersion, hm]

/-- A repeated known field. -/
theorem duplicate_field_refused (c : SelCodec σ) (sel : JVal) :
    ∃ e, decEnvelope c (.obj (.cons kV (.str kV1) (.cons kV (.str kV1) (.cons kPageStart sel .nil)))) = .error e := by
  exact ⟨.dupField, by simp [decEnvelope, walkFields, decVersion]⟩

/-- A token built from any JSON document is judged by that document alone
(lifts the `decEnvelope` clauses above to real token strings). -/
theorem token_of_json (c : SelCodec σ) (j : JVal) (e : Corrupt) (hw : j.wf = true)
    (hlen : (Base64.encode .urlSafe j.print).length ≤ maxTokenLength)
    (he : decEnvelope c j = .error e) :
    ∃ e', deserializeToken c (Base64.encode .urlSafe j.print) = .error (.corrupted e') := by
  rw [deserialize_b64_print c j hw hlen, he]; exact ⟨_, rfl⟩

/-- **C14 (refusal class, totality).**  Reading the pagination parameters is a
total function; whenever it refuses (token over-long, not base64, not JSON,
wrong shape or version, bad `limit`, bad scan parameters) the error it hands to
the query extractor has status 400 — never a 5xx, and there is no panic branch. -/
theorem refused_is_400 (c : SelCodec σ) (scanOf : (Bytes → Option Bytes) → Option scan)
    (kvs : List (Bytes × Bytes)) :
    (∃ r, parseParams c scanOf kvs = .ok r) ∨
    (∃ e, parseParams c scanOf kvs = .error e ∧ 400 ≤ e.status ∧ e.status < 500) := by
  cases h : parseParams c scanOf kvs with
  | ok r => exact .inl ⟨r, rfl⟩
  | error e => exact .inr ⟨e, rfl, by simp [ParamErr.status]⟩

/-- A refused token in the query makes the whole extraction fail (the handler
is not entered with a half-read page). -/
theorem bad_token_fails_params (c : SelCodec σ) (scanOf : (Bytes → Option Bytes) → Option scan)
    (raw : List (Bytes × Bytes)) (t : Bytes) (e : TokenErr)
    (ht : lastValue raw kPageToken = some t) (he : deserializeToken c t = .error e) :
    whichPage c scanOf raw = .error (.token e) := by
  simp [whichPage, ht, he]

/-- The blank token - the zero-length truncation of every issued token - is valid base64 (of
nothing) but not JSON: it is refused, for every selector type. -/
theorem blank_token_refused {σ : Type} (c : SelCodec σ) :
    deserializeToken c [] = .error (.corrupted .json) :=
  not_json_refused c [] [] (by decide) (by decide) (by decide)

/-- … so a query carrying `page_token=` (present but empty) fails as a whole; it never
starts a new scan from the other parameters. -/
theorem blank_token_fails_params {σ scan : Type} (c : SelCodec σ)
    (scanOf : (Bytes → Option Bytes) → Option scan) (raw : List (Bytes × Bytes))
    (ht : lastValue raw kPageToken = some []) :
    whichPage c scanOf raw = .error (.token (.corrupted .json)) :=
  bad_token_fails_params c scanOf raw [] _ ht (blank_token_refused c)

/-! ### A token alone determines the page -/

/-- **C14 (token alone decides).**  When `page_token` is present, the page is
`Next(selector of the token)` whatever else is in the query: two queries with
the same (last) token give the same result, and the scan-parameter reader is
not even consulted. -/
theorem token_alone_decides (c : SelCodec σ)
    (scanOf scanOf' : (Bytes → Option Bytes) → Option scan)
    (raw raw' : List (Bytes × Bytes)) (t : Bytes)
    (h : lastValue raw kPageToken = some t) (h' : lastValue raw' kPageToken = some t) :
    whichPage c scanOf raw = whichPage c scanOf' raw' := by
  simp [whichPage, h, h']

theorem token_gives_next (c : SelCodec σ) (scanOf : (Bytes → Option Bytes) → Option scan)
    (raw : List (Bytes × Bytes)) (t : Bytes) (s : σ)
    (h : lastValue raw kPageToken = some t) (hs : deserializeToken c t = .ok s) :
    whichPage c scanOf raw = .ok (.next s) := by
  simp [whichPage, h, hs]

/-- Non-vacuity: `sort=x&page_token=T` has the token `T`. -/
example : lastValue [([115, 111, 114, 116], [120]), (kPageToken, [84])] kPageToken = some [84] := by decide

/-! ### Limits -/

/-- **C14 (effective page size).**  The client's limit capped at the server
maximum; the default when absent. -/
theorem limit_effective (n max dflt : Nat) :
    pageLimit (some n) max dflt = min n max ∧ pageLimit none max dflt = dflt := ⟨rfl, rfl⟩

theorem limit_le_max (client : Option Nat) (max dflt : Nat) (h : dflt ≤ max) :
    pageLimit client max dflt ≤ max := by
  cases client <;> simp [pageLimit] <;> omega

/-- A limit that is accepted is a non-zero `u32`. -/
theorem limit_accepted_range (s : Bytes) (n : Nat) (h : parseLimit s = some n) :
    1 ≤ n ∧ n < 4294967296 := by
  unfold parseLimit at h
  cases hp : parseU32 s with
  | none => simp [hp] at h
  | some m =>
    simp only [hp] at h
    rw [parseU32_eq] at hp
    split at h
    · cases h
    · injection h with h; subst h
      repeat' split at hp
      all_goals (cases hp; try exact ⟨by omega, by omega⟩)

/-- Every non-zero `u32`, spelled in decimal, is accepted as itself. -/
theorem limit_accepts_decimal (n : Nat) (h1 : 1 ≤ n) (h2 : n < 4294967296) :
    parseLimit (natDec n) = some n := by
  obtain ⟨c, t, hct, hc⟩ := natDec_head n
  have hv : digitsValue (natDec n) = n := digitsValue_natDigits (n + 1) n (by omega)
  have ha : (natDec n).all isDigit = true := natDigits_all_digits _ _
  have h43 : c ≠ 43 := by
    simp only [isDigit, decide_eq_true_eq] at hc; omega
  unfold parseLimit
  rw [parseU32_eq, hct, stripPlus_other c t h43, ← hct, ha, hv]
  simp [hct, h2]; omega

/-- **C14 (zero refused).** -/
theorem limit_refused_zero : parseLimit [48] = none := by decide

/-- All-zero spellings too (`00`, `+0`, …). -/
theorem limit_refused_zero_value (s : Bytes) (n : Nat) (h : parseU32 s = some n) (hz : n = 0) :
    parseLimit s = none := by
  simp [parseLimit, h, hz]

/-- **C14 (non-numeric refused).**  Any byte that is not a digit, other than
one leading `+`, and the empty string. -/
theorem limit_refused_nonnumeric (s : Bytes) (h : s = [] ∨ ∃ c ∈ s.drop 1, isDigit c = false) :
    parseLimit s = none := by
  rcases h with rfl | ⟨c, hc, hd⟩
  · decide
  · have key : ∀ ds : Bytes, c ∈ ds → ds.all isDigit = false := by
      intro ds hm
      rw [List.all_eq_false]
      exact ⟨c, hm, by simp [hd]⟩
    unfold parseLimit
    rw [parseU32_eq]
    match s, hc with
    | a :: r, hc =>
      simp only [List.drop_succ_cons, List.drop_zero] at hc
      by_cases ha : a = 43
      · subst ha; rw [stripPlus_plus, key r hc]; simp
      · rw [stripPlus_other a r ha, key (a :: r) (by simp [hc])]; simp

/-- A first byte that is neither a digit nor `+`. -/
theorem limit_refused_bad_first (c : Nat) (s : Bytes) (h1 : isDigit c = false) (h2 : c ≠ 43) :
    parseLimit (c :: s) = none := by
  unfold parseLimit
  rw [parseU32_eq, stripPlus_other c s h2]
  simp [h1]

/-- **C14 (negative refused).**  Anything that starts with `-`. -/
theorem limit_refused_negative (s : Bytes) : parseLimit (45 :: s) = none :=
  limit_refused_bad_first 45 s (by decide) (by decide)

/-- **C14 (out of range refused).**  A numeral ≥ 2^32 is refused, not capped
(interpretation recorded in DESIGN.md: out of range for the declared `uint32`). -/
theorem limit_refused_too_big (s : Bytes)
    (hv : digitsValue (stripPlus s) ≥ 4294967296) : parseLimit s = none := by
  have : parseU32 s = none := by
    rw [parseU32_eq]
    repeat' split
    all_goals first
      | rfl
      | omega
  simp [parseLimit, this]

example : parseLimit [52, 50, 57, 52, 57, 54, 55, 50, 57, 54] = none := by decide  -- 4294967296
example : parseLimit [52, 50, 57, 52, 57, 54, 55, 50, 57, 53] = some 4294967295 := by decide
example : parseLimit [43, 53] = some 5 := by decide   -- "+5"
example : parseLimit [97] = none := by decide          -- "a"
example : parseLimit [49, 32] = none := by decide      -- "1 "

/-- A second `limit` parameter is refused (serde's duplicate-field rule). -/
theorem duplicate_limit_refused (v w : Bytes) (rest : List (Bytes × Bytes)) (n : Nat)
    (h : parseLimit v = some n) :
    takeLimit ((kLimit, v) :: (kLimit, w) :: rest) none = .error .dupLimit := by
  simp [takeLimit, h]

end Dropshot.C14
