/-
C13 — error responses follow one contract and never leak internal detail.

Property theorems only.  Model: DropshotModel/Error.lean (status refinement
types, `HttpError` constructors, `into_response`, the request-id stamping of
server.rs / handler.rs), DropshotModel/HeaderMap.lean (header multimap).
Lemmas: DropshotProofs/Lemmas/HeaderMap.lean.

Partial (not a theorem, monitored on every run): "x-request-id is unique per
request" is a property of `Uuid::new_v4` randomness.
-/
import DropshotModel.Error
import DropshotProofs.Lemmas.HeaderMap

namespace Dropshot.C13
open Dropshot Dropshot.Error Dropshot.HMap

/-! ### Only 400–599 can be represented as an error status -/

/-- "only codes 400-599 can ever be represented as an error status":
`ErrorStatusCode::from_u16` succeeds exactly on 400..=599 … -/
theorem fromU16_iff (n : Nat) :
    (∃ e, ErrorStatus.fromU16 n = .ok e) ↔ 400 ≤ n ∧ n ≤ 599 := by
  unfold ErrorStatus.fromU16 statusFromU16 ErrorStatus.fromStatus isClientError isServerError
  split <;> rename_i h
  · split at h <;> simp_all
    omega
  · split at h
    · cases h
      split <;> simp_all <;> omega
    · cases h

/-- … and then keeps the number it was given. -/
theorem fromU16_code (n : Nat) (e : ErrorStatus) (h : ErrorStatus.fromU16 n = .ok e) :
    e.code = n := by
  unfold ErrorStatus.fromU16 statusFromU16 ErrorStatus.fromStatus at h
  split at h
  · cases h
  · rename_i s hs
    split at hs <;> cases hs
    split at h <;> cases h
    rfl

/-- `ClientErrorStatusCode::from_u16` succeeds exactly on 400..=499. -/
theorem client_iff (n : Nat) :
    (∃ c, ClientErrorStatus.fromU16 n = .ok c) ↔ 400 ≤ n ∧ n ≤ 499 := by
  unfold ClientErrorStatus.fromU16 statusFromU16 ClientErrorStatus.fromStatus isClientError
  split <;> rename_i h
  · split at h <;> simp_all
    omega
  · split at h
    · cases h
      split <;> simp_all <;> omega
    · cases h

theorem client_code (n : Nat) (c : ClientErrorStatus) (h : ClientErrorStatus.fromU16 n = .ok c) :
    c.code = n := by
  unfold ClientErrorStatus.fromU16 statusFromU16 ClientErrorStatus.fromStatus at h
  split at h
  · cases h
  · rename_i s hs
    split at hs <;> cases hs
    split at h <;> cases h
    rfl

/-- Which error a refused number gets: outside 100..=999 it is not a status
code at all, otherwise it is not an error. -/
theorem fromU16_error_kind (n : Nat) :
    (ErrorStatus.fromU16 n = .error .invalidStatus ↔ n < 100 ∨ 1000 ≤ n) ∧
    (ErrorStatus.fromU16 n = .error .notInClass ↔ (100 ≤ n ∧ n < 400) ∨ (600 ≤ n ∧ n < 1000)) := by
  unfold ErrorStatus.fromU16 statusFromU16 ErrorStatus.fromStatus isClientError isServerError
  constructor
  · split <;> rename_i h
    · split at h <;> simp_all
      omega
    · split at h
      · cases h
        split <;> simp_all <;> omega
      · cases h
  · split <;> rename_i h
    · split at h <;> simp_all
      omega
    · split at h
      · cases h
        split <;> simp_all <;> omega
      · cases h

/-- The client type refines the error type: whatever `ClientErrorStatusCode`
accepts, `ErrorStatusCode` accepts with the same number (`From<Client…>`). -/
theorem refinement (n : Nat) (c : ClientErrorStatus) (h : ClientErrorStatus.fromU16 n = .ok c) :
    ErrorStatus.fromU16 n = .ok c.toError := by
  have hc := client_code n c h
  have hr := (client_iff n).1 ⟨c, h⟩
  obtain ⟨e, he⟩ := (fromU16_iff n).2 ⟨hr.1, by omega⟩
  have := fromU16_code n e he
  rw [he]
  cases e; cases c
  simp_all [ClientErrorStatus.toError]

/-- `as_client_error` succeeds exactly on the 4xx half, keeping the number. -/
theorem asClient_iff (e : ErrorStatus) (c : ClientErrorStatus) :
    e.asClient = .ok c ↔ (400 ≤ e.code ∧ e.code ≤ 499 ∧ c.code = e.code) := by
  unfold ErrorStatus.asClient isClientError
  cases c
  split <;> simp_all <;> omega

/-- Every value of `ClientErrorStatusCode` that public code can build is a 4xx. -/
theorem client_built_range (c : ClientErrorStatus) (h : c.Built) : 400 ≤ c.code ∧ c.code ≤ 499 := by
  cases h with
  | const n hn =>
    simp only [clientConstants, List.mem_cons, List.not_mem_nil, or_false] at hn
    show 400 ≤ n ∧ n ≤ 499
    omega
  | fromStatus s c hs =>
    unfold ClientErrorStatus.fromStatus isClientError at hs
    split at hs <;> cases hs
    simp_all; omega
  | fromU16 n c hn =>
    have := client_code n c hn
    have := (client_iff n).1 ⟨c, hn⟩
    omega
  | asClient e c he =>
    have := (asClient_iff e c).1 he
    omega

/-- **Every value of `ErrorStatusCode` that public code can build — constants,
`from_status`, `from_u16`/`TryFrom`, conversion from the client type — is in
400..=599.** -/
theorem built_range (e : ErrorStatus) (h : e.Built) : 400 ≤ e.code ∧ e.code ≤ 599 := by
  cases h with
  | const n hn =>
    simp only [errorConstants, clientConstants, List.mem_append, List.mem_cons, List.not_mem_nil,
      or_false] at hn
    show 400 ≤ n ∧ n ≤ 599
    omega
  | fromStatus s e hs =>
    unfold ErrorStatus.fromStatus isClientError isServerError at hs
    split at hs <;> cases hs
    simp_all; omega
  | fromU16 n e hn =>
    have := fromU16_code n e hn
    have := (fromU16_iff n).1 ⟨e, hn⟩
    omega
  | ofClient c hc =>
    have := client_built_range c hc
    simp only [ClientErrorStatus.toError]
    omega

/-! ### The response contract -/

/-- "produces a response with exactly that status". -/
theorem response_status (e : HttpError) (id : Str) :
    (intoResponse e id).status = e.status.code := rfl

/-- "a JSON body carrying the external message, the optional error code and
the request id" — and nothing else of the error. -/
theorem response_body (e : HttpError) (id : Str) :
    (intoResponse e id).body =
      renderErrBody { requestId := id, errorCode := e.errorCode, message := e.external } := rfl

/-- "plus any headers attached to the error": every attached header other
than the two the framework sets itself arrives with all its values, in order. -/
theorem response_headers_attached (e : HttpError) (id : Str) (n : Str)
    (h1 : n ≠ hContentType) (h2 : n ≠ hRequestId) :
    getAll n (intoResponse e id).headers = getAll n e.headers := by
  simp [intoResponse, getAll_append, getAll_remove, h1, h2]

/-- The framework's two headers carry exactly one value each, whatever the
error had attached under those names. -/
theorem response_headers_own (e : HttpError) (id : Str) :
    getAll hContentType (intoResponse e id).headers = [ctJson] ∧
    getAll hRequestId (intoResponse e id).headers = [id] := by
  have hne : hContentType ≠ hRequestId := by decide
  constructor
  · simp [intoResponse, getAll_append, getAll_remove, hne]
  · simp [intoResponse, getAll_append, getAll_remove, hne.symm]

/-- **C13 (contract clause)**, all parts together. -/
theorem response_contract (e : HttpError) (id : Str) :
    let r := intoResponse e id
    r.status = e.status.code ∧
    r.body = renderErrBody { requestId := id, errorCode := e.errorCode, message := e.external } ∧
    getAll hRequestId r.headers = [id] ∧
    getAll hContentType r.headers = [ctJson] ∧
    ∀ n, n ≠ hContentType → n ≠ hRequestId → getAll n r.headers = getAll n e.headers :=
  ⟨rfl, rfl, (response_headers_own e id).2, (response_headers_own e id).1,
    fun n h1 h2 => response_headers_attached e id n h1 h2⟩

/-- With a representable status the response status is a 4xx/5xx. -/
theorem response_status_range (e : HttpError) (id : Str) (h : e.status.Built) :
    400 ≤ (intoResponse e id).status ∧ (intoResponse e id).status ≤ 599 :=
  built_range e.status h

/-- **Non-interference: the internal message is never sent.**  Two errors that
differ only in `internal_message` produce identical responses. -/
theorem internal_not_sent (e : HttpError) (a b : Str) (id : Str) :
    intoResponse { e with internal := a } id = intoResponse { e with internal := b } id := rfl

/-- The same through the server's wrapper. -/
theorem internal_not_sent_wrap (e : HttpError) (a b : Str) (id : Str) :
    wrap (.dropshotErr { e with internal := a }) id = wrap (.dropshotErr { e with internal := b }) id :=
  rfl

/-- Nor is the `Display` text of a user error type (kept for the log only). -/
theorem handler_message_not_sent (m1 m2 : Str) (rsp : Response) (id : Str) :
    wrap (.handlerErr m1 rsp) id = wrap (.handlerErr m2 rsp) id := rfl

/-! ### The request id on every response -/

/-- **C13 (request-id clause).**  Whatever the outcome — success, an error of
a user-defined type, an `HttpError` from a handler or from the framework
itself — and whatever headers the handler set, the response carries exactly
one `x-request-id`, equal to the id the handler was given. -/
theorem id_everywhere (o : Outcome) (id : Str) :
    getAll hRequestId (wrap o id).headers = [id] := by
  cases o with
  | ok rsp => simp [wrap, getAll_insert]
  | handlerErr m rsp => simp [wrap, getAll_insert]
  | dropshotErr e => exact (response_headers_own e id).2

/-- … and a framework-format error body carries the same id. -/
theorem id_in_body (e : HttpError) (id : Str) :
    (wrap (.dropshotErr e) id).body = renderErrBody (errBody e id) ∧
    (errBody e id).requestId = id := ⟨rfl, rfl⟩

/-- Stamping the id changes nothing else of a success or user-error response. -/
theorem wrap_preserves (rsp : Response) (id : Str) (m : Str) :
    (wrap (.ok rsp) id).status = rsp.status ∧ (wrap (.ok rsp) id).body = rsp.body ∧
    (wrap (.handlerErr m rsp) id).status = rsp.status ∧
    (wrap (.handlerErr m rsp) id).body = rsp.body ∧
    ∀ n, n ≠ hRequestId →
      getAll n (wrap (.ok rsp) id).headers = getAll n rsp.headers ∧
      getAll n (wrap (.handlerErr m rsp) id).headers = getAll n rsp.headers := by
  refine ⟨rfl, rfl, rfl, rfl, ?_⟩
  intro n hn
  simp [wrap, getAll_insert, hn]

/-! ### Constructor facts -/

/-- `for_internal_error`, `for_unavail`, `for_not_found`: the external message
and the status do not depend on the (internal) argument. -/
theorem ctor_external_independent (a b : Str) (code : Option Str) :
    (forInternalError a).external = (forInternalError b).external ∧
    (forUnavail code a).external = (forUnavail code b).external ∧
    (forNotFound code a).external = (forNotFound code b).external ∧
    (forInternalError a).status.code = 500 ∧ (forUnavail code a).status.code = 503 ∧
    (forNotFound code a).status.code = 404 :=
  ⟨rfl, rfl, rfl, rfl, rfl, rfl⟩

/-- … so their responses do not depend on it either. -/
theorem ctor_response_independent (a b : Str) (code : Option Str) (id : Str) :
    intoResponse (forInternalError a) id = intoResponse (forInternalError b) id ∧
    intoResponse (forUnavail code a) id = intoResponse (forUnavail code b) id ∧
    intoResponse (forNotFound code a) id = intoResponse (forNotFound code b) id :=
  ⟨rfl, rfl, rfl⟩

/-- The client-error constructors keep the status they are given and use the
one message for both purposes. -/
theorem ctor_client (code : Option Str) (c : ClientErrorStatus) (msg : Str) :
    (forClientError code c msg).status.code = c.code ∧
    (forClientError code c msg).external = msg ∧
    (forClientError code c msg).errorCode = code ∧
    (forBadRequest code msg).status.code = 400 ∧
    (forBadRequest code msg).external = msg ∧
    (forClientErrorWithStatus code c).status.code = c.code ∧
    (forClientErrorWithStatus code c).errorCode = code :=
  ⟨rfl, rfl, rfl, rfl, rfl, rfl, rfl⟩

/-- Every constructor yields a status in 400..=599 when given a client status
that public code can build. -/
theorem ctor_status_range (code : Option Str) (c : ClientErrorStatus) (hc : c.Built) (msg a : Str) :
    (∀ e ∈ [forClientError code c msg, forClientErrorWithStatus code c, forBadRequest code msg,
        forInternalError a, forUnavail code a, forNotFound code a],
      400 ≤ e.status.code ∧ e.status.code ≤ 599) := by
  have := client_built_range c hc
  intro e he
  simp only [List.mem_cons, List.not_mem_nil, or_false] at he
  rcases he with rfl | rfl | rfl | rfl | rfl | rfl <;>
    simp [forClientError, forClientErrorWithStatus, forBadRequest, forInternalError, forUnavail,
      forNotFound, ClientErrorStatus.toError] <;> omega

/-- Attaching a header keeps status, messages and code. -/
theorem withHeader_keeps (e : HttpError) (n v : Str) :
    (withHeader e n v).status = e.status ∧ (withHeader e n v).external = e.external ∧
    (withHeader e n v).errorCode = e.errorCode ∧ (withHeader e n v).internal = e.internal ∧
    getAll (lowerName n) (withHeader e n v).headers = getAll (lowerName n) e.headers ++ [v] := by
  refine ⟨rfl, rfl, rfl, rfl, ?_⟩
  simp [withHeader, getAll_append]

/-! ### Regression witnesses for the two defects repaired while building C13 -/

/-- Before the repair, an error carrying its own `x-request-id` header produced
a response with two values, the first one not the request's id. -/
theorem intoResponseAsIs_fails :
    let e := withHeader (forBadRequest none []) hRequestId [98]
    getAll hRequestId (intoResponseAsIs e [97]).headers = [[98], [97]] ∧
    getAll hRequestId (intoResponse e [97]).headers = [[97]] := by
  decide

/-- Before the repair, `for_client_error_with_status` panicked on representable
4xx codes without a canonical reason (e.g. 444). -/
theorem forClientErrorWithStatusAsIs_fails :
    (∃ c, ClientErrorStatus.fromU16 444 = .ok c ∧ forClientErrorWithStatusAsIs none c = none) := by
  refine ⟨⟨444⟩, rfl, ?_⟩
  simp [forClientErrorWithStatusAsIs, canonicalReason, reasonStr]

/-! ### Non-vacuity -/

example : ∃ e, ErrorStatus.fromU16 404 = .ok e := (fromU16_iff 404).2 (by omega)
example : ErrorStatus.fromU16 399 = .error .notInClass ∧ ErrorStatus.fromU16 600 = .error .notInClass ∧
    ErrorStatus.fromU16 99 = .error .invalidStatus ∧ ErrorStatus.fromU16 1000 = .error .invalidStatus :=
  ⟨rfl, rfl, rfl, rfl⟩
example : ErrorStatus.Built ⟨555⟩ := .fromU16 555 ⟨555⟩ rfl
example : ClientErrorStatus.Built ⟨444⟩ := .fromU16 444 ⟨444⟩ rfl
example : getAll [120] (intoResponse (withHeader (forNotFound none [1]) [88] [5]) [7]).headers = [[5]] := by
  decide
example : hContentType ≠ hRequestId := by decide

end Dropshot.C13
